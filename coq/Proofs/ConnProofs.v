From Coq Require Import ZifyBool Lia.
From FMP Require Import Base.Bytes Base.Lts Model.Connection Model.ConnProps.
Open Scope Z_scope.

Definition start_state (o : copts) (eager : bool) ds cs cm : cstate := if eager then cinit_eager o ds cs cm else cinit o ds cs cm.
Definition reachable cfg o eager ds cs cm st := exists ls, run (cstep cfg o) (start_state o eager ds cs cm) ls = Some st.

Definition is_seq_label (g : Z) (l : clabel) : bool :=
  match l with
  | LAnnounce h | LTimerStart h | LDelayDone h | LRetryStart h | LDialBegin h | LDialEnd h | LRegister h | LOnConnect h
  | LPublish h | LCheck h | LNotify h | LBackoffEnd h | LFinish h => h =? g
  | LTimerElapse => true
  | _ => false
  end.
Definition dial_begins (tr : list cev) : nat := length (filter (fun e => match e with EvDialBegin => true | _ => false end) tr).


(* ====================================================================== *)
(* generic helpers                                                        *)
(* ====================================================================== *)
Lemma ctrace_ext : forall st st' evs, chist st' = evs ++ chist st -> ctrace st' = ctrace st ++ rev evs.
Proof. unfold ctrace; intros st st' evs ->; apply rev_app_distr. Qed.

Lemma mon_extend : forall (S : Type) (step : S -> cev -> option S) m0 st st' evs m m',
  run step m0 (ctrace st) = Some m -> chist st' = evs ++ chist st -> run step m (rev evs) = Some m' ->
  run step m0 (ctrace st') = Some m'.
Proof.
  intros S step m0 st st' evs m m' H1 H2 H3. rewrite (ctrace_ext _ _ _ H2), run_app, H1. exact H3.
Qed.

Lemma caccepts_run : forall (S : Type) (step : S -> cev -> option S) m0 tr m, run step m0 tr = Some m -> caccepts step m0 tr = true.
Proof. intros S step m0 tr m H; unfold caccepts; rewrite H; reflexivity. Qed.

Ltac head_destruct H :=
  repeat match type of H with
  | match ?x with _ => _ end = Some _ => let E := fresh "E" in destruct x eqn:E; try discriminate H
  | (if ?x then _ else _) = Some _ => let E := fresh "E" in destruct x eqn:E; try discriminate H
  end.

(* invert one step into its leaves; [st'] is replaced by the explicit successor *)
Ltac step_leaves H :=
  match type of H with
  | cstep _ _ _ ?l = Some ?st' =>
      destruct l; unfold cstep, seq_step, goto in H; head_destruct H; injection H as H; subst st'
  end.

Lemma sfind_gen : forall g l s, sfind g l = Some s -> sq_gen s = g.
Proof.
  induction l as [|a l IH]; simpl; intros s H; [discriminate|].
  destruct (sq_gen a =? g) eqn:E; [injection H as <-; lia | auto].
Qed.

Lemma sfind_In : forall g l s, sfind g l = Some s -> In s l.
Proof.
  induction l as [|a l IH]; simpl; intros s H; [discriminate|].
  destruct (sq_gen a =? g); [injection H as <-; auto | auto].
Qed.

Lemma map_gen_supdate : forall g f l, (forall s, sq_gen (f s) = sq_gen s) -> map sq_gen (supdate g f l) = map sq_gen l.
Proof.
  intros g f l Hf; induction l as [|a l IH]; simpl; [reflexivity|].
  destruct (sq_gen a =? g); simpl; [rewrite Hf; reflexivity | rewrite IH; reflexivity].
Qed.

Lemma sfind_supdate : forall g f l s, (forall s, sq_gen (f s) = sq_gen s) -> sfind g l = Some s -> sfind g (supdate g f l) = Some (f s).
Proof.
  intros g f l s Hf; induction l as [|a l IH]; simpl; intros H; [discriminate|].
  destruct (sq_gen a =? g) eqn:E; simpl.
  - injection H as <-. rewrite Hf, E. reflexivity.
  - rewrite E. auto.
Qed.

Lemma sfind_sremove : forall g l, sfind g (sremove g l) = None.
Proof.
  intros g l; induction l as [|a l IH]; simpl; [reflexivity|].
  destruct (sq_gen a =? g) eqn:E; simpl; [exact IH | rewrite E; exact IH].
Qed.

Lemma ffind_none_In : forall g e l, ffind g l = None -> In (g, e) l -> False.
Proof.
  induction l as [|[k x] l IH]; simpl; intros H1 H2; [exact H2|].
  destruct (k =? g) eqn:E; [discriminate|]. destruct H2 as [H2|H2]; [injection H2 as -> ->; lia | auto].
Qed.

(* ====================================================================== *)
(* generations: every generation is closed at most once                   *)
(* ====================================================================== *)
Fixpoint FinOK (l : list (Z * cerr)) : Prop :=
  match l with [] => True | (g, _) :: r => ffind g r = None /\ FinOK r end.

Definition GenOK (st : cstate) : Prop :=
  (forall g, In g (map sq_gen (seqs st)) -> g < next_gen st /\ ffind g (finished st) = None) /\
  (forall g e, In (g, e) (finished st) -> g < next_gen st) /\
  FinOK (finished st).

Lemma GenOK_frame : forall st st', map sq_gen (seqs st') = map sq_gen (seqs st) -> finished st' = finished st ->
  next_gen st' = next_gen st -> GenOK st -> GenOK st'.
Proof. unfold GenOK; intros st st' -> -> ->; auto. Qed.

Lemma FinOK_ffind : forall l g e, FinOK l -> In (g, e) l -> ffind g l = Some e.
Proof.
  induction l as [|[k x] l IH]; simpl; intros g e H1 H2; [contradiction|].
  destruct H1 as [Hn Hr]. destruct H2 as [H2|H2].
  - injection H2 as -> ->. rewrite Z.eqb_refl. reflexivity.
  - destruct (k =? g) eqn:E; [|auto]. exfalso. assert (k = g) by lia; subst k. eapply ffind_none_In; eauto.
Qed.

Lemma In_map_sremove : forall g h l, In h (map sq_gen (sremove g l)) -> In h (map sq_gen l) /\ h <> g.
Proof.
  intros g h l; induction l as [|a l IH]; simpl; [tauto|].
  destruct (sq_gen a =? g) eqn:E; simpl; intros H.
  - destruct (IH H); auto.
  - destruct H as [H|H]; [split; [auto|lia] | destruct (IH H); auto].
Qed.

Lemma GenOK_init : forall o eager ds cs cm, GenOK (start_state o eager ds cs cm).
Proof.
  intros o eager ds cs cm; destruct eager; unfold GenOK; simpl; repeat split; try tauto.
  all: destruct H as [<-|[]]; try lia; reflexivity.
Qed.

Lemma GenOK_step : forall cfg o st l st', GenOK st -> cstep cfg o st l = Some st' -> GenOK st'.
Proof.
  intros cfg o st l st' HI H. step_leaves H.
  all: try (apply (GenOK_frame st); [ | | | exact HI]; cbn;
            repeat match goal with |- context [if ?b then _ else _] => destruct b end; cbn;
            rewrite ?map_gen_supdate by reflexivity; reflexivity).
  - (* LBegin, new sequence *)
    destruct HI as (H1 & H2 & H3). unfold GenOK; cbn. repeat split; auto.
    + rewrite map_app, in_app_iff in H; simpl in H. destruct H as [H|[<-|[]]]; [apply H1 in H|]; lia.
    + rewrite map_app, in_app_iff in H; simpl in H. destruct H as [H|[<-|[]]]; [apply H1 in H; tauto|].
      destruct (ffind (next_gen st) (finished st)) eqn:F; [|reflexivity].
      exfalso. assert (In (next_gen st, c1) (finished st)).
      { clear - F. induction (finished st) as [|[k x] l IH]; simpl in *; [discriminate|].
        destruct (k =? next_gen st) eqn:E; [injection F as ->; left; f_equal; lia | right; auto]. }
      apply H2 in H. lia.
    + intros g e Hin. apply H2 in Hin. lia.
  - (* LBegin, new sequence (unguarded) *)
    destruct HI as (H1 & H2 & H3). unfold GenOK; cbn. repeat split; auto.
    + rewrite map_app, in_app_iff in H; simpl in H. destruct H as [H|[<-|[]]]; [apply H1 in H|]; lia.
    + rewrite map_app, in_app_iff in H; simpl in H. destruct H as [H|[<-|[]]]; [apply H1 in H; tauto|].
      destruct (ffind (next_gen st) (finished st)) eqn:F; [|reflexivity].
      exfalso. assert (In (next_gen st, c1) (finished st)).
      { clear - F. induction (finished st) as [|[k x] l IH]; simpl in *; [discriminate|].
        destruct (k =? next_gen st) eqn:E'; [injection F as ->; left; f_equal; lia | right; auto]. }
      apply H2 in H. lia.
    + intros g e Hin. apply H2 in Hin. lia.
  - (* LFinish *)
    destruct HI as (H1 & H2 & H3). unfold GenOK; cbn. pose proof (sfind_gen _ _ _ E) as Hg. pose proof (sfind_In _ _ _ E) as Hin.
    assert (Hgi : In g (map sq_gen (seqs st))) by (rewrite <- Hg; apply in_map; exact Hin).
    repeat split.
    + apply In_map_sremove in H. apply H1. tauto.
    + apply In_map_sremove in H. destruct H as [Ha Hb]. destruct (g =? g0) eqn:E'; [lia|]. apply H1; auto.
    + intros g0 e [Heq|Hin']; [injection Heq as <- <-; apply H1; auto | eauto].
    + apply H1; auto.
    + exact H3.
  - (* LShutdown *)
    apply (GenOK_frame st); [|reflexivity|reflexivity|exact HI]. cbn. destruct (registered st); [rewrite map_gen_supdate by reflexivity|]; reflexivity.
Qed.

Lemma GenOK_run : forall cfg o st ls st', GenOK st -> run (cstep cfg o) st ls = Some st' -> GenOK st'.
Proof. intros cfg o st ls st' H1 H2. eapply invariant_run with (Inv := GenOK); eauto using GenOK_step. Qed.

Lemma GenOK_reachable : forall cfg o eager ds cs cm st, reachable cfg o eager ds cs cm st -> GenOK st.
Proof. intros cfg o eager ds cs cm st [ls H]. eapply GenOK_run; [apply GenOK_init | exact H]. Qed.

(* cc_spawn_guarded is not needed for this one *)
Theorem conn_outcome_functional : forall cfg o eager ds cs cm st g e1 e2,
  cc_spawn_guarded cfg = true -> reachable cfg o eager ds cs cm st ->
  In (g, e1) (finished st) -> In (g, e2) (finished st) -> e1 = e2.
Proof.
  intros cfg o eager ds cs cm st g e1 e2 _ Hr H1 H2. apply GenOK_reachable in Hr. destruct Hr as (_ & _ & HF).
  pose proof (FinOK_ffind _ _ _ HF H1) as A. pose proof (FinOK_ffind _ _ _ HF H2) as B. congruence.
Qed.

(* The statement without a hypothesis on [st] is false: from an arbitrary state, a sequence whose generation is already
   closed may close again with a different error. *)
Example conn_outcome_stable_needs_reachable :
  let st := mkCn [mkSeq 0 2 SFinishing ECanceled false] (Some 0) [(0, ENone)] 1 true None None None [] 1 [] [] [] false false [] in
  exists cfg o st', run (cstep cfg o) st [LFinish 0] = Some st' /\ ffind 0 (finished st) = Some ENone /\ ffind 0 (finished st') = Some ECanceled.
Proof.
  exists (mkCcfg true true true true true true true true), (mkCopts false false false). eexists.
  split; [vm_compute; reflexivity|]. split; reflexivity.
Qed.

Lemma outcome_stable_step : forall cfg o st l st' g e,
  GenOK st -> cstep cfg o st l = Some st' -> ffind g (finished st) = Some e -> ffind g (finished st') = Some e.
Proof.
  intros cfg o st l st' g e HI H HF. step_leaves H; cbn.
  all: try solve [repeat match goal with |- context [if ?b then _ else _] => destruct b end; exact HF].
  - (* LFinish *)
    destruct (g0 =? g) eqn:E'; [|exact HF]. exfalso. assert (g0 = g) by lia; subst g0.
    destruct HI as (H1 & _). pose proof (sfind_gen _ _ _ E) as Hg. pose proof (sfind_In _ _ _ E) as Hin.
    assert (Hgi : In g (map sq_gen (seqs st))) by (rewrite <- Hg; apply in_map; exact Hin).
    apply H1 in Hgi. destruct Hgi as [_ Hn]. congruence.
Qed.

(* reachability of [st] added (see the example above); no hypothesis on cfg is needed *)
Theorem conn_outcome_stable : forall cfg o eager ds cs cm st ls st' g e,
  reachable cfg o eager ds cs cm st ->
  run (cstep cfg o) st ls = Some st' -> ffind g (finished st) = Some e -> ffind g (finished st') = Some e.
Proof.
  intros cfg o eager ds cs cm st ls st' g e Hr. apply GenOK_reachable in Hr. revert st Hr.
  induction ls as [|l ls IH]; simpl; intros st HI H HF.
  - injection H as <-. exact HF.
  - destruct (cstep cfg o st l) as [st1|] eqn:E; [|discriminate].
    eapply IH; [eapply GenOK_step; eauto | exact H | eapply outcome_stable_step; eauto].
Qed.


(* ====================================================================== *)
(* with the spawn guard there is at most one sequence, the registered one *)
(* ====================================================================== *)
Definition Single (st : cstate) : Prop :=
  match map sq_gen (seqs st) with
  | [] => registered st = None
  | [g] => registered st = Some g
  | _ => False
  end.

Lemma Single_frame : forall st st', map sq_gen (seqs st') = map sq_gen (seqs st) -> registered st' = registered st ->
  Single st -> Single st'.
Proof. unfold Single; intros st st' -> ->; auto. Qed.

Lemma Single_sfind : forall st g s, Single st -> sfind g (seqs st) = Some s ->
  seqs st = [s] /\ registered st = Some g /\ sq_gen s = g.
Proof.
  unfold Single; intros st g s HS HF. destruct (seqs st) as [|a [|b r]]; cbn in *; try discriminate; try contradiction.
  destruct (sq_gen a =? g) eqn:E; [|discriminate]. injection HF as <-. rewrite HS. repeat split; f_equal; lia.
Qed.

Lemma Single_none : forall st, Single st -> registered st = None -> seqs st = [].
Proof. unfold Single; intros st HS HR. destruct (seqs st) as [|a [|b r]]; cbn in *; congruence || contradiction. Qed.

Lemma Single_some : forall st g, Single st -> registered st = Some g -> exists s, seqs st = [s] /\ sq_gen s = g.
Proof.
  unfold Single; intros st g HS HR. destruct (seqs st) as [|a [|b r]]; cbn in *; try congruence; try contradiction.
  exists a; split; congruence.
Qed.

Lemma supdate_single : forall g f s, sq_gen s = g -> supdate g f [s] = [f s].
Proof. intros g f s <-; cbn. rewrite Z.eqb_refl; reflexivity. Qed.

Lemma sremove_single : forall g s, sq_gen s = g -> sremove g [s] = [].
Proof. intros g s <-; cbn. rewrite Z.eqb_refl; reflexivity. Qed.

Ltac step_leaves_g Hg H :=
  match type of H with
  | cstep _ _ _ ?l = Some ?st' =>
      destruct l; unfold cstep, seq_step, goto in H; try rewrite Hg in H; head_destruct H; injection H as H; subst st'
  end.

Ltac proj_simpl :=
  cbn [seqs registered finished next_gen reconnected_before client cur staged live next_xp dials conns cmds timer_running
       firenow_pending chist upd set_timer fire_timer].
Ltac norm_pc := repeat match goal with
  | H : match sq_pc ?s with _ => _ end = true |- _ => destruct (sq_pc s) eqn:?; try discriminate H; clear H
  | H : true = true |- _ => clear H
  end.
Ltac rewrite_pc := match goal with H : sq_pc ?s = _ |- _ => rewrite H end.
Ltac rewrite_pc' HR := match goal with H : sq_pc ?s = _ |- _ => rewrite H in HR end.
Ltac proj_simpl_in H :=
  cbn [seqs registered finished next_gen reconnected_before client cur staged live next_xp dials conns cmds timer_running
       firenow_pending chist upd set_timer fire_timer] in H.
Ltac split_ifs := repeat match goal with |- context [if ?b then _ else _] => destruct b end.

Lemma Single_init : forall o eager ds cs cm, Single (start_state o eager ds cs cm).
Proof. intros o eager ds cs cm; destruct eager; reflexivity. Qed.

Lemma Single_step : forall cfg o st l st', cc_spawn_guarded cfg = true -> Single st -> cstep cfg o st l = Some st' -> Single st'.
Proof.
  intros cfg o st l st' Hg HI H. step_leaves_g Hg H.
  all: try (apply (Single_frame st); [ | | exact HI]; cbn; split_ifs; cbn; rewrite ?map_gen_supdate by reflexivity; congruence).
  - (* LBegin, new sequence *)
    rewrite (Single_none _ HI E2) in *. reflexivity.
  - (* LFinish *)
    destruct (Single_sfind _ _ _ HI E) as (Hs & Hr & Hgen). unfold Single; cbn. rewrite Hs, (sremove_single _ _ Hgen). reflexivity.
  - (* LShutdown *)
    apply (Single_frame st); [ | | exact HI]; cbn; [|reflexivity].
    destruct (registered st); rewrite ?map_gen_supdate by reflexivity; reflexivity.
Qed.

Lemma Single_reachable : forall cfg o eager ds cs cm st, cc_spawn_guarded cfg = true -> reachable cfg o eager ds cs cm st -> Single st.
Proof.
  intros cfg o eager ds cs cm st Hg [ls H]. eapply invariant_run with (Inv := Single); [|apply Single_init|exact H].
  intros; eapply Single_step; eauto.
Qed.

(* ====================================================================== *)
(* monitors: stepping                                                     *)
(* ====================================================================== *)
Lemma mon_ext_0 : forall (S : Type) (step : S -> cev -> option S) m0 st st' m m',
  run step m0 (ctrace st) = Some m -> chist st' = chist st -> m = m' -> run step m0 (ctrace st') = Some m'.
Proof. intros S step m0 st st' m m' H1 H2 <-. eapply (mon_extend S step m0 st st' []); eauto. Qed.

Lemma mon_ext_1 : forall (S : Type) (step : S -> cev -> option S) m0 st st' m e m',
  run step m0 (ctrace st) = Some m -> chist st' = e :: chist st -> step m e = Some m' -> run step m0 (ctrace st') = Some m'.
Proof. intros S step m0 st st' m e m' H1 H2 H3. eapply (mon_extend S step m0 st st' [e]); eauto. simpl. rewrite H3. reflexivity. Qed.

Lemma mon_ext_2 : forall (S : Type) (step : S -> cev -> option S) m0 st st' m e1 e2 m1 m',
  run step m0 (ctrace st) = Some m -> chist st' = e2 :: e1 :: chist st -> step m e1 = Some m1 -> step m1 e2 = Some m' ->
  run step m0 (ctrace st') = Some m'.
Proof.
  intros S step m0 st st' m e1 e2 m1 m' H1 H2 H3 H4. eapply (mon_extend S step m0 st st' [e2; e1]); eauto. simpl. rewrite H3, H4. reflexivity.
Qed.

(* ====================================================================== *)
(* C14 (a): one dial at a time                                            *)
(* ====================================================================== *)
Definition is_dialing (s : seqg) : bool := match sq_pc s with SDialing => true | _ => false end.
Definition dialing (st : cstate) : bool := existsb is_dialing (seqs st).

Definition Inv1 (st : cstate) : Prop := Single st /\ run onedial_step false (ctrace st) = Some (dialing st).

Lemma Inv1_step : forall cfg o st l st', cc_spawn_guarded cfg = true -> Inv1 st -> cstep cfg o st l = Some st' -> Inv1 st'.
Proof.
  intros cfg o st l st' Hg [HS HM] H. split; [eapply Single_step; eauto|].
  step_leaves_g Hg H.
  all: try (destruct (Single_sfind _ _ _ HS E) as (Hs & Hr & Hgen)).
  all: split_ifs.
  all: first [ eapply mon_ext_0; [exact HM | reflexivity | ]
             | eapply mon_ext_1; [exact HM | reflexivity | ]
             | eapply mon_ext_2; [exact HM | reflexivity | | ] ].
  all: norm_pc.
  all: unfold dialing; proj_simpl; try rewrite Hs; rewrite ?(supdate_single _ _ _ Hgen), ?(sremove_single _ _ Hgen); cbn [existsb onedial_step].
  all: unfold is_dialing; cbn [sq_pc sq_set_pc sq_set_err]; try rewrite_pc.
  all: try reflexivity.
  all: try (rewrite existsb_app; cbn; rewrite orb_false_r; reflexivity).
  - destruct (match conns st with [] => OOk | a :: _ => a end); reflexivity.
  - destruct (registered st) as [g|] eqn:Hr; [|reflexivity]. destruct (Single_some _ _ HS Hr) as (s & Hs & Hgen).
    rewrite Hs, (supdate_single _ _ _ Hgen). reflexivity.
  - destruct (registered st) as [g|] eqn:Hr; [|reflexivity]. destruct (Single_some _ _ HS Hr) as (s & Hs & Hgen).
    rewrite Hs, (supdate_single _ _ _ Hgen). reflexivity.
Qed.

Lemma Inv1_init : forall o eager ds cs cm, Inv1 (start_state o eager ds cs cm).
Proof. intros o eager ds cs cm; split; [apply Single_init | destruct eager; reflexivity]. Qed.

(* cmds_fresh is not needed for this one *)
Theorem conn_one_dial : forall cfg o eager ds cs cm st,
  cc_spawn_guarded cfg = true -> cmds_fresh cm = true -> reachable cfg o eager ds cs cm st ->
  c14_one_dial (ctrace st) = true.
Proof.
  intros cfg o eager ds cs cm st Hg _ [ls H].
  assert (HI : Inv1 st).
  { eapply invariant_run with (Inv := Inv1); [|apply Inv1_init|exact H]. intros; eapply Inv1_step; eauto. }
  destruct HI as [_ HM]. eapply caccepts_run; exact HM.
Qed.

(* ====================================================================== *)
(* C14 (b): the shape of sequences                                        *)
(* ====================================================================== *)
Definition seq_relevant (e : cev) : bool :=
  match e with
  | EvDisc _ | EvDialBegin | EvDialEnd _ _ | EvRegister _ | EvOnConnect _ | EvConnErr | EvFinalize _ | EvShutdown => true
  | _ => false
  end.

Lemma seqmon_irr : forall m e, seq_relevant e = false -> seqmon_step m e = Some m.
Proof. intros m e H; unfold seqmon_step; destruct (sm_shut m); destruct e; try discriminate H; reflexivity. Qed.

Definition phase_of (m : seqmon) (st : cstate) (s : seqg) : Prop :=
  match sq_pc s with
  | SAnnounce => sm_ph m = PIdle /\ sq_status s = (if sm_announced_before m then 3 else 2)
  | SDelayStart | SDelayWait | SRetryStart => sm_ph m = PAnnounced
  | SAttempt => sm_ph m = PAnnounced \/ sm_ph m = PNotified
  | SDialing => sm_ph m = PDialing
  | SDialed x => sm_ph m = PDialed x false /\ staged st = Some x
  | SRegistered x => sm_ph m = PDialed x true /\ staged st = Some x
  | SConnected x => sm_ph m = PConnected x /\ staged st = Some x
  | SCheck ENone | SCheck EConnFatal | SFinishing => sm_ph m = PIdle
  | SCheck EDialFail | SCheck EConnFail => sm_ph m = PFailed
  | SCheck _ => False
  | SNotify _ => sm_ph m = PFailed
  | SBackoff => sm_ph m = PNotified
  end.

Definition R2 (m : seqmon) (st : cstate) : Prop :=
  if sm_shut m then
    sm_dials_after_shut m < 0 \/
    (0 <= sm_dials_after_shut m <= 1 /\
     match seqs st with
     | [s] => (sq_pc s = SAnnounce \/ sq_cancelled s = true) /\ (sq_pc s = SAttempt -> sm_dials_after_shut m = 0)
     | _ => True
     end)
  else
    match seqs st with
    | [] => sm_ph m = PIdle /\ sm_announced_before m = reconnected_before st
    | [s] => sq_cancelled s = false /\ reconnected_before st = true /\ (sq_pc s = SAnnounce \/ sm_announced_before m = true) /\
             phase_of m st s
    | _ => True
    end.

Lemma R2_frame : forall m st st', seqs st' = seqs st -> staged st' = staged st -> reconnected_before st' = reconnected_before st ->
  R2 m st -> R2 m st'.
Proof. unfold R2, phase_of; intros m st st' -> -> ->; auto. Qed.

Definition Inv2 (fib : bool) (st : cstate) : Prop :=
  Single st /\ exists m, run seqmon_step (seqmon0 fib) (ctrace st) = Some m /\ R2 m st.

Ltac mon_irr HM lem :=
  first [ eapply mon_ext_0; [exact HM | reflexivity | reflexivity]
        | eapply mon_ext_1; [exact HM | reflexivity | apply lem; reflexivity]
        | eapply mon_ext_2; [exact HM | reflexivity | apply lem; reflexivity | apply lem; reflexivity] ].

Lemma supdate_self : forall f s, supdate (sq_gen s) f [s] = [f s].
Proof. intros; apply supdate_single; reflexivity. Qed.
Lemma sremove_self : forall s, sremove (sq_gen s) [s] = [].
Proof. intros; apply sremove_single; reflexivity. Qed.

Ltac step_leaves_t rw H :=
  match type of H with
  | cstep _ _ _ ?l = Some ?st' =>
      destruct l; unfold cstep, seq_step, goto in H; rw H; head_destruct H; injection H as H; subst st'
  end.

Ltac sm_simpl := cbn [sm_ph sm_announced_before sm_shut sm_dials_after_shut].
Ltac sm_simpl_in H := cbn [sm_ph sm_announced_before sm_shut sm_dials_after_shut] in H.
Ltac sq_simpl := cbn [sq_pc sq_set_pc sq_set_err sq_cancelled sq_status sq_cancel sq_gen sq_err].
Ltac ltb_cases := repeat match goal with |- context [?a <? ?b] => let E := fresh "L" in destruct (a <? b) eqn:E end.

Ltac r2_goal Hs :=
  unfold R2, phase_of; proj_simpl; sm_simpl; rewrite ?Hs; rewrite ?supdate_self, ?sremove_self; sq_simpl; try rewrite_pc;
  intuition (try congruence; try lia).

Ltac sm_step := unfold seqmon_step, sm_go; sm_simpl; ltb_cases; rewrite ?Z.eqb_refl; first [exfalso; lia | reflexivity].

Ltac rw_status := match goal with Hq : sq_status _ = _ |- _ => rewrite Hq end.
Ltac rw_staged := match goal with Hq : staged _ = _ |- _ => rewrite Hq end.
Ltac inv2_leaf HM HR Hs m :=
  let ph := fresh "ph" in let ab := fresh "ab" in let shut := fresh "shut" in let d := fresh "d" in
  destruct m as [ph ab shut d]; unfold R2, phase_of in HR; rewrite Hs in HR; try rewrite_pc' HR; sm_simpl_in HR;
  destruct shut; decompose [and or] HR; clear HR; subst; try congruence;
  (eexists; split;
   [ first [ eapply mon_ext_0; [exact HM | reflexivity | reflexivity] | eapply mon_ext_1; [exact HM | reflexivity | sm_step ] ]
   | r2_goal Hs ]).

Lemma Inv2_step : forall cfg o st l st', cc_spawn_guarded cfg = true -> cc_register_before_onconnect cfg = true ->
  Inv2 (co_force_initial_backoff o) st -> cstep cfg o st l = Some st' -> Inv2 (co_force_initial_backoff o) st'.
Proof.
  intros cfg o st l st' Hg Hreg [HS (m & HM & HR)] H. split; [eapply Single_step; eauto|].
  step_leaves_t ltac:(fun H => try rewrite Hg in H; try rewrite Hreg in H) H.
  all: try (destruct (Single_sfind _ _ _ HS E) as (Hs & Hr & Hgen); subst g).
  all: try solve [split_ifs; exists m; (split; [mon_irr HM seqmon_irr | apply (R2_frame m st); [reflexivity..|exact HR]])].
  all: norm_pc.
  all: try solve [inv2_leaf HM HR Hs m].
  - (* LBegin, new sequence *)
    pose proof (Single_none _ HS E2) as Hs. exists m. split; [mon_irr HM seqmon_irr|].
    destruct m as [ph ab shut d]; unfold R2, phase_of in HR |- *; rewrite Hs in HR; sm_simpl_in HR; proj_simpl; sm_simpl; rewrite Hs.
    cbn [app]; sq_simpl. destruct shut.
    + destruct HR as [HR|[HR _]]; [left; exact HR | right; split; [exact HR|]]. split; [left; reflexivity | discriminate].
    + destruct HR as [-> ->]. repeat split; auto.
  - (* LAnnounce *)
    destruct (wants_delay o (sq_status s)).
    + destruct m as [ph ab shut d]; unfold R2, phase_of in HR; rewrite Hs in HR; try rewrite_pc' HR; sm_simpl_in HR;
      destruct shut; decompose [and or] HR; clear HR; subst; try congruence.
      all: eexists; (split; [eapply mon_ext_1; [exact HM | reflexivity | unfold seqmon_step; sm_simpl; try rw_status; rewrite ?Z.eqb_refl; reflexivity] | r2_goal Hs]).
    + destruct m as [ph ab shut d]; unfold R2, phase_of in HR; rewrite Hs in HR; try rewrite_pc' HR; sm_simpl_in HR;
      destruct shut; decompose [and or] HR; clear HR; subst; try congruence.
      all: eexists; (split; [eapply mon_ext_1; [exact HM | reflexivity | unfold seqmon_step; sm_simpl; try rw_status; rewrite ?Z.eqb_refl; reflexivity] | r2_goal Hs]).
  - (* LTimerStart *)
    destruct (firenow_pending st); inv2_leaf HM HR Hs m.
  - (* LDialBegin *)
    destruct m as [ph ab shut d]; unfold R2, phase_of in HR; rewrite Hs in HR; try rewrite_pc' HR; sm_simpl_in HR;
    destruct shut.
    + destruct HR as [HR|(HR1 & HR2 & HR3)].
      * eexists; (split; [eapply mon_ext_1; [exact HM | reflexivity | sm_step] | r2_goal Hs]).
      * specialize (HR3 eq_refl). subst d.
        eexists; (split; [eapply mon_ext_1; [exact HM | reflexivity | sm_step] | r2_goal Hs]).
    + decompose [and or] HR; clear HR; subst; try congruence.
      all: eexists; (split; [eapply mon_ext_1; [exact HM | reflexivity | sm_step] | r2_goal Hs]).
  - (* LOnConnect *)
    destruct (match conns st with [] => OOk | a :: _ => a end); inv2_leaf HM HR Hs m.
  - (* LPublish *)
    destruct m as [ph ab shut d]; unfold R2, phase_of in HR; rewrite Hs in HR; try rewrite_pc' HR; sm_simpl_in HR;
    destruct shut; decompose [and or] HR; clear HR; subst; try congruence.
    all: eexists; (split; [eapply mon_ext_1; [exact HM | reflexivity | try rw_staged; sm_step] | r2_goal Hs]).
  - (* LShutdown *)
    destruct (registered st) as [g|] eqn:Hr.
    + destruct (Single_some _ _ HS Hr) as (s & Hs & Hgen). subst g.
      destruct m as [ph ab shut d]; unfold R2, phase_of in HR; rewrite Hs in HR; sm_simpl_in HR.
      destruct shut.
      * eexists; (split; [eapply mon_ext_1; [exact HM | reflexivity | sm_step] | ]).
        unfold R2; proj_simpl; sm_simpl. rewrite Hs, supdate_self. sq_simpl. intuition.
      * eexists; (split; [eapply mon_ext_1; [exact HM | reflexivity | sm_step] | ]).
        unfold R2; proj_simpl; sm_simpl. rewrite Hs, supdate_self. sq_simpl. right. split; [lia|]. split; auto.
    + pose proof (Single_none _ HS Hr) as Hs.
      destruct m as [ph ab shut d]; unfold R2, phase_of in HR; rewrite Hs in HR; sm_simpl_in HR.
      destruct shut.
      * eexists; (split; [eapply mon_ext_1; [exact HM | reflexivity | sm_step] | ]).
        unfold R2; proj_simpl; sm_simpl. rewrite Hs. intuition.
      * eexists; (split; [eapply mon_ext_1; [exact HM | reflexivity | sm_step] | ]).
        unfold R2; proj_simpl; sm_simpl. rewrite Hs. right. split; [lia|exact I].
Qed.

Lemma Inv2_init : forall o eager ds cs cm, Inv2 (co_force_initial_backoff o) (start_state o eager ds cs cm).
Proof.
  intros o eager ds cs cm; split; [apply Single_init|]. exists (seqmon0 (co_force_initial_backoff o)). split; [destruct eager; reflexivity|].
  destruct eager; unfold R2, phase_of; cbn; auto 10.
Qed.

(* cmds_fresh is not needed for this one *)
Theorem conn_sequences : forall cfg o eager ds cs cm st,
  cc_spawn_guarded cfg = true -> cc_register_before_onconnect cfg = true -> cmds_fresh cm = true ->
  reachable cfg o eager ds cs cm st ->
  c14_sequences (co_force_initial_backoff o) (ctrace st) = true.
Proof.
  intros cfg o eager ds cs cm st Hg Hreg _ [ls H].
  assert (HI : Inv2 (co_force_initial_backoff o) st).
  { eapply invariant_run with (Inv := Inv2 (co_force_initial_backoff o)); [|apply Inv2_init|exact H]. intros; eapply Inv2_step; eauto. }
  destruct HI as [_ (m & HM & _)]. eapply caccepts_run; exact HM.
Qed.


(* ====================================================================== *)
(* every step prepends at most two events                                 *)
(* ====================================================================== *)
Lemma step_hist : forall cfg o st l st', cstep cfg o st l = Some st' -> exists evs, chist st' = evs ++ chist st.
Proof.
  intros cfg o st l st' H. step_leaves H.
  all: split_ifs; first [ exists []; reflexivity | eexists [_]; reflexivity | eexists [_; _]; reflexivity ].
Qed.

(* ====================================================================== *)
(* C16: the connect delay                                                 *)
(* ====================================================================== *)
Definition open_pc (p : spc) : bool :=
  match p with SAnnounce | SCheck ENone | SCheck EConnFatal | SFinishing => false | _ => true end.
Definition ann_pc (p : spc) : bool := match p with SAnnounce => true | _ => false end.
Definition pre_timer_pc (p : spc) : bool := match p with SAnnounce | SDelayStart => true | _ => false end.
Definition windup_pc (p : spc) : bool := match p with SCheck ENone | SCheck EConnFatal | SFinishing => true | _ => false end.

Definition wait_pc (p : spc) : bool := match p with SDelayWait => true | _ => false end.

Definition R4 (m : delaymon) (st : cstate) : Prop :=
  dm_off m = true \/
  match seqs st with
  | [] => dm_t m = TmIdle /\ dm_must_fire m = false /\ dm_seq_open m = false /\ dm_unannounced m = false /\
          timer_running st = false /\ firenow_pending st = false
  | [s] =>
      sq_cancelled s = false /\ dm_unannounced m = ann_pc (sq_pc s) /\ dm_seq_open m = open_pc (sq_pc s) /\
      (if wait_pc (sq_pc s)
       then if timer_running st then dm_t m = TmStarted /\ dm_must_fire m = false
            else dm_t m = TmReleased \/ (dm_t m = TmStarted /\ dm_must_fire m = true)
       else dm_t m = TmIdle /\ timer_running st = false) /\
      (if pre_timer_pc (sq_pc s) then dm_must_fire m = firenow_pending st else True) /\
      (if windup_pc (sq_pc s) then dm_must_fire m = false else True)
  | _ => False
  end.

Lemma R4_frame : forall m m' st st',
  dm_t m' = dm_t m -> dm_must_fire m' = dm_must_fire m -> dm_seq_open m' = dm_seq_open m -> dm_unannounced m' = dm_unannounced m ->
  dm_off m' = dm_off m ->
  seqs st' = seqs st -> timer_running st' = timer_running st -> firenow_pending st' = firenow_pending st ->
  R4 m st -> R4 m' st'.
Proof. unfold R4; intros m m' st st' -> -> -> -> -> -> -> ->; auto. Qed.

Lemma wait_open : forall p, wait_pc p = true -> open_pc p = true.
Proof. destruct p; simpl; congruence. Qed.
Lemma pre_timer_live : forall p, pre_timer_pc p = true -> open_pc p || ann_pc p = true.
Proof. destruct p; simpl; congruence. Qed.
Lemma windup_dead : forall p, windup_pc p = true -> open_pc p || ann_pc p = false.
Proof. destruct p as [| | | | | | | | |e| | |]; simpl; try congruence; destruct e; simpl; congruence. Qed.

(* firing / elapsing of the timer *)
Lemma R4_release : forall m m' st st',
  dm_t m' = release (dm_t m) -> dm_must_fire m' = dm_must_fire m -> dm_seq_open m' = dm_seq_open m ->
  dm_unannounced m' = dm_unannounced m -> dm_off m' = dm_off m ->
  seqs st' = seqs st -> timer_running st' = false -> firenow_pending st' = firenow_pending st ->
  R4 m st -> R4 m' st'.
Proof.
  unfold R4; intros m m' st st' -> -> -> -> -> -> -> -> [H|H]; [left; exact H|right].
  destruct (seqs st) as [|s [|]]; [| |exact H].
  - destruct H as (-> & H2 & H3 & H4 & H5 & H6). repeat split; auto.
  - destruct H as (H1 & H2 & H3 & H4 & H5). split; [exact H1|]. split; [exact H2|]. split; [exact H3|]. split; [|exact H5].
    destruct (wait_pc (sq_pc s)).
    + left. destruct (timer_running st); [destruct H4 as [-> _]; reflexivity | destruct H4 as [-> | [-> _]]; reflexivity].
    + destruct H4 as [-> _]. auto.
Qed.

Lemma R4_running : forall m st, R4 m st -> dm_off m = false -> timer_running st = true -> dm_t m = TmStarted /\ dm_must_fire m = false.
Proof.
  unfold R4; intros m st [H|H] Hoff Hr; [congruence|].
  destruct (seqs st) as [|s [|]].
  - destruct H as (_ & _ & _ & _ & H & _); congruence.
  - destruct H as (_ & _ & _ & H & _). rewrite Hr in H. destruct (wait_pc (sq_pc s)); [exact H | destruct H; congruence].
  - contradiction.
Qed.

Lemma delaymon_off : forall m e, dm_off m = true -> delaymon_step m e = Some m.
Proof. intros m e H; unfold delaymon_step; rewrite H; reflexivity. Qed.

Lemma delaymon_off_run : forall m evs, dm_off m = true -> run delaymon_step m evs = Some m.
Proof. intros m evs H; induction evs as [|e evs IH]; simpl; [reflexivity | rewrite (delaymon_off _ _ H); exact IH]. Qed.

Definition delay_relevant (e : cev) : bool :=
  match e with
  | EvShutdown | EvTimerStart | EvTimerElapsed | EvFastForward | EvFireNow _ | EvExec _ _ _ | EvCmdRet _ _ | EvWaiting _ _ _
  | EvDisc _ | EvDelayDone | EvDialBegin | EvFinalize _ | EvDialEnd DFatal _ | EvOnConnect OFatal => true
  | _ => false
  end.

Lemma delaymon_irr : forall m e, delay_relevant e = false -> delaymon_step m e = Some m.
Proof.
  intros m e H; unfold delaymon_step; destruct (dm_off m); [reflexivity|].
  destruct e as [| | | | |d ?| |c| | | | | | | | | | | |]; try discriminate H; try reflexivity; [destruct d|destruct c]; try discriminate H; reflexivity.
Qed.

Definition dm_setmay (m : delaymon) (l : list Z) : delaymon :=
  mkDM (dm_t m) (dm_must_fire m) (dm_seq_open m) (dm_unannounced m) (dm_off m) l.

Lemma delaymon_exec : forall m c k x, dm_off m = false ->
  delaymon_step m (EvExec c k x) = Some (dm_setmay m (filter (fun d => negb (d =? c)) (dm_may m))).
Proof. intros m c k x H; unfold delaymon_step, dm_setmay; rewrite H; reflexivity. Qed.

Lemma delaymon_ret : forall m c e, dm_off m = false ->
  delaymon_step m (EvCmdRet c e) = Some (dm_setmay m (filter (fun d => negb (d =? c)) (dm_may m))).
Proof. intros m c e H; unfold delaymon_step, dm_setmay; rewrite H; reflexivity. Qed.

Ltac dm_easy Hoff := first [ apply delaymon_irr; reflexivity | apply delaymon_exec; exact Hoff | apply delaymon_ret; exact Hoff ].
Ltac mon_easy4 HM Hoff :=
  first [ eapply mon_ext_0; [exact HM | reflexivity | reflexivity]
        | eapply mon_ext_1; [exact HM | reflexivity | dm_easy Hoff]
        | eapply mon_ext_2; [exact HM | reflexivity | dm_easy Hoff | dm_easy Hoff] ].

Definition Inv4 (eager : bool) (st : cstate) : Prop :=
  Single st /\ exists m, run delaymon_step (delaymon0 eager) (ctrace st) = Some m /\ R4 m st.

Ltac dm_simpl := cbn [dm_t dm_must_fire dm_seq_open dm_unannounced dm_off dm_may].
Ltac dm_simpl_in H := cbn [dm_t dm_must_fire dm_seq_open dm_unannounced dm_off dm_may] in H.
Ltac pc_simpl := cbn [open_pc ann_pc pre_timer_pc windup_pc wait_pc].
Ltac pc_simpl_in H := cbn [open_pc ann_pc pre_timer_pc windup_pc wait_pc] in H.

Ltac dm_step := unfold delaymon_step, release; dm_simpl; cbn [orb andb negb release]; first [exfalso; congruence | reflexivity].

Ltac r4_goal Hs :=
  unfold R4; right; proj_simpl; dm_simpl; rewrite ?Hs; rewrite ?supdate_self, ?sremove_self; sq_simpl; try rewrite_pc; pc_simpl;
  repeat match goal with Hq : timer_running _ = _ |- _ => rewrite Hq end;
  intuition (try congruence).

Ltac inv4_leaf HM HR Hs Hoff m :=
  let t := fresh "t" in let mf := fresh "mf" in let so := fresh "so" in let un := fresh "un" in let off := fresh "off" in
  let may := fresh "may" in
  destruct m as [t mf so un off may]; unfold R4 in HR; dm_simpl_in HR; dm_simpl_in Hoff; destruct HR as [HR|HR]; [congruence|];
  rewrite Hs in HR; try rewrite_pc' HR; pc_simpl_in HR;
  try (destruct (timer_running _) eqn:?);
  decompose [and or] HR; clear HR; subst; try congruence;
  (eexists; split;
   [ first [ eapply mon_ext_0; [exact HM | reflexivity | reflexivity] | eapply mon_ext_1; [exact HM | reflexivity | dm_step ] ]
   | r4_goal Hs ]).

Ltac fr Hoff := first [reflexivity | symmetry; exact Hoff | exact Hoff].

Lemma Inv4_step : forall cfg o eager st l st', cc_spawn_guarded cfg = true -> cc_firenow_sticky cfg = true ->
  Inv4 eager st -> cstep cfg o st l = Some st' -> Inv4 eager st'.
Proof.
  intros cfg o eager st l st' Hg Hst [HS (m & HM & HR)] H. split; [eapply Single_step; eauto|].
  destruct (dm_off m) eqn:Hoff.
  { destruct (step_hist _ _ _ _ _ H) as [evs Hev]. exists m. split; [|left; exact Hoff].
    eapply mon_extend; [exact HM | exact Hev | apply delaymon_off_run; exact Hoff]. }
  step_leaves_t ltac:(fun H => try rewrite Hg in H; try rewrite Hst in H) H.
  all: try (destruct (Single_sfind _ _ _ HS E) as (Hs & Hr & Hgen); subst g).
  all: try solve [split_ifs; eexists; (split; [mon_easy4 HM Hoff | apply (R4_frame m _ st); [reflexivity..|exact HR]])].
  all: norm_pc.
  all: try solve [inv4_leaf HM HR Hs Hoff m].
  - (* LFire *)
    destruct (cm_firenow c0 && negb (cm_force c0) && (co_first_delay o || co_window o)).
    + destruct (cm_started c0).
      * eexists; split; [eapply mon_ext_1; [exact HM | reflexivity | unfold delaymon_step; rewrite Hoff; reflexivity]|].
        apply (R4_release m _ st); [fr Hoff..|exact HR].
      * eexists; split; [eapply mon_ext_2; [exact HM | reflexivity | apply delaymon_irr; reflexivity | unfold delaymon_step; rewrite Hoff; reflexivity]|].
        apply (R4_release m _ st); [fr Hoff..|exact HR].
    + split_ifs; eexists; (split; [mon_easy4 HM Hoff | apply (R4_frame m _ st); [reflexivity..|exact HR]]).
  - (* LBegin, joining *)
    destruct (cm_firenow c0 && negb (cm_force c0) && (co_first_delay o || co_window o)); cbn [andb].
    + eexists; split; [eapply mon_ext_1; [exact HM | reflexivity | unfold delaymon_step; rewrite Hoff; reflexivity]|].
      cbn [andb orb]. destruct (Single_some _ _ HS E2) as (s & Hs & Hgen).
      unfold R4 in HR |- *. rewrite Hoff in HR. destruct HR as [HR|HR]; [discriminate|]. right. proj_simpl; dm_simpl.
      rewrite Hs in *. destruct HR as (H1 & H2 & H3 & H4 & H5 & H6). rewrite H2, H3.
      split; [exact H1|]. split; [reflexivity|]. split; [reflexivity|]. split; [|split].
      * destruct (wait_pc (sq_pc s)) eqn:W.
        -- rewrite (wait_open _ W). cbn [orb]. left.
           destruct (timer_running st); [destruct H4 as [-> _]; reflexivity | destruct H4 as [-> | [-> _]]; reflexivity].
        -- destruct H4 as [-> _]. split; reflexivity.
      * destruct (pre_timer_pc (sq_pc s)) eqn:P; [|exact I]. rewrite (pre_timer_live _ P). reflexivity.
      * destruct (windup_pc (sq_pc s)) eqn:P; [|exact I]. rewrite (windup_dead _ P). exact H6.
    + eexists; split; [eapply mon_ext_1; [exact HM | reflexivity | unfold delaymon_step; rewrite Hoff; reflexivity]|].
      cbn [andb orb]. apply (R4_frame m _ st); [fr Hoff..|exact HR].
  - (* LBegin, new sequence *)
    pose proof (Single_none _ HS E2) as Hs.
    eexists; split; [eapply mon_ext_1; [exact HM | reflexivity | unfold delaymon_step; rewrite Hoff; reflexivity]|].
    unfold R4 in HR |- *. rewrite Hoff in HR. destruct HR as [HR|HR]; [discriminate|]. right. proj_simpl; dm_simpl.
    rewrite Hs in *. cbn [app]. sq_simpl. pc_simpl. destruct HR as (H1 & H2 & H3 & H4 & H5 & H6). rewrite H1, H2, H3, H4, H5, H6.
    cbn [orb andb]. destruct (cm_firenow c0 && negb (cm_force c0) && (co_first_delay o || co_window o)); cbn [andb release]; auto 10.
  - (* LAnnounce *)
    destruct (wants_delay o (sq_status s)); inv4_leaf HM HR Hs Hoff m.
  - (* LTimerStart *)
    destruct (firenow_pending st) eqn:Hp; inv4_leaf HM HR Hs Hoff m.
  - (* LOnConnect *)
    destruct (match conns st with [] => OOk | a :: _ => a end); inv4_leaf HM HR Hs Hoff m.
  - (* LTimerElapse *)
    destruct (R4_running _ _ HR Hoff E) as [Ht Hmf].
    eexists; split; [eapply mon_ext_1; [exact HM | reflexivity | unfold delaymon_step; rewrite Hoff, Ht, Hmf; reflexivity]|].
    apply (R4_release m _ st); [dm_simpl; rewrite Ht; reflexivity | dm_simpl; congruence | fr Hoff..|exact HR].
  - (* LFastForward *)
    eexists; split; [eapply mon_ext_1; [exact HM | reflexivity | unfold delaymon_step; rewrite Hoff; reflexivity]|].
    apply (R4_release m _ st); [fr Hoff..|exact HR].
  - (* LShutdown *)
    eexists; split; [eapply mon_ext_1; [exact HM | reflexivity | unfold delaymon_step; rewrite Hoff; reflexivity]|].
    left. reflexivity.
Qed.

Lemma Inv4_init : forall o eager ds cs cm, Inv4 eager (start_state o eager ds cs cm).
Proof.
  intros o eager ds cs cm; split; [apply Single_init|]. exists (delaymon0 eager). split; [destruct eager; reflexivity|].
  destruct eager; unfold R4; cbn; auto 10.
Qed.

(* cc_connected_needs_client and cmds_fresh are not needed for this one *)
Theorem conn_delay : forall cfg o eager ds cs cm st,
  cc_spawn_guarded cfg = true -> cc_firenow_sticky cfg = true -> cc_connected_needs_client cfg = true ->
  cmds_fresh cm = true -> reachable cfg o eager ds cs cm st ->
  c16_delay eager (ctrace st) = true.
Proof.
  intros cfg o eager ds cs cm st Hg Hst _ _ [ls H].
  assert (HI : Inv4 eager st).
  { eapply invariant_run with (Inv := Inv4 eager); [|apply Inv4_init|exact H]. intros; eapply Inv4_step; eauto. }
  destruct HI as [_ (m & HM & _)]. eapply caccepts_run; exact HM.
Qed.


(* ====================================================================== *)
(* Shutdown: a cancelled sequence can finish on its own                   *)
(* ====================================================================== *)
Definition is_dial_begin (e : cev) : bool := match e with EvDialBegin => true | _ => false end.

Lemma dial_begins_app : forall a b, dial_begins (a ++ b) = (dial_begins a + dial_begins b)%nat.
Proof. intros a b; unfold dial_begins. rewrite filter_app, app_length. reflexivity. Qed.

Lemma dial_begins_0 : forall st st', chist st' = chist st -> dial_begins (ctrace st') = dial_begins (ctrace st).
Proof. intros st st' H; unfold ctrace; rewrite H; reflexivity. Qed.

Lemma dial_begins_1 : forall st st' e, chist st' = e :: chist st ->
  dial_begins (ctrace st') = (dial_begins (ctrace st) + (if is_dial_begin e then 1 else 0))%nat.
Proof.
  intros st st' e H; unfold ctrace; rewrite H; simpl rev. rewrite dial_begins_app. f_equal.
  unfold dial_begins; simpl. destruct e; reflexivity.
Qed.

Section Shutdown.
  Variables (cfg : ccfg) (o : copts) (g : Z).

  Definition Fin (st : cstate) (n d : nat) : Prop :=
    exists ls st', (length ls <= n)%nat /\ forallb (is_seq_label g) ls = true /\
                   run (cstep cfg o) st ls = Some st' /\ sfind g (seqs st') = None /\ ffind g (finished st') <> None /\
                   (dial_begins (ctrace st') <= dial_begins (ctrace st) + d)%nat.

  Lemma Fin_weaken : forall st n d n' d', Fin st n d -> (n <= n')%nat -> (d <= d')%nat -> Fin st n' d'.
  Proof. intros st n d n' d' (ls & st' & H1 & H2 & H3 & H4 & H5 & H6) Hn Hd. exists ls, st'. repeat split; auto; lia. Qed.

  Lemma Fin_step0 : forall st l st1 n d, cstep cfg o st l = Some st1 -> is_seq_label g l = true -> chist st1 = chist st ->
    Fin st1 n d -> Fin st (S n) d.
  Proof.
    intros st l st1 n d Hs Hl Hh (ls & st' & H1 & H2 & H3 & H4 & H5 & H6). exists (l :: ls), st'.
    split; [simpl; lia|]. split; [simpl; rewrite Hl, H2; reflexivity|]. split; [simpl; rewrite Hs; exact H3|].
    split; [exact H4|]. split; [exact H5|]. rewrite (dial_begins_0 _ _ Hh) in H6. exact H6.
  Qed.

  Lemma Fin_step1 : forall st l st1 e n d d', cstep cfg o st l = Some st1 -> is_seq_label g l = true -> chist st1 = e :: chist st ->
    Fin st1 n d -> ((if is_dial_begin e then 1 else 0) + d <= d')%nat -> Fin st (S n) d'.
  Proof.
    intros st l st1 e n d d' Hs Hl Hh (ls & st' & H1 & H2 & H3 & H4 & H5 & H6) Hd. exists (l :: ls), st'.
    split; [simpl; lia|]. split; [simpl; rewrite Hl, H2; reflexivity|]. split; [simpl; rewrite Hs; exact H3|].
    split; [exact H4|]. split; [exact H5|]. rewrite (dial_begins_1 _ _ _ Hh) in H6. lia.
  Qed.

  (* the state of the cancelled sequence *)
  Definition At (st : cstate) (p : spc) : Prop := exists s, sfind g (seqs st) = Some s /\ sq_cancelled s = true /\ sq_pc s = p.

  Ltac at_next Hf := eexists; split; [apply sfind_supdate; [reflexivity | exact Hf] | split; [assumption || (cbn; assumption) | reflexivity]].
  Ltac unfold_step Hf Hp := unfold cstep, seq_step, goto; rewrite Hf, Hp; cbn [andb].

  Lemma fin_finishing : forall st, At st SFinishing -> Fin st 1 0.
  Proof.
    intros st (s & Hf & Hc & Hp). exists [LFinish g]. eexists. split; [simpl; lia|]. split; [simpl; rewrite Z.eqb_refl; reflexivity|].
    split; [simpl; unfold seq_step; rewrite Hf, Hp; reflexivity|]. cbn [seqs finished ffind]. rewrite Z.eqb_refl. split; [apply sfind_sremove|]. split; [discriminate|].
    rewrite (dial_begins_0 st) by reflexivity. lia.
  Qed.

  Lemma fin_check : forall st e, At st (SCheck e) -> Fin st 2 0.
  Proof.
    intros st e (s & Hf & Hc & Hp). eapply Fin_step0 with (l := LCheck g).
    - unfold_step Hf Hp. rewrite Hc. reflexivity.
    - simpl; apply Z.eqb_refl.
    - reflexivity.
    - apply fin_finishing. at_next Hf.
  Qed.

  Lemma fin_retrystart : forall st, At st SRetryStart -> Fin st 2 0.
  Proof.
    intros st (s & Hf & Hc & Hp). eapply Fin_step0 with (l := LRetryStart g).
    - unfold_step Hf Hp. rewrite Hc. reflexivity.
    - simpl; apply Z.eqb_refl.
    - reflexivity.
    - apply fin_finishing. at_next Hf.
  Qed.

  Lemma fin_backoff : forall st, At st SBackoff -> Fin st 2 0.
  Proof.
    intros st (s & Hf & Hc & Hp). eapply Fin_step0 with (l := LBackoffEnd g).
    - unfold_step Hf Hp. rewrite Hc. reflexivity.
    - simpl; apply Z.eqb_refl.
    - reflexivity.
    - apply fin_finishing. at_next Hf.
  Qed.

  Lemma fin_notify : forall st e, At st (SNotify e) -> Fin st 3 0.
  Proof.
    intros st e (s & Hf & Hc & Hp). eapply (Fin_step1 _ (LNotify g) _ _ _ 0).
    - unfold_step Hf Hp. reflexivity.
    - simpl; apply Z.eqb_refl.
    - reflexivity.
    - apply fin_backoff. at_next Hf.
    - simpl; lia.
  Qed.

  Lemma fin_connected : forall st x, At st (SConnected x) -> Fin st 3 0.
  Proof.
    intros st x (s & Hf & Hc & Hp). eapply (Fin_step1 _ (LPublish g) _ _ _ 0).
    - unfold_step Hf Hp. reflexivity.
    - simpl; apply Z.eqb_refl.
    - reflexivity.
    - eapply fin_check. at_next Hf.
    - simpl; lia.
  Qed.

  Lemma fin_registered : forall st x, At st (SRegistered x) -> Fin st 4 0.
  Proof.
    intros st x (s & Hf & Hc & Hp). eapply (Fin_step1 _ (LOnConnect g) _ _ _ 0).
    - unfold_step Hf Hp. reflexivity.
    - simpl; apply Z.eqb_refl.
    - reflexivity.
    - destruct (match conns st with [] => OOk | a :: _ => a end).
      + eapply fin_connected. at_next Hf.
      + eapply Fin_weaken; [eapply fin_check; at_next Hf | lia | lia].
      + eapply Fin_weaken; [eapply fin_check; at_next Hf | lia | lia].
    - simpl; lia.
  Qed.

  Lemma fin_dialed : forall st x, At st (SDialed x) -> Fin st 5 0.
  Proof.
    intros st x (s & Hf & Hc & Hp). destruct (cc_register_before_onconnect cfg) eqn:Hreg.
    - eapply (Fin_step1 _ (LRegister g) _ _ _ 0).
      + unfold_step Hf Hp. rewrite Hreg. reflexivity.
      + simpl; apply Z.eqb_refl.
      + reflexivity.
      + eapply fin_registered. at_next Hf.
      + simpl; lia.
    - eapply Fin_step0 with (l := LRegister g).
      + unfold_step Hf Hp. rewrite Hreg. reflexivity.
      + simpl; apply Z.eqb_refl.
      + reflexivity.
      + eapply fin_registered. at_next Hf.
  Qed.

  Lemma fin_dialing : forall st, At st SDialing -> Fin st 6 0.
  Proof.
    intros st (s & Hf & Hc & Hp). destruct (match dials st with [] => DOk | a :: _ => a end) eqn:Hd.
    - eapply (Fin_step1 _ (LDialEnd g) _ _ _ 0).
      + unfold_step Hf Hp. rewrite Hd. reflexivity.
      + simpl; apply Z.eqb_refl.
      + reflexivity.
      + eapply fin_dialed. at_next Hf.
      + simpl; lia.
    - eapply (Fin_step1 _ (LDialEnd g) _ _ _ 0).
      + unfold_step Hf Hp. rewrite Hd. reflexivity.
      + simpl; apply Z.eqb_refl.
      + reflexivity.
      + eapply Fin_weaken; [eapply fin_check; at_next Hf | lia | lia].
      + simpl; lia.
    - eapply (Fin_step1 _ (LDialEnd g) _ _ _ 0).
      + unfold_step Hf Hp. rewrite Hd. reflexivity.
      + simpl; apply Z.eqb_refl.
      + reflexivity.
      + eapply Fin_weaken; [eapply fin_check; at_next Hf | lia | lia].
      + simpl; lia.
  Qed.

  Lemma fin_attempt : forall st, At st SAttempt -> Fin st 7 1.
  Proof.
    intros st (s & Hf & Hc & Hp). eapply (Fin_step1 _ (LDialBegin g) _ _ _ 0).
    - unfold_step Hf Hp. reflexivity.
    - simpl; apply Z.eqb_refl.
    - reflexivity.
    - eapply fin_dialing. at_next Hf.
    - simpl; lia.
  Qed.

  Lemma fin_delaywait_idle : forall st, At st SDelayWait -> timer_running st = false -> Fin st 3 0.
  Proof.
    intros st (s & Hf & Hc & Hp) Ht. eapply (Fin_step1 _ (LDelayDone g) _ _ _ 0).
    - unfold_step Hf Hp. rewrite Ht. reflexivity.
    - simpl; apply Z.eqb_refl.
    - reflexivity.
    - eapply fin_retrystart. at_next Hf.
    - simpl; lia.
  Qed.

  Lemma fin_delaywait : forall st, At st SDelayWait -> Fin st 4 0.
  Proof.
    intros st Hat. destruct (timer_running st) eqn:Ht.
    - eapply (Fin_step1 _ LTimerElapse _ _ _ 0).
      + unfold cstep. rewrite Ht. reflexivity.
      + reflexivity.
      + reflexivity.
      + apply fin_delaywait_idle; [|reflexivity]. exact Hat.
      + simpl; lia.
    - eapply Fin_weaken; [apply fin_delaywait_idle; assumption | lia | lia].
  Qed.

  Lemma fin_delaystart : forall st, At st SDelayStart -> Fin st 5 0.
  Proof.
    intros st (s & Hf & Hc & Hp). eapply (Fin_step1 _ (LTimerStart g) _ _ _ 0).
    - unfold_step Hf Hp. reflexivity.
    - simpl; apply Z.eqb_refl.
    - destruct (firenow_pending st); reflexivity.
    - eapply fin_delaywait. destruct (firenow_pending st); at_next Hf.
    - simpl; lia.
  Qed.

  Lemma fin_announce : forall st, At st SAnnounce -> Fin st 6 0.
  Proof.
    intros st (s & Hf & Hc & Hp). eapply (Fin_step1 _ (LAnnounce g) _ _ _ 0).
    - unfold_step Hf Hp. reflexivity.
    - simpl; apply Z.eqb_refl.
    - reflexivity.
    - destruct (wants_delay o (sq_status s)).
      + eapply fin_delaystart. at_next Hf.
      + eapply Fin_weaken; [eapply fin_retrystart; at_next Hf | lia | lia].
    - simpl; lia.
  Qed.

  Lemma fin_any : forall st s, sfind g (seqs st) = Some s -> sq_cancelled s = true -> Fin st 12 1.
  Proof.
    intros st s Hf Hc. assert (Hat : At st (sq_pc s)) by (exists s; auto).
    destruct (sq_pc s) eqn:Hp.
    - eapply Fin_weaken; [apply fin_announce; exact Hat | lia | lia].
    - eapply Fin_weaken; [apply fin_delaystart; exact Hat | lia | lia].
    - eapply Fin_weaken; [apply fin_delaywait; exact Hat | lia | lia].
    - eapply Fin_weaken; [apply fin_retrystart; exact Hat | lia | lia].
    - eapply Fin_weaken; [apply fin_attempt; exact Hat | lia | lia].
    - eapply Fin_weaken; [apply fin_dialing; exact Hat | lia | lia].
    - eapply Fin_weaken; [eapply fin_dialed; exact Hat | lia | lia].
    - eapply Fin_weaken; [eapply fin_registered; exact Hat | lia | lia].
    - eapply Fin_weaken; [eapply fin_connected; exact Hat | lia | lia].
    - eapply Fin_weaken; [eapply fin_check; exact Hat | lia | lia].
    - eapply Fin_weaken; [eapply fin_notify; exact Hat | lia | lia].
    - eapply Fin_weaken; [apply fin_backoff; exact Hat | lia | lia].
    - eapply Fin_weaken; [apply fin_finishing; exact Hat | lia | lia].
  Qed.
End Shutdown.

(* none of the hypotheses on cfg, cm or reachability is needed: it holds in every state *)
Theorem conn_shutdown_terminates : forall cfg o eager ds cs cm st g s,
  cc_spawn_guarded cfg = true -> cmds_fresh cm = true -> reachable cfg o eager ds cs cm st ->
  sfind g (seqs st) = Some s -> sq_cancelled s = true ->
  exists ls st', (length ls <= 12)%nat /\ forallb (is_seq_label g) ls = true /\
                 run (cstep cfg o) st ls = Some st' /\ sfind g (seqs st') = None /\ ffind g (finished st') <> None /\
                 (dial_begins (ctrace st') <= dial_begins (ctrace st) + 1)%nat.
Proof. intros cfg o eager ds cs cm st g s _ _ _ Hf Hc. exact (fin_any cfg o g st s Hf Hc). Qed.


(* ====================================================================== *)
(* C15: commands and waiters                                              *)
(* ====================================================================== *)
Lemma cfindc_id : forall c l x, cfindc c l = Some x -> cm_id x = c.
Proof.
  induction l as [|a l IH]; simpl; intros x H; [discriminate|].
  destruct (cm_id a =? c) eqn:E; [injection H as <-; lia | auto].
Qed.

Lemma cfindc_cupdate : forall c f l c', (forall x, cm_id (f x) = cm_id x) ->
  cfindc c' (cupdate c f l) = if c' =? c then option_map f (cfindc c l) else cfindc c' l.
Proof.
  intros c f l c' Hf. induction l as [|a l IH]; simpl; [destruct (c' =? c); reflexivity|].
  destruct (cm_id a =? c) eqn:E; simpl.
  - rewrite Hf. destruct (c' =? c) eqn:E'.
    + assert (c' = c) by lia; subst c'. rewrite E. reflexivity.
    + destruct (cm_id a =? c') eqn:E''; [lia | reflexivity].
  - destruct (cm_id a =? c') eqn:E''.
    + destruct (c' =? c) eqn:E'; [lia | reflexivity].
    + exact IH.
Qed.

Lemma kfind_id : forall c l k, kfind c l = Some k -> k_id k = c.
Proof.
  induction l as [|a l IH]; simpl; intros k H; [discriminate|].
  destruct (k_id a =? c) eqn:E; [injection H as <-; lia | auto].
Qed.

Lemma kfind_kupdate : forall c f l c', (forall k, k_id (f k) = k_id k) ->
  kfind c' (kupdate c f l) = if c' =? c then option_map f (kfind c l) else kfind c' l.
Proof.
  intros c f l c' Hf. induction l as [|a l IH]; simpl; [destruct (c' =? c); reflexivity|].
  destruct (k_id a =? c) eqn:E; simpl.
  - rewrite Hf. destruct (c' =? c) eqn:E'.
    + assert (c' = c) by lia; subst c'. rewrite E. reflexivity.
    + destruct (k_id a =? c') eqn:E''; [lia | reflexivity].
  - destruct (k_id a =? c') eqn:E''.
    + destruct (c' =? c) eqn:E'; [lia | reflexivity].
    + exact IH.
Qed.

Lemma zmemb_zrem_self : forall x l, zmemb x (zrem x l) = false.
Proof.
  intros x l; induction l as [|a l IH]; simpl; [reflexivity|].
  destruct (a =? x) eqn:E; simpl; [exact IH|]. rewrite IH. destruct (x =? a) eqn:E'; [lia|reflexivity].
Qed.

Lemma zmemb_zrem : forall x y l, zmemb x (zrem y l) = true -> zmemb x l = true.
Proof.
  intros x y l; induction l as [|a l IH]; simpl; [auto|].
  destruct (a =? y) eqn:E; simpl; intros H.
  - rewrite (IH H). apply orb_true_r.
  - destruct (x =? a); [reflexivity | auto].
Qed.

Lemma zmemb_orem : forall x o l, zmemb x (orem o l) = true -> zmemb x l = true.
Proof. intros x [y|] l; simpl; [apply zmemb_zrem | auto]. Qed.

(* transports: identifiers are fresh *)
Definition XpOK (st : cstate) : Prop :=
  (forall x, cur st = Some x -> x < next_xp st) /\ (forall x, staged st = Some x -> x < next_xp st).

Lemma XpOK_frame : forall st st', cur st' = cur st -> staged st' = staged st -> next_xp st' = next_xp st -> XpOK st -> XpOK st'.
Proof. unfold XpOK; intros st st' -> -> ->; auto. Qed.

Lemma XpOK_init : forall o eager ds cs cm, XpOK (start_state o eager ds cs cm).
Proof. intros o eager ds cs cm; destruct eager; split; simpl; discriminate. Qed.

Lemma XpOK_step : forall cfg o st l st', XpOK st -> cstep cfg o st l = Some st' -> XpOK st'.
Proof.
  intros cfg o st l st' HI H. step_leaves H.
  all: try (apply (XpOK_frame st); [ | | | exact HI]; cbn; split_ifs; reflexivity).
  - (* LDialEnd DOk *) destruct HI as [H1 H2]. split; cbn; intros x Hx; [apply H1 in Hx; lia | injection Hx as <-; lia].
  - (* LPublish *) destruct HI as [H1 H2]. split; cbn; intros y Hy; [apply H2 in Hy; lia | discriminate].
Qed.

Definition published_b (s : seqg) : bool :=
  match sq_pc s with SCheck ENone => true | SFinishing => cerr_eqb (sq_err s) ENone | _ => false end.
Definition fataled_b (s : seqg) : bool :=
  match sq_pc s with SCheck EConnFatal => true | SFinishing => cerr_eqb (sq_err s) EConnFatal | _ => false end.
Definition haspub (st : cstate) : bool := existsb published_b (seqs st).
Definition hasfatal (st : cstate) : bool := existsb fataled_b (seqs st).

Definition waitish_b (o : option cmd_out) : bool := match o with None | Some XEof | Some XEofDisc => true | _ => false end.
Definition is_ret (p : cpc) : bool := match p with CRet _ => true | _ => false end.
Definition is_notifying (p : cpc) : bool := match p with CNotifying => true | _ => false end.

Definition pneed (pub : bool) (fin : list (Z * cerr)) (p : cpc) : Prop :=
  match p with
  | CReady | CNotifying => False
  | CWait g => pub = false /\ ffind g fin <> Some ENone
  | _ => True
  end.

Definition CmdK (wf wt : Z) (pub fat conn : bool) (fin : list (Z * cerr)) (x : cmd) (k : cmdmon) : Prop :=
  k_execs k = cm_k x /\ k_cancelled k = cm_ctx x /\ k_force k = cm_force x /\
  k_returned k = is_ret (cm_pc x) /\ k_notify_due k = is_notifying (cm_pc x) /\
  match cm_pc x with
  | CNew | CLock | CWait _ | CReady => waitish_b (k_last k) = true
  | CNotifying => k_need_fin k = None
  | CRet _ => True
  end /\
  (cm_force x = true -> match cm_pc x with CReady | CNotifying => False | _ => True end) /\
  (k_start_fin k <= wf /\ (k_start_fin k = wf -> pub = false) /\
   (forall g, cm_pc x = CWait g -> ffind g fin = Some ENone -> k_start_fin k < wf)) /\
  (k_start_fatal k <= wt /\ (k_start_fatal k = wt -> fat = false) /\
   (forall g, cm_pc x = CWait g -> ffind g fin = Some EConnFatal -> k_start_fatal k < wt)) /\
  (forall f, k_need_fin k = Some f -> f <= wf /\ (f = wf -> conn = false /\ pneed pub fin (cm_pc x))).

Definition CmdRel (m : waitmon) (st : cstate) (x : cmd) : Prop :=
  match kfind (cm_id x) (w_cmds m) with
  | None => cm_started x = false /\ cm_pc x = CNew /\ cm_k x = 0 /\ cm_ctx x = zmemb (cm_id x) (w_precancel m)
  | Some k => cm_started x = true /\
              CmdK (w_fin m) (w_fatal m) (haspub st) (hasfatal st) (transport_connected st) (finished st) x k
  end.

Definition ErrOK (shut : bool) (s : seqg) : Prop :=
  match sq_pc s with
  | SFinishing => sq_err s = ENone \/ sq_err s = EConnFatal \/ (sq_err s = ECanceled /\ shut = true)
  | _ => sq_err s = ENone
  end.

Definition GlobOK (m : waitmon) (st : cstate) : Prop :=
  (0 <= w_fin m /\ (client st <> None -> 1 <= w_fin m)) /\
  (haspub st = true -> w_open_fin m = true) /\
  (hasfatal st = true -> w_open_fatal m = true) /\
  (forall s, In s (seqs st) -> ErrOK (w_shut m) s /\ (sq_cancelled s = true -> w_shut m = true)) /\
  (forall g e, ffind g (finished st) = Some e -> e = ENone \/ e = EConnFatal \/ (e = ECanceled /\ w_shut m = true)).

Definition R3 (m : waitmon) (st : cstate) : Prop :=
  GlobOK m st /\ forall c x, cfindc c (cmds st) = Some x -> CmdRel m st x.

(* the frame: a command not involved in the step *)
Lemma CmdK_frame : forall wf wt pub fat conn fin wf' wt' pub' fat' conn' fin' x k,
  wf <= wf' -> (wf' = wf -> pub' = true -> pub = true) -> (wf' = wf -> conn' = true -> conn = true) ->
  wt <= wt' -> (wt' = wt -> fat' = true -> fat = true) ->
  (forall g, ffind g fin' = Some ENone -> ffind g fin = Some ENone \/ pub = true) ->
  (forall g, ffind g fin' = Some EConnFatal -> ffind g fin = Some EConnFatal \/ fat = true) ->
  CmdK wf wt pub fat conn fin x k -> CmdK wf' wt' pub' fat' conn' fin' x k.
Proof.
  intros wf wt pub fat conn fin wf' wt' pub' fat' conn' fin' x k Hwf Hpub Hconn Hwt Hfat Hfin1 Hfin2.
  intros (A & B & C & D & E & F & G & (H1 & H2 & H3) & (I1 & I2 & I3) & J).
  unfold CmdK. repeat match goal with |- _ /\ _ => split end; try assumption.
  - clear - H1 Hwf. lia.
  - intros Heq. assert (Hw : wf' = wf) by (clear - Heq H1 Hwf; lia). destruct pub' eqn:P; [|reflexivity].
    rewrite (Hpub Hw eq_refl) in H2. assert (Hk : k_start_fin k = wf) by (clear - Heq Hw; lia). discriminate (H2 Hk).
  - intros g Hp Hf. destruct (Hfin1 _ Hf) as [Hf'|Hp'].
    + specialize (H3 _ Hp Hf'). clear - H3 Hwf. lia.
    + destruct (Z.eq_dec (k_start_fin k) wf) as [Heq|Hne]; [|clear - Hne H1 Hwf; lia]. rewrite (H2 Heq) in Hp'. discriminate.
  - clear - I1 Hwt. lia.
  - intros Heq. assert (Hw : wt' = wt) by (clear - Heq I1 Hwt; lia). destruct fat' eqn:P; [|reflexivity].
    rewrite (Hfat Hw eq_refl) in I2. assert (Hk : k_start_fatal k = wt) by (clear - Heq Hw; lia). discriminate (I2 Hk).
  - intros g Hp Hf. destruct (Hfin2 _ Hf) as [Hf'|Hp'].
    + specialize (I3 _ Hp Hf'). clear - I3 Hwt. lia.
    + destruct (Z.eq_dec (k_start_fatal k) wt) as [Heq|Hne]; [|clear - Hne I1 Hwt; lia]. rewrite (I2 Heq) in Hp'. discriminate.
  - intros f Hf. destruct (J _ Hf) as [J1 J2]. split; [clear - J1 Hwf; lia|]. intros Heq.
    assert (Hw : wf' = wf) by (clear - Heq J1 Hwf; lia). assert (Hfw : f = wf) by (clear - Heq Hw; lia).
    destruct (J2 Hfw) as [J3 J4]. split.
    + destruct conn' eqn:P; [|reflexivity]. rewrite (Hconn Hw eq_refl) in J3. discriminate.
    + unfold pneed in *. destruct (cm_pc x); auto. destruct J4 as [J5 J6]. split.
      * destruct pub' eqn:P; [|reflexivity]. rewrite (Hpub Hw eq_refl) in J5. discriminate.
      * intros Hf'. destruct (Hfin1 _ Hf') as [Hf''|Hp']; [auto | congruence].
Qed.


Definition wait_relevant (e : cev) : bool :=
  match e with
  | EvFinalize _ | EvDialEnd DFatal _ | EvOnConnect OFatal | EvDisc _ | EvShutdown | EvCmdStart _ _ _ | EvCancel _
  | EvWaiting _ _ false | EvExec _ _ _ | EvCmdErr _ | EvCmdRet _ _ => true
  | _ => false
  end.

Lemma waitmon_irr : forall m e, wait_relevant e = false -> waitmon_step m e = Some m.
Proof.
  intros m e H. destruct e as [| | | | |d ?| |c| | | | |? ? b| | | | | | |]; try discriminate H; try reflexivity.
  - destruct d; try discriminate H; reflexivity.
  - destruct c; try discriminate H; reflexivity.
  - destruct b; try discriminate H; reflexivity.
Qed.

(* steps that leave the commands alone *)
Lemma R3_frame : forall m st m' st',
  cmds st' = cmds st -> w_cmds m' = w_cmds m -> w_precancel m' = w_precancel m ->
  GlobOK m' st' ->
  w_fin m <= w_fin m' -> (w_fin m' = w_fin m -> haspub st' = true -> haspub st = true) ->
  (w_fin m' = w_fin m -> transport_connected st' = true -> transport_connected st = true) ->
  w_fatal m <= w_fatal m' -> (w_fatal m' = w_fatal m -> hasfatal st' = true -> hasfatal st = true) ->
  (forall g, ffind g (finished st') = Some ENone -> ffind g (finished st) = Some ENone \/ haspub st = true) ->
  (forall g, ffind g (finished st') = Some EConnFatal -> ffind g (finished st) = Some EConnFatal \/ hasfatal st = true) ->
  R3 m st -> R3 m' st'.
Proof.
  intros m st m' st' Hc Hk Hp HG H1 H2 H3 H4 H5 H6 H7 [_ HR]. split; [exact HG|].
  intros c x Hx. rewrite Hc in Hx. specialize (HR c x Hx). unfold CmdRel in *. rewrite Hk, Hp.
  destruct (kfind (cm_id x) (w_cmds m)); [|exact HR]. destruct HR as [Hs HK]. split; [exact Hs|].
  eapply CmdK_frame; eauto.
Qed.

Definition Inv3 (st : cstate) : Prop :=
  Single st /\ GenOK st /\ XpOK st /\ exists m, run waitmon_step waitmon0 (ctrace st) = Some m /\ R3 m st.

Lemma tc_dial_ok : forall st x, XpOK st ->
  (match cur st with Some c => zmemb c (next_xp st :: orem x (live st)) | None => false end) = true -> transport_connected st = true.
Proof.
  intros st x [HX _] H. unfold transport_connected. destruct (cur st) as [c|]; [|discriminate]. specialize (HX c eq_refl).
  simpl in H. destruct (c =? next_xp st) eqn:E; [clear - HX E; lia|]. simpl in H. eapply zmemb_orem; eauto.
Qed.

Ltac wm_simpl := cbn [w_fin w_fatal w_shut w_open_fin w_open_fatal w_cmds w_precancel wm_cmds].
Ltac wm_simpl_in H := cbn [w_fin w_fatal w_shut w_open_fin w_open_fatal w_cmds w_precancel wm_cmds] in H.

Lemma haspub_single : forall st s, seqs st = [s] -> haspub st = published_b s.
Proof. intros st s H; unfold haspub; rewrite H; simpl; apply orb_false_r. Qed.
Lemma hasfatal_single : forall st s, seqs st = [s] -> hasfatal st = fataled_b s.
Proof. intros st s H; unfold hasfatal; rewrite H; simpl; apply orb_false_r. Qed.
Lemma haspub_nil : forall st, seqs st = [] -> haspub st = false.
Proof. intros st H; unfold haspub; rewrite H; reflexivity. Qed.
Lemma hasfatal_nil : forall st, seqs st = [] -> hasfatal st = false.
Proof. intros st H; unfold hasfatal; rewrite H; reflexivity. Qed.

Lemma GlobOK_single : forall m st s, GlobOK m st -> seqs st = [s] ->
  (0 <= w_fin m /\ (client st <> None -> 1 <= w_fin m)) /\ (published_b s = true -> w_open_fin m = true) /\
  (fataled_b s = true -> w_open_fatal m = true) /\ ErrOK (w_shut m) s /\ (sq_cancelled s = true -> w_shut m = true) /\
  (forall g e, ffind g (finished st) = Some e -> e = ENone \/ e = EConnFatal \/ (e = ECanceled /\ w_shut m = true)).
Proof.
  intros m st s (G1 & G2 & G3 & G4 & G5) Hs. rewrite (haspub_single _ _ Hs) in G2. rewrite (hasfatal_single _ _ Hs) in G3.
  rewrite Hs in G4. destruct (G4 s (or_introl eq_refl)) as [G4a G4b]. auto 10.
Qed.

Lemma GlobOK_intro_single : forall m st s, seqs st = [s] ->
  (0 <= w_fin m /\ (client st <> None -> 1 <= w_fin m)) -> (published_b s = true -> w_open_fin m = true) ->
  (fataled_b s = true -> w_open_fatal m = true) -> ErrOK (w_shut m) s -> (sq_cancelled s = true -> w_shut m = true) ->
  (forall g e, ffind g (finished st) = Some e -> e = ENone \/ e = EConnFatal \/ (e = ECanceled /\ w_shut m = true)) ->
  GlobOK m st.
Proof.
  intros m st s Hs G1 G2 G3 G4 G5 G6. unfold GlobOK. rewrite (haspub_single _ _ Hs), (hasfatal_single _ _ Hs), Hs.
  split; [exact G1|]. split; [exact G2|]. split; [exact G3|]. split; [|exact G6].
  intros s' [<-|[]]. split; assumption.
Qed.

Lemma GlobOK_intro_nil : forall m st, seqs st = [] ->
  (0 <= w_fin m /\ (client st <> None -> 1 <= w_fin m)) ->
  (forall g e, ffind g (finished st) = Some e -> e = ENone \/ e = EConnFatal \/ (e = ECanceled /\ w_shut m = true)) ->
  GlobOK m st.
Proof.
  intros m st Hs G1 G6. unfold GlobOK. rewrite (haspub_nil _ Hs), (hasfatal_nil _ Hs), Hs.
  split; [exact G1|]. split; [discriminate|]. split; [discriminate|]. split; [|exact G6]. intros s' [].
Qed.

Lemma GlobOK_frame_st : forall m st st', client st' = client st -> seqs st' = seqs st -> finished st' = finished st ->
  GlobOK m st -> GlobOK m st'.
Proof. unfold GlobOK, haspub, hasfatal; intros m st st' -> -> ->; auto. Qed.

Lemma tc_shrink : forall st lv, (forall x, zmemb x lv = true -> zmemb x (live st) = true) ->
  (match cur st with Some x => zmemb x lv | None => false end) = true -> transport_connected st = true.
Proof. intros st lv H; unfold transport_connected; destruct (cur st); auto. Qed.

Lemma published_cancel : forall s, published_b (sq_cancel s) = published_b s.
Proof. reflexivity. Qed.
Lemma fataled_cancel : forall s, fataled_b (sq_cancel s) = fataled_b s.
Proof. reflexivity. Qed.

Lemma ErrOK_shut : forall b s, ErrOK b s -> ErrOK true (sq_cancel s).
Proof. unfold ErrOK; intros b s; cbn [sq_cancel sq_pc sq_err]. destruct (sq_pc s); auto. intros [H|[H|[H _]]]; auto. Qed.

Definition is_cmd_label (l : clabel) : bool :=
  match l with LFire _ | LBegin _ | LWake _ | LCtxRet _ | LExec _ | LCmdNotify _ | LCtxEnd _ => true | _ => false end.

Ltac pubfat_simpl := unfold published_b, fataled_b, ErrOK; sq_simpl; try rewrite_pc; cbn [cerr_eqb].
Ltac seq_leaf3 HM HR Hs HX m st s :=
  let G1 := fresh "G1" in let G2 := fresh "G2" in let G3 := fresh "G3" in let G4 := fresh "G4" in let G5 := fresh "G5" in
  let G6 := fresh "G6" in
  destruct (GlobOK_single _ _ _ (proj1 HR) Hs) as (G1 & G2 & G3 & G4 & G5 & G6);
  unfold published_b in G2; unfold fataled_b in G3; unfold ErrOK in G4; try rewrite_pc' G2; try rewrite_pc' G3; try rewrite_pc' G4;
  cbn [cerr_eqb] in G2, G3;
  eexists; split;
  [ first [ eapply mon_ext_0; [exact HM | reflexivity | reflexivity] | eapply mon_ext_1; [exact HM | reflexivity | reflexivity] ]
  | apply (R3_frame m st);
    [ reflexivity | reflexivity | reflexivity
    | eapply GlobOK_intro_single; [proj_simpl; rewrite Hs, supdate_self; reflexivity | proj_simpl; wm_simpl; pubfat_simpl ..]
    | wm_simpl; clear; lia
    | wm_simpl; rewrite (haspub_single st s Hs); erewrite haspub_single by (proj_simpl; rewrite Hs, supdate_self; reflexivity); pubfat_simpl
    | wm_simpl; unfold transport_connected; proj_simpl
    | wm_simpl; clear; lia
    | wm_simpl; rewrite (hasfatal_single st s Hs); erewrite hasfatal_single by (proj_simpl; rewrite Hs, supdate_self; reflexivity); pubfat_simpl
    | proj_simpl; intros; left; assumption
    | proj_simpl; intros; left; assumption
    | exact HR ] ];
  auto; try congruence;
  try (intros Hw; exfalso; clear - Hw; lia);
  try (destruct G1 as [G1a G1b]; split; [clear - G1a; lia | intros Hc; try (apply G1b in Hc); clear - G1a Hc; lia]).

Lemma R3_seq_step : forall cfg o st l st' m, cc_spawn_guarded cfg = true ->
  Single st -> GenOK st -> XpOK st -> run waitmon_step waitmon0 (ctrace st) = Some m -> R3 m st ->
  is_cmd_label l = false -> cstep cfg o st l = Some st' ->
  exists m', run waitmon_step waitmon0 (ctrace st') = Some m' /\ R3 m' st'.
Proof.
  intros cfg o st l st' m Hg HS HGen HX HM HR Hl H.
  step_leaves_t ltac:(fun H => try rewrite Hg in H) H; try discriminate Hl; clear Hl.
  all: try (destruct (Single_sfind _ _ _ HS E) as (Hs & Hr & Hgen); subst g).
  all: norm_pc.
  all: try solve [seq_leaf3 HM HR Hs HX m st s].
  - (* LAnnounce *) destruct (wants_delay o (sq_status s)); seq_leaf3 HM HR Hs HX m st s.
  - (* LTimerStart *) destruct (firenow_pending st); seq_leaf3 HM HR Hs HX m st s.
  - (* LDialEnd DOk *) seq_leaf3 HM HR Hs HX m st s. intros _ Htc. eapply tc_dial_ok; eauto.
  - (* LOnConnect *) destruct (match conns st with [] => OOk | a :: _ => a end); seq_leaf3 HM HR Hs HX m st s.
  - (* LCheck ENone *)
    seq_leaf3 HM HR Hs HX m st s.
    all: match goal with Hq : sq_err _ = ENone |- _ => rewrite Hq end; cbn; intros; discriminate.
  - (* LFinish *)
    destruct (GlobOK_single _ _ _ (proj1 HR) Hs) as (G1 & G2 & G3 & G4 & G5 & G6). unfold ErrOK in G4. rewrite Heqs0 in G4.
    exists m. split; [eapply mon_ext_0; [exact HM | reflexivity | reflexivity]|].
    assert (Hnil : seqs (mkCn (sremove (sq_gen s) (seqs st)) None ((sq_gen s, sq_err s) :: finished st) (next_gen st) (reconnected_before st)
                          (client st) (cur st) (staged st) (live st) (next_xp st) (dials st) (conns st) (cmds st) (timer_running st)
                          false (chist st)) = []) by (proj_simpl; rewrite Hs, sremove_self; reflexivity).
    apply (R3_frame m st); [reflexivity | reflexivity | reflexivity | | | | | | | | | exact HR].
    + apply GlobOK_intro_nil; [exact Hnil | exact G1 |]. proj_simpl. intros g e. cbn [ffind].
      destruct (sq_gen s =? g); [intros He; injection He as <-; exact G4 | apply G6].
    + clear; lia.
    + intros _. rewrite (haspub_nil _ Hnil). discriminate.
    + auto.
    + clear; lia.
    + intros _. rewrite (hasfatal_nil _ Hnil). discriminate.
    + proj_simpl. intros g. cbn [ffind]. destruct (sq_gen s =? g); [|auto]. intros He; injection He as He. right.
      rewrite (haspub_single _ _ Hs). unfold published_b. rewrite Heqs0, He. reflexivity.
    + proj_simpl. intros g. cbn [ffind]. destruct (sq_gen s =? g); [|auto]. intros He; injection He as He. right.
      rewrite (hasfatal_single _ _ Hs). unfold fataled_b. rewrite Heqs0, He. reflexivity.
  - (* LDisconnect *)
    exists m. split; [eapply mon_ext_1; [exact HM | reflexivity | reflexivity]|].
    apply (R3_frame m st); [reflexivity | reflexivity | reflexivity | | | | | | | | | exact HR]; auto; try (clear; lia).
    + apply (GlobOK_frame_st m st); [reflexivity..|exact (proj1 HR)].
  - (* LTimerElapse *)
    exists m. split; [eapply mon_ext_1; [exact HM | reflexivity | reflexivity]|].
    apply (R3_frame m st); [reflexivity | reflexivity | reflexivity | | | | | | | | | exact HR]; auto; try (clear; lia).
    apply (GlobOK_frame_st m st); [reflexivity..|exact (proj1 HR)].
  - (* LFastForward *)
    exists m. split; [eapply mon_ext_1; [exact HM | reflexivity | reflexivity]|].
    apply (R3_frame m st); [reflexivity | reflexivity | reflexivity | | | | | | | | | exact HR]; auto; try (clear; lia).
    apply (GlobOK_frame_st m st); [reflexivity..|exact (proj1 HR)].
  - (* LShutdown *)
    eexists. split; [eapply mon_ext_1; [exact HM | reflexivity | reflexivity]|].
    destruct (registered st) as [g|] eqn:Hr.
    + destruct (Single_some _ _ HS Hr) as (s & Hs & Hgen). subst g.
      destruct (GlobOK_single _ _ _ (proj1 HR) Hs) as (G1 & G2 & G3 & G4 & G5 & G6).
      match goal with |- R3 ?m' ?st' => assert (Hs' : seqs st' = [sq_cancel s]) by (proj_simpl; rewrite Hs, supdate_self; reflexivity) end.
      apply (R3_frame m st); [reflexivity | reflexivity | reflexivity | | | | | | | | | exact HR]; wm_simpl; auto; try (clear; lia).
      * eapply GlobOK_intro_single; [exact Hs' | wm_simpl; proj_simpl ..]; auto.
        -- eapply ErrOK_shut; eauto.
        -- intros g e He. destruct (G6 _ _ He) as [H|[H|[H _]]]; auto.
      * intros _. match goal with |- haspub ?st' = true -> _ => rewrite (haspub_single st' _ Hs') end. rewrite (haspub_single _ _ Hs). auto.
      * intros _. unfold transport_connected at 1. proj_simpl. apply tc_shrink. intros x Hx. destruct (transport_connected st); [|exact Hx]. eapply zmemb_orem, zmemb_orem, Hx.
      * intros _. match goal with |- hasfatal ?st' = true -> _ => rewrite (hasfatal_single st' _ Hs') end. rewrite (hasfatal_single _ _ Hs). auto.
    + pose proof (Single_none _ HS Hr) as Hs. destruct HR as [HG HC]. pose proof HG as ((G1a & G1b) & _ & _ & _ & G6).
      apply (R3_frame m st); [reflexivity | reflexivity | reflexivity | | | | | | | | | split; assumption]; wm_simpl; auto; try (clear; lia).
      * apply GlobOK_intro_nil; [exact Hs | wm_simpl; proj_simpl; auto |]. wm_simpl; proj_simpl.
        intros g e He. destruct (G6 _ _ He) as [H|[H|[H _]]]; auto.
      * intros _. unfold transport_connected at 1. proj_simpl. apply tc_shrink. intros x Hx. destruct (transport_connected st); [|exact Hx]. eapply zmemb_orem, zmemb_orem, Hx.
Qed.

(* ---------- command steps ---------- *)
Definition OtherSame (c : Z) (m m' : waitmon) : Prop :=
  w_fin m' = w_fin m /\ w_fatal m' = w_fatal m /\ w_shut m' = w_shut m /\ w_open_fin m' = w_open_fin m /\
  w_open_fatal m' = w_open_fatal m /\
  (forall c', c' <> c -> kfind c' (w_cmds m') = kfind c' (w_cmds m) /\ zmemb c' (w_precancel m') = zmemb c' (w_precancel m)).

Lemma OtherSame_refl : forall c m, OtherSame c m m.
Proof. intros c m; unfold OtherSame; auto 10. Qed.

Lemma OtherSame_upd : forall c m fk, (forall k, k_id (fk k) = k_id k) -> OtherSame c m (wm_cmds m (kupdate c fk (w_cmds m))).
Proof.
  intros c m fk Hf; unfold OtherSame; wm_simpl. repeat split; auto.
  rewrite kfind_kupdate by exact Hf. destruct (c' =? c) eqn:E; [lia | reflexivity].
Qed.

Lemma kfind_upd_self : forall c m fk, (forall k, k_id (fk k) = k_id k) ->
  kfind c (w_cmds (wm_cmds m (kupdate c fk (w_cmds m)))) = option_map fk (kfind c (w_cmds m)).
Proof. intros c m fk Hf; wm_simpl. rewrite kfind_kupdate by exact Hf. rewrite Z.eqb_refl. reflexivity. Qed.

Lemma OtherSame_trans : forall c m1 m2 m3, OtherSame c m1 m2 -> OtherSame c m2 m3 -> OtherSame c m1 m3.
Proof.
  unfold OtherSame; intros c m1 m2 m3 (A1 & A2 & A3 & A4 & A5 & A6) (B1 & B2 & B3 & B4 & B5 & B6).
  repeat split; try congruence; destruct (A6 _ H), (B6 _ H); congruence.
Qed.

Lemma GlobOK_same : forall m m' st st', w_fin m' = w_fin m -> w_shut m' = w_shut m -> w_open_fin m' = w_open_fin m ->
  w_open_fatal m' = w_open_fatal m -> client st' = client st -> seqs st' = seqs st -> finished st' = finished st ->
  GlobOK m st -> GlobOK m' st'.
Proof. unfold GlobOK, haspub, hasfatal; intros m m' st st' -> -> -> -> -> -> ->; auto. Qed.

Lemma GlobOK_other : forall c m m' st st', OtherSame c m m' -> client st' = client st -> seqs st' = seqs st -> finished st' = finished st ->
  GlobOK m st -> GlobOK m' st'.
Proof. intros c m m' st st' (A1 & A2 & A3 & A4 & A5 & A6); apply GlobOK_same; assumption. Qed.

Lemma R3_cmd_step : forall m st m' st' c f x,
  R3 m st -> cfindc c (cmds st) = Some x -> cmds st' = cupdate c f (cmds st) ->
  (forall y, cm_id (f y) = cm_id y) ->
  OtherSame c m m' ->
  GlobOK m' st' ->
  (haspub st' = true -> haspub st = true) -> (hasfatal st' = true -> hasfatal st = true) ->
  (transport_connected st' = true -> transport_connected st = true) -> finished st' = finished st ->
  CmdRel m' st' (f x) ->
  R3 m' st'.
Proof.
  intros m st m' st' c f x [_ HR] Hx Hc Hf (A1 & A2 & A3 & A4 & A5 & A6) HG Hp Hfa Htc Hfin Hnew. split; [exact HG|].
  intros c' x' Hx'. rewrite Hc, cfindc_cupdate in Hx' by exact Hf. destruct (c' =? c) eqn:E.
  - rewrite Hx in Hx'. simpl in Hx'. injection Hx' as <-. exact Hnew.
  - specialize (HR _ _ Hx'). pose proof (cfindc_id _ _ _ Hx') as Hid. unfold CmdRel in *. rewrite Hid in *.
    assert (Hne : c' <> c) by (clear - E; lia). destruct (A6 _ Hne) as [-> ->].
    destruct (kfind c' (w_cmds m)); [|exact HR]. destruct HR as [Hs HK]. split; [exact Hs|]. rewrite A1, A2, Hfin.
    eapply CmdK_frame; [..|exact HK]; auto; try (clear; lia).
Qed.

(* the monitor's updates, named *)
Definition kf_ret (k : cmdmon) : cmdmon :=
  mkCM (k_id k) (k_force k) (k_execs k) (k_last k) (k_need_fin k) false (k_cancelled k) (k_start_fin k) (k_start_fatal k) true.
Definition kf_cancel (k : cmdmon) : cmdmon :=
  mkCM (k_id k) (k_force k) (k_execs k) (k_last k) (k_need_fin k) (k_notify_due k) true (k_start_fin k) (k_start_fatal k) (k_returned k).
Definition kf_err (k : cmdmon) : cmdmon :=
  mkCM (k_id k) (k_force k) (k_execs k) None (k_need_fin k) false (k_cancelled k) (k_start_fin k) (k_start_fatal k) (k_returned k).
Definition kf_join (k : cmdmon) : cmdmon :=
  mkCM (k_id k) (k_force k) (k_execs k) (k_last k) None (k_notify_due k) (k_cancelled k) (k_start_fin k) (k_start_fatal k) (k_returned k).
Definition kf_exec (m : waitmon) (o : cmd_out) (k : cmdmon) : cmdmon :=
  mkCM (k_id k) false (k_execs k + 1) (Some o) (match o with XEofDisc => Some (w_fin m) | _ => None end)
       (match o with XRetriable => true | _ => false end) (k_cancelled k) (k_start_fin k) (base_fatal m) false.

Lemma wm_ret : forall m c e k, kfind c (w_cmds m) = Some k -> k_returned k = false -> k_notify_due k = false ->
  ret_matches m k e = true -> waitmon_step m (EvCmdRet c e) = Some (wm_cmds m (kupdate c kf_ret (w_cmds m))).
Proof. intros m c e k H1 H2 H3 H4. unfold waitmon_step. rewrite H1, H2, H3, H4. reflexivity. Qed.

Lemma wm_exec : forall m c n o k, kfind c (w_cmds m) = Some k -> k_returned k = false -> k_force k = false ->
  k_notify_due k = false -> n = k_execs k -> 1 <= w_fin m -> waitish_b (k_last k) = true ->
  (forall f, k_need_fin k = Some f -> f < w_fin m) ->
  waitmon_step m (EvExec c n o) = Some (wm_cmds m (kupdate c (kf_exec m o) (w_cmds m))).
Proof.
  intros m c n o k H1 H2 H3 H4 H5 H6 H7 H8. unfold waitmon_step. rewrite H1, H2, H3, H4. subst n. rewrite Z.eqb_refl.
  assert (Hl : (w_fin m <? 1) = false) by (clear - H6; lia). rewrite Hl. cbn [orb negb].
  assert (Hw : (match k_last k with Some XOk | Some XOther => true | _ => false end) = false).
  { clear - H7. destruct (k_last k) as [[]|]; simpl in *; congruence. }
  rewrite Hw.
  assert (Hn : (match k_need_fin k with Some f => negb (f <? w_fin m) | None => false end) = false).
  { destruct (k_need_fin k) as [f|]; [|reflexivity]. specialize (H8 f eq_refl). clear - H8. lia. }
  rewrite Hn. reflexivity.
Qed.

Lemma wm_err : forall m c k, kfind c (w_cmds m) = Some k -> k_notify_due k = true ->
  waitmon_step m (EvCmdErr c) = Some (wm_cmds m (kupdate c kf_err (w_cmds m))).
Proof. intros m c k H1 H2. unfold waitmon_step. rewrite H1, H2. reflexivity. Qed.

Lemma wm_cancel : forall m c k, kfind c (w_cmds m) = Some k ->
  waitmon_step m (EvCancel c) = Some (wm_cmds m (kupdate c kf_cancel (w_cmds m))).
Proof. intros m c k H1. unfold waitmon_step. rewrite H1. reflexivity. Qed.

Lemma kf_ret_id : forall k, k_id (kf_ret k) = k_id k. Proof. reflexivity. Qed.
Lemma kf_cancel_id : forall k, k_id (kf_cancel k) = k_id k. Proof. reflexivity. Qed.
Lemma kf_err_id : forall k, k_id (kf_err k) = k_id k. Proof. reflexivity. Qed.
Lemma kf_join_id : forall k, k_id (kf_join k) = k_id k. Proof. reflexivity. Qed.
Lemma kf_exec_id : forall m o k, k_id (kf_exec m o k) = k_id k. Proof. reflexivity. Qed.


Lemma CmdRel_started : forall m st x, CmdRel m st x -> cm_pc x <> CNew ->
  exists k, kfind (cm_id x) (w_cmds m) = Some k /\ cm_started x = true /\
            CmdK (w_fin m) (w_fatal m) (haspub st) (hasfatal st) (transport_connected st) (finished st) x k.
Proof.
  unfold CmdRel; intros m st x H Hp. destruct (kfind (cm_id x) (w_cmds m)) as [k|].
  - exists k. tauto.
  - destruct H as (_ & H & _). contradiction.
Qed.

Lemma CmdRel_intro : forall m st x k, kfind (cm_id x) (w_cmds m) = Some k -> cm_started x = true ->
  CmdK (w_fin m) (w_fatal m) (haspub st) (hasfatal st) (transport_connected st) (finished st) x k -> CmdRel m st x.
Proof. unfold CmdRel; intros m st x k -> H1 H2. auto. Qed.

Ltac cm_simpl := cbn [cm_id cm_force cm_firenow cm_outs cm_k cm_ctx cm_started cm_pc cm_set_pc cm_set_ctx cm_exec].
Ltac k_simpl := cbn [k_id k_force k_execs k_last k_need_fin k_notify_due k_cancelled k_start_fin k_start_fatal k_returned
                     kf_ret kf_cancel kf_err kf_join kf_exec].
Ltac cmdk_split := unfold CmdK; cm_simpl; k_simpl; cbn [is_ret is_notifying pneed]; repeat match goal with |- _ /\ _ => split end.

Lemma R3_wake : forall cfg o st c st' m,
  Single st -> GenOK st -> XpOK st -> run waitmon_step waitmon0 (ctrace st) = Some m -> R3 m st ->
  cstep cfg o st (LWake c) = Some st' -> exists m', run waitmon_step waitmon0 (ctrace st') = Some m' /\ R3 m' st'.
Proof.
  intros cfg o st c st' m HS HGen HX HM HR H.
  unfold cstep in H. head_destruct H; injection H as H; subst st'.
  all: pose proof (cfindc_id _ _ _ E) as Hid.
  all: destruct (CmdRel_started m st c0 (proj2 HR _ _ E)) as (k & Hk & Hst & HK); [rewrite E0; discriminate|]; rewrite Hid in Hk.
  all: pose proof (proj1 HR) as (_ & _ & _ & _ & G6); specialize (G6 _ _ E1).
  all: try (exfalso; clear - G6; destruct G6 as [G|[G|[G _]]]; discriminate).
  all: pose proof HK as (A & B & C & D & E' & F & G & (H1 & H2 & H3) & (I1 & I2 & I3) & J); rewrite E0 in D, E', F, G; cbn [is_ret is_notifying] in D, E'.
  - (* ENone, forced reconnect: returns nil *)
    eexists. split.
    { eapply mon_ext_1; [exact HM | reflexivity |]. eapply wm_ret; eauto. unfold ret_matches.
      destruct (k_last k) as [[]|]; try discriminate F; rewrite C; (match goal with Hf : cm_force _ = true |- _ => rewrite Hf end); cbn [andb]; specialize (H3 _ E0 E1); clear - H3; lia. }
    eapply (R3_cmd_step m st _ _ c); [exact HR | exact E | reflexivity | reflexivity | apply OtherSame_upd; exact kf_ret_id | | auto | auto | auto | reflexivity | ].
    { eapply (GlobOK_other c); [apply OtherSame_upd; exact kf_ret_id | reflexivity..| exact (proj1 HR)]. }
    eapply CmdRel_intro; [cm_simpl; rewrite Hid, kfind_upd_self by exact kf_ret_id; rewrite Hk; reflexivity | reflexivity |].
    wm_simpl. cmdk_split; auto; try discriminate.
    intros f Hf. destruct (J f Hf) as [J1 J2]. split; [exact J1|]. intros Hw. destruct (J2 Hw) as [J3 _]. auto.
  - (* ENone: ready *)
    exists m. split; [eapply mon_ext_0; [exact HM | reflexivity | reflexivity]|].
    eapply (R3_cmd_step m st _ _ c); [exact HR | exact E | reflexivity | reflexivity | apply OtherSame_refl | | auto | auto | auto | reflexivity | ].
    { eapply (GlobOK_other c); [apply OtherSame_refl | reflexivity..| exact (proj1 HR)]. }
    eapply CmdRel_intro; [cm_simpl; rewrite Hid; exact Hk | reflexivity |].
    cmdk_split; auto; try discriminate.
    + intros Hf. match goal with Hf' : cm_force _ = false |- _ => rewrite Hf in Hf'; discriminate Hf' end.
    + intros f Hf. destruct (J f Hf) as [J1 J2]. split; [exact J1|]. intros Hw. destruct (J2 Hw) as [_ J4]. rewrite E0 in J4.
      cbn [pneed] in J4. destruct J4 as [_ J4]. contradiction.
  - (* EConnFatal *)
    eexists. split.
    { eapply mon_ext_1; [exact HM | reflexivity |]. eapply wm_ret; eauto. unfold ret_matches.
      destruct (k_last k) as [[]|]; try discriminate F; specialize (I3 _ E0 E1); clear - I3; lia. }
    eapply (R3_cmd_step m st _ _ c); [exact HR | exact E | reflexivity | reflexivity | apply OtherSame_upd; exact kf_ret_id | | auto | auto | auto | reflexivity | ].
    { eapply (GlobOK_other c); [apply OtherSame_upd; exact kf_ret_id | reflexivity..| exact (proj1 HR)]. }
    eapply CmdRel_intro; [cm_simpl; rewrite Hid, kfind_upd_self by exact kf_ret_id; rewrite Hk; reflexivity | reflexivity |].
    wm_simpl. cmdk_split; auto; try discriminate.
    intros f Hf. destruct (J f Hf) as [J1 J2]. split; [exact J1|]. intros Hw. destruct (J2 Hw) as [J3 _]. auto.
  - (* ECanceled *)
    eexists. split.
    { eapply mon_ext_1; [exact HM | reflexivity |]. eapply wm_ret; eauto. unfold ret_matches.
      destruct G6 as [G6|[G6|[_ G6]]]; try discriminate G6.
      destruct (k_last k) as [[]|]; try discriminate F; exact G6. }
    eapply (R3_cmd_step m st _ _ c); [exact HR | exact E | reflexivity | reflexivity | apply OtherSame_upd; exact kf_ret_id | | auto | auto | auto | reflexivity | ].
    { eapply (GlobOK_other c); [apply OtherSame_upd; exact kf_ret_id | reflexivity..| exact (proj1 HR)]. }
    eapply CmdRel_intro; [cm_simpl; rewrite Hid, kfind_upd_self by exact kf_ret_id; rewrite Hk; reflexivity | reflexivity |].
    wm_simpl. cmdk_split; auto; try discriminate.
    intros f Hf. destruct (J f Hf) as [J1 J2]. split; [exact J1|]. intros Hw. destruct (J2 Hw) as [J3 _]. auto.
Qed.

Lemma R3_ctxret : forall cfg o st c st' m,
  run waitmon_step waitmon0 (ctrace st) = Some m -> R3 m st ->
  cstep cfg o st (LCtxRet c) = Some st' -> exists m', run waitmon_step waitmon0 (ctrace st') = Some m' /\ R3 m' st'.
Proof.
  intros cfg o st c st' m HM HR H.
  unfold cstep in H. head_destruct H; injection H as H; subst st'.
  pose proof (cfindc_id _ _ _ E) as Hid.
  destruct (CmdRel_started m st c0 (proj2 HR _ _ E)) as (k & Hk & Hst & HK); [rewrite E0; discriminate|]; rewrite Hid in Hk.
  pose proof HK as (A & B & C & D & E' & F & G & (H1 & H2 & H3) & (I1 & I2 & I3) & J); rewrite E0 in D, E', F, G; cbn [is_ret is_notifying] in D, E'.
  eexists. split.
  { eapply mon_ext_1; [exact HM | reflexivity |]. eapply wm_ret; eauto. unfold ret_matches.
    destruct (k_last k) as [[]|]; try discriminate F; congruence. }
  eapply (R3_cmd_step m st _ _ c); [exact HR | exact E | reflexivity | reflexivity | apply OtherSame_upd; exact kf_ret_id | | auto | auto | auto | reflexivity | ].
  { eapply (GlobOK_other c); [apply OtherSame_upd; exact kf_ret_id | reflexivity..| exact (proj1 HR)]. }
  eapply CmdRel_intro; [cm_simpl; rewrite Hid, kfind_upd_self by exact kf_ret_id; rewrite Hk; reflexivity | reflexivity |].
  wm_simpl. cmdk_split; auto; try discriminate.
  intros f Hf. destruct (J f Hf) as [J1 J2]. split; [exact J1|]. intros Hw. destruct (J2 Hw) as [J3 _]. auto.
Qed.

Lemma R3_cmdnotify : forall cfg o st c st' m,
  run waitmon_step waitmon0 (ctrace st) = Some m -> R3 m st ->
  cstep cfg o st (LCmdNotify c) = Some st' -> exists m', run waitmon_step waitmon0 (ctrace st') = Some m' /\ R3 m' st'.
Proof.
  intros cfg o st c st' m HM HR H.
  unfold cstep in H. head_destruct H; injection H as H; subst st'.
  pose proof (cfindc_id _ _ _ E) as Hid.
  destruct (CmdRel_started m st c0 (proj2 HR _ _ E)) as (k & Hk & Hst & HK); [rewrite E0; discriminate|]; rewrite Hid in Hk.
  pose proof HK as (A & B & C & D & E' & F & G & (H1 & H2 & H3) & (I1 & I2 & I3) & J); rewrite E0 in D, E', F, G; cbn [is_ret is_notifying] in D, E'.
  eexists. split.
  { eapply mon_ext_1; [exact HM | reflexivity |]. eapply wm_err; eauto. }
  eapply (R3_cmd_step m st _ _ c); [exact HR | exact E | reflexivity | reflexivity | apply OtherSame_upd; exact kf_err_id | | auto | auto | auto | reflexivity | ].
  { eapply (GlobOK_other c); [apply OtherSame_upd; exact kf_err_id | reflexivity..| exact (proj1 HR)]. }
  eapply CmdRel_intro; [cm_simpl; rewrite Hid, kfind_upd_self by exact kf_err_id; rewrite Hk; reflexivity | reflexivity |].
  wm_simpl. cmdk_split; auto; try discriminate.
  intros f Hf. rewrite F in Hf. discriminate.
Qed.

Lemma R3_ctxend : forall cfg o st c st' m,
  run waitmon_step waitmon0 (ctrace st) = Some m -> R3 m st ->
  cstep cfg o st (LCtxEnd c) = Some st' -> exists m', run waitmon_step waitmon0 (ctrace st') = Some m' /\ R3 m' st'.
Proof.
  intros cfg o st c st' m HM HR H.
  unfold cstep in H. head_destruct H; injection H as H; subst st'.
  pose proof (cfindc_id _ _ _ E) as Hid. pose proof (proj2 HR _ _ E) as HC. unfold CmdRel in HC. rewrite Hid in HC.
  destruct (kfind c (w_cmds m)) as [k|] eqn:Hk.
  - destruct HC as [Hst HK].
    pose proof HK as (A & B & C & D & E' & F & G & (H1 & H2 & H3) & (I1 & I2 & I3) & J).
    eexists. split.
    { eapply mon_ext_1; [exact HM | reflexivity |]. eapply wm_cancel; eauto. }
    eapply (R3_cmd_step m st _ _ c); [exact HR | exact E | reflexivity | reflexivity | apply OtherSame_upd; exact kf_cancel_id | | auto | auto | auto | reflexivity | ].
    { eapply (GlobOK_other c); [apply OtherSame_upd; exact kf_cancel_id | reflexivity..| exact (proj1 HR)]. }
    eapply CmdRel_intro; [cm_simpl; rewrite Hid, kfind_upd_self by exact kf_cancel_id; rewrite Hk; reflexivity | exact Hst |].
    wm_simpl. cmdk_split; auto.
  - destruct HC as (Hst & Hpc & Hk0 & Hctx).
    assert (HO : OtherSame c m (mkWM (w_fin m) (w_fatal m) (w_shut m) (w_open_fin m) (w_open_fatal m) (w_cmds m) (c :: w_precancel m))).
    { unfold OtherSame; wm_simpl. repeat split; auto. cbn [zmemb]. destruct (c' =? c) eqn:E'; [clear - H E'; lia | reflexivity]. }
    eexists. split.
    { eapply mon_ext_1; [exact HM | reflexivity |]. unfold waitmon_step. rewrite Hk. reflexivity. }
    eapply (R3_cmd_step m st _ _ c); [exact HR | exact E | reflexivity | reflexivity | exact HO | | auto | auto | auto | reflexivity | ].
    { eapply (GlobOK_other c); [exact HO | reflexivity..| exact (proj1 HR)]. }
    unfold CmdRel. cm_simpl. wm_simpl. rewrite Hid, Hk. cbn [zmemb]. rewrite Z.eqb_refl. auto.
Qed.

Lemma base_fin_le : forall m, base_fin m <= w_fin m.
Proof. intros m; unfold base_fin; destruct (w_open_fin m); lia. Qed.
Lemma base_fin_eq : forall m, base_fin m = w_fin m -> w_open_fin m = false.
Proof. intros m; unfold base_fin; destruct (w_open_fin m); [lia | reflexivity]. Qed.
Lemma base_fatal_le : forall m, base_fatal m <= w_fatal m.
Proof. intros m; unfold base_fatal; destruct (w_open_fatal m); lia. Qed.
Lemma base_fatal_eq : forall m, base_fatal m = w_fatal m -> w_open_fatal m = false.
Proof. intros m; unfold base_fatal; destruct (w_open_fatal m); [lia | reflexivity]. Qed.

Lemma not_open_pub : forall m st, GlobOK m st -> w_open_fin m = false -> haspub st = false.
Proof. intros m st (_ & G2 & _) H. destruct (haspub st); [rewrite G2 in H by reflexivity; discriminate | reflexivity]. Qed.
Lemma not_open_fatal : forall m st, GlobOK m st -> w_open_fatal m = false -> hasfatal st = false.
Proof. intros m st (_ & _ & G3 & _) H. destruct (hasfatal st); [rewrite G3 in H by reflexivity; discriminate | reflexivity]. Qed.

Lemma R3_fire : forall cfg o st c st' m,
  run waitmon_step waitmon0 (ctrace st) = Some m -> R3 m st ->
  cstep cfg o st (LFire c) = Some st' -> exists m', run waitmon_step waitmon0 (ctrace st') = Some m' /\ R3 m' st'.
Proof.
  intros cfg o st c st' m HM HR H.
  unfold cstep in H. head_destruct H; injection H as H; subst st'.
  pose proof (cfindc_id _ _ _ E) as Hid. pose proof (proj2 HR _ _ E) as HC. unfold CmdRel in HC. rewrite Hid in HC.
  destruct (kfind c (w_cmds m)) as [k|] eqn:Hk.
  - (* a retry: already started *)
    destruct HC as [Hst HK]. rewrite Hst.
    pose proof HK as (A & B & C & D & E' & F & G & (H1 & H2 & H3) & (I1 & I2 & I3) & J); rewrite E0 in D, E', F, G; cbn [is_ret is_notifying] in D, E'.
    exists m. split.
    { destruct (cm_firenow c0 && negb (cm_force c0) && (co_first_delay o || co_window o)).
      - eapply mon_ext_1; [exact HM | reflexivity | reflexivity].
      - eapply mon_ext_0; [exact HM | reflexivity | reflexivity]. }
    eapply (R3_cmd_step m st _ _ c (cm_set_pc CLock)); [exact HR | exact E | | reflexivity | apply OtherSame_refl | | | | | | ].
    + destruct (cm_firenow c0 && negb (cm_force c0) && (co_first_delay o || co_window o)); reflexivity.
    + eapply (GlobOK_other c); [apply OtherSame_refl | ..| exact (proj1 HR)];
        destruct (cm_firenow c0 && negb (cm_force c0) && (co_first_delay o || co_window o)); reflexivity.
    + destruct (cm_firenow c0 && negb (cm_force c0) && (co_first_delay o || co_window o)); auto.
    + destruct (cm_firenow c0 && negb (cm_force c0) && (co_first_delay o || co_window o)); auto.
    + destruct (cm_firenow c0 && negb (cm_force c0) && (co_first_delay o || co_window o)); auto.
    + destruct (cm_firenow c0 && negb (cm_force c0) && (co_first_delay o || co_window o)); reflexivity.
    + eapply CmdRel_intro; [cm_simpl; rewrite Hid; exact Hk | reflexivity |].
      assert (Hsame : forall st1, st1 = upd (if cm_firenow c0 && negb (cm_force c0) && (co_first_delay o || co_window o) then fire_timer st else st)
                 (seqs (if cm_firenow c0 && negb (cm_force c0) && (co_first_delay o || co_window o) then fire_timer st else st))
                 (cupdate c (cm_set_pc CLock) (cmds (if cm_firenow c0 && negb (cm_force c0) && (co_first_delay o || co_window o) then fire_timer st else st)))
                 ((if cm_firenow c0 && negb (cm_force c0) && (co_first_delay o || co_window o) then [EvFireNow c] else []) ++ []) ->
               haspub st1 = haspub st /\ hasfatal st1 = hasfatal st /\ transport_connected st1 = transport_connected st /\ finished st1 = finished st).
      { intros st1 ->. destruct (cm_firenow c0 && negb (cm_force c0) && (co_first_delay o || co_window o)); auto. }
      destruct (Hsame _ eq_refl) as (-> & -> & -> & ->).
      cmdk_split; auto; try discriminate.
      intros f Hf. destruct (J f Hf) as [J1 J2]. split; [exact J1|]. intros Hw. destruct (J2 Hw) as [J3 _]. auto.
  - (* first time: the command starts *)
    destruct HC as (Hst & Hpc & Hk0 & Hctx). rewrite Hst.
    set (k0 := mkCM c (cm_force c0) 0 None None false (zmemb c (w_precancel m)) (base_fin m) (base_fatal m) false).
    assert (HO : OtherSame c m (wm_cmds m (k0 :: w_cmds m))).
    { unfold OtherSame; wm_simpl. repeat split; auto. cbn [kfind k0 k_id]. destruct (c =? c') eqn:E'; [clear - H E'; lia | reflexivity]. }
    assert (Hstep : waitmon_step m (EvCmdStart c (cm_force c0) (cm_firenow c0)) = Some (wm_cmds m (k0 :: w_cmds m))).
    { unfold waitmon_step. rewrite Hk. reflexivity. }
    exists (wm_cmds m (k0 :: w_cmds m)). split.
    { destruct (cm_firenow c0 && negb (cm_force c0) && (co_first_delay o || co_window o)).
      - eapply mon_ext_2; [exact HM | reflexivity | exact Hstep | reflexivity].
      - eapply mon_ext_1; [exact HM | reflexivity | exact Hstep]. }
    eapply (R3_cmd_step m st _ _ c (cm_set_pc CLock)); [exact HR | exact E | | reflexivity | exact HO | | | | | | ].
    + destruct (cm_firenow c0 && negb (cm_force c0) && (co_first_delay o || co_window o)); reflexivity.
    + eapply (GlobOK_other c); [exact HO | ..| exact (proj1 HR)];
        destruct (cm_firenow c0 && negb (cm_force c0) && (co_first_delay o || co_window o)); reflexivity.
    + destruct (cm_firenow c0 && negb (cm_force c0) && (co_first_delay o || co_window o)); auto.
    + destruct (cm_firenow c0 && negb (cm_force c0) && (co_first_delay o || co_window o)); auto.
    + destruct (cm_firenow c0 && negb (cm_force c0) && (co_first_delay o || co_window o)); auto.
    + destruct (cm_firenow c0 && negb (cm_force c0) && (co_first_delay o || co_window o)); reflexivity.
    + eapply (CmdRel_intro _ _ _ k0); [cm_simpl; wm_simpl; rewrite Hid; cbn [kfind k0 k_id]; rewrite Z.eqb_refl; reflexivity | reflexivity |].
      assert (Hsame : forall st1, st1 = upd (if cm_firenow c0 && negb (cm_force c0) && (co_first_delay o || co_window o) then fire_timer st else st)
                 (seqs (if cm_firenow c0 && negb (cm_force c0) && (co_first_delay o || co_window o) then fire_timer st else st))
                 (cupdate c (cm_set_pc CLock) (cmds (if cm_firenow c0 && negb (cm_force c0) && (co_first_delay o || co_window o) then fire_timer st else st)))
                 ((if cm_firenow c0 && negb (cm_force c0) && (co_first_delay o || co_window o) then [EvFireNow c] else []) ++
                  [EvCmdStart c (cm_force c0) (cm_firenow c0)]) ->
               haspub st1 = haspub st /\ hasfatal st1 = hasfatal st /\ transport_connected st1 = transport_connected st /\ finished st1 = finished st).
      { intros st1 ->. destruct (cm_firenow c0 && negb (cm_force c0) && (co_first_delay o || co_window o)); auto. }
      destruct (Hsame _ eq_refl) as (-> & -> & -> & ->). wm_simpl.
      unfold CmdK; cm_simpl; unfold k0; k_simpl; cbn [is_ret is_notifying pneed waitish_b].
      repeat match goal with |- _ /\ _ => split end; auto; try discriminate.
      * apply base_fin_le.
      * intros Hb. apply (not_open_pub m st (proj1 HR)). apply base_fin_eq; exact Hb.
      * apply base_fatal_le.
      * intros Hb. apply (not_open_fatal m st (proj1 HR)). apply base_fatal_eq; exact Hb.
Qed.

Lemma ffind_some_In : forall g e l, ffind g l = Some e -> In (g, e) l.
Proof.
  induction l as [|[k x] l IH]; simpl; intros H; [discriminate|].
  destruct (k =? g) eqn:E; [injection H as ->; left; f_equal; lia | right; auto].
Qed.

Lemma R3_begin : forall cfg o st c st' m, cc_spawn_guarded cfg = true ->
  Single st -> GenOK st ->
  run waitmon_step waitmon0 (ctrace st) = Some m -> R3 m st ->
  cstep cfg o st (LBegin c) = Some st' -> exists m', run waitmon_step waitmon0 (ctrace st') = Some m' /\ R3 m' st'.
Proof.
  intros cfg o st c st' m Hg HS HGen HM HR H.
  unfold cstep in H. rewrite Hg in H. head_destruct H; injection H as H; subst st'.
  all: pose proof (cfindc_id _ _ _ E) as Hid.
  all: destruct (CmdRel_started m st c0 (proj2 HR _ _ E)) as (k & Hk & Hst & HK); [rewrite E0; discriminate|]; rewrite Hid in Hk.
  all: pose proof HK as (A & B & C & D & E' & F & G & (H1 & H2 & H3) & (I1 & I2 & I3) & J); rewrite E0 in D, E', F, G; cbn [is_ret is_notifying] in D, E'.
  - (* connected *)
    apply andb_true_iff in E1. destruct E1 as [Hnf Hconn]. unfold is_connected in Hconn. apply andb_true_iff in Hconn. destruct Hconn as [Hconn _].
    exists m. split; [eapply mon_ext_0; [exact HM | reflexivity | reflexivity]|].
    eapply (R3_cmd_step m st _ _ c); [exact HR | exact E | reflexivity | reflexivity | apply OtherSame_refl | | auto | auto | auto | reflexivity | ].
    { eapply (GlobOK_other c); [apply OtherSame_refl | reflexivity..| exact (proj1 HR)]. }
    eapply CmdRel_intro; [cm_simpl; rewrite Hid; exact Hk | reflexivity |].
    cmdk_split; auto; try discriminate.
    + intros Hf. rewrite Hf in Hnf. discriminate.
    + intros f Hf. destruct (J f Hf) as [J1 J2]. split; [exact J1|]. intros Hw. destruct (J2 Hw) as [J3 _].
      change (transport_connected st = false) in J3. rewrite Hconn in J3. discriminate.
  - (* joining the registered sequence *)
    destruct (Single_some _ _ HS E2) as (s & Hs & Hgen).
    assert (Hnf : ffind z (finished st) = None).
    { destruct HGen as (HG1 & _). apply HG1. rewrite Hs. simpl. left. exact Hgen. }
    destruct (w_open_fin m) eqn:Hopen.
    + exists (wm_cmds m (kupdate c kf_join (w_cmds m))). split.
      { eapply mon_ext_1; [exact HM | reflexivity |]. unfold waitmon_step. rewrite Hopen. reflexivity. }
      eapply (R3_cmd_step m st _ _ c); [exact HR | exact E | reflexivity | reflexivity | apply (OtherSame_upd c m kf_join); exact kf_join_id | | auto | auto | auto | reflexivity | ].
      { eapply (GlobOK_other c); [apply (OtherSame_upd c m kf_join); exact kf_join_id | reflexivity..| exact (proj1 HR)]. }
      eapply CmdRel_intro; [cm_simpl; rewrite Hid; rewrite (kfind_upd_self c m kf_join) by exact kf_join_id; rewrite Hk; reflexivity | reflexivity |].
      wm_simpl. cmdk_split; auto; try discriminate.
      * intros g Hg' Hf. injection Hg' as <-. proj_simpl_in Hf. rewrite Hnf in Hf. discriminate.
      * intros g Hg' Hf. injection Hg' as <-. proj_simpl_in Hf. rewrite Hnf in Hf. discriminate.
    + exists m. split.
      { eapply mon_ext_1; [exact HM | reflexivity |]. unfold waitmon_step. rewrite Hopen. reflexivity. }
      eapply (R3_cmd_step m st _ _ c); [exact HR | exact E | reflexivity | reflexivity | apply OtherSame_refl | | auto | auto | auto | reflexivity | ].
      { eapply (GlobOK_other c); [apply OtherSame_refl | reflexivity..| exact (proj1 HR)]. }
      eapply CmdRel_intro; [cm_simpl; rewrite Hid; exact Hk | reflexivity |].
      cmdk_split; auto; try discriminate.
      * intros g Hg' Hf. injection Hg' as <-. proj_simpl_in Hf. rewrite Hnf in Hf. discriminate.
      * intros g Hg' Hf. injection Hg' as <-. proj_simpl_in Hf. rewrite Hnf in Hf. discriminate.
      * intros f Hf. destruct (J f Hf) as [J1 J2]. split; [exact J1|]. intros Hw. destruct (J2 Hw) as [J3 _]. split; [exact J3|].
        split; [apply (not_open_pub m st (proj1 HR) Hopen) | proj_simpl; rewrite Hnf; discriminate].
  - (* starting a new sequence *)
    pose proof (Single_none _ HS E2) as Hs.
    assert (Hnf : ffind (next_gen st) (finished st) = None).
    { destruct (ffind (next_gen st) (finished st)) as [e|] eqn:Hf; [|reflexivity]. exfalso.
      apply ffind_some_In in Hf. destruct HGen as (_ & HG2 & _). apply HG2 in Hf. clear - Hf. lia. }
    match goal with |- exists m', run _ _ (ctrace ?st1) = _ /\ _ => set (st' := st1) end.
    assert (Hs' : seqs st' = [mkSeq (next_gen st) (if reconnected_before st then 3 else 2) SAnnounce ENone false]).
    { unfold st'; proj_simpl. rewrite Hs. reflexivity. }
    exists m. split; [eapply mon_ext_1; [exact HM | reflexivity | reflexivity]|].
    pose proof (proj1 HR) as (G1 & G2 & G3 & G4 & G6).
    eapply (R3_cmd_step m st _ _ c); [exact HR | exact E | reflexivity | reflexivity | apply OtherSame_refl | | | | auto | reflexivity | ].
    + eapply GlobOK_intro_single; [exact Hs' | exact G1 | discriminate | discriminate | reflexivity | discriminate | exact G6].
    + rewrite (haspub_single _ _ Hs'). discriminate.
    + rewrite (hasfatal_single _ _ Hs'). discriminate.
    + eapply CmdRel_intro; [cm_simpl; rewrite Hid; exact Hk | reflexivity |].
      rewrite (haspub_single _ _ Hs'), (hasfatal_single _ _ Hs').
      cmdk_split; auto; try discriminate.
      * intros g Hg' Hf. injection Hg' as <-. unfold st' in Hf; proj_simpl_in Hf. rewrite Hnf in Hf. discriminate.
      * intros g Hg' Hf. injection Hg' as <-. unfold st' in Hf; proj_simpl_in Hf. rewrite Hnf in Hf. discriminate.
      * intros f Hf. destruct (J f Hf) as [J1 J2]. split; [exact J1|]. intros Hw. destruct (J2 Hw) as [J3 _]. split; [exact J3|].
        split; [reflexivity | unfold st'; proj_simpl; rewrite Hnf; discriminate].
Qed.

Lemma tc_after_disc : forall st st', cur st' = cur st -> live st' = orem (cur st) (live st) -> transport_connected st' = false.
Proof.
  intros st st' Hc Hl. unfold transport_connected. rewrite Hc, Hl. destruct (cur st) as [x|]; [|reflexivity]. simpl. apply zmemb_zrem_self.
Qed.

Lemma R3_exec : forall cfg o st c st' m, cc_retry_only_eof cfg = true ->
  run waitmon_step waitmon0 (ctrace st) = Some m -> R3 m st ->
  cstep cfg o st (LExec c) = Some st' -> exists m', run waitmon_step waitmon0 (ctrace st') = Some m' /\ R3 m' st'.
Proof.
  intros cfg o st c st' m Hre HM HR H.
  unfold cstep in H. rewrite Hre in H. head_destruct H; injection H as H; subst st'.
  all: pose proof (cfindc_id _ _ _ E) as Hid.
  all: destruct (CmdRel_started m st c0 (proj2 HR _ _ E)) as (k & Hk & Hst & HK); [rewrite E1; discriminate|]; rewrite Hid in Hk.
  all: pose proof HK as (A & B & C & D & E' & F & G & (H1 & H2 & H3) & (I1 & I2 & I3) & J); rewrite E1 in D, E', F, G; cbn [is_ret is_notifying] in D, E'.
  all: assert (Hnf : cm_force c0 = false) by (destruct (cm_force c0); [exfalso; apply G; reflexivity | reflexivity]).
  all: pose proof (proj1 HR) as ((G1a & G1b) & _).
  all: assert (Hfin1 : 1 <= w_fin m) by (apply G1b; rewrite E0; discriminate).
  all: assert (Hneed : forall f, k_need_fin k = Some f -> f < w_fin m).
  all: try (intros f Hf; destruct (J f Hf) as [J1 J2]; destruct (Z.eq_dec f (w_fin m)) as [He|Hne];
            [destruct (J2 He) as [_ J4]; rewrite E1 in J4; contradiction | clear - J1 Hne; lia]).
  all: match goal with |- exists m', run _ _ (ctrace (upd _ _ (cupdate _ (cm_exec _) _) (_ ++ [EvExec _ _ ?out] ++ _))) = _ /\ _ => idtac | _ => idtac end.
  all: assert (Hex : forall out, waitmon_step m (EvExec c (cm_k c0) out) = Some (wm_cmds m (kupdate c (kf_exec m out) (w_cmds m))))
         by (intros out; eapply wm_exec; eauto; congruence).
  all: assert (HO1 : forall out, OtherSame c m (wm_cmds m (kupdate c (kf_exec m out) (w_cmds m))))
         by (intros out; apply OtherSame_upd; apply kf_exec_id).
  all: assert (Hk1 : forall out, kfind c (w_cmds (wm_cmds m (kupdate c (kf_exec m out) (w_cmds m)))) = Some (kf_exec m out k))
         by (intros out; rewrite kfind_upd_self by apply kf_exec_id; rewrite Hk; reflexivity).
  - (* XOk *)
    set (m1 := wm_cmds m (kupdate c (kf_exec m XOk) (w_cmds m))).
    exists (wm_cmds m1 (kupdate c kf_ret (w_cmds m1))). split.
    { eapply mon_ext_2; [exact HM | reflexivity | apply Hex |]. eapply wm_ret; [apply Hk1 | reflexivity | reflexivity | reflexivity]. }
    assert (HO : OtherSame c m (wm_cmds m1 (kupdate c kf_ret (w_cmds m1)))).
    { eapply OtherSame_trans; [apply HO1 | apply OtherSame_upd; exact kf_ret_id]. }
    eapply (R3_cmd_step m st _ _ c); [exact HR | exact E | reflexivity | reflexivity | exact HO | | auto | auto | auto | reflexivity | ].
    { eapply (GlobOK_other c); [exact HO | reflexivity..| exact (proj1 HR)]. }
    eapply CmdRel_intro; [cm_simpl; rewrite Hid, kfind_upd_self by exact kf_ret_id; unfold m1; rewrite Hk1; reflexivity | reflexivity |].
    subst m1. wm_simpl. cmdk_split; auto; try discriminate; try (rewrite A; reflexivity).
    + apply base_fatal_le.
    + intros Hb. apply (not_open_fatal m st (proj1 HR)). apply base_fatal_eq; exact Hb.
  - (* XEof: retried *)
    exists (wm_cmds m (kupdate c (kf_exec m XEof) (w_cmds m))). split.
    { eapply mon_ext_1; [exact HM | reflexivity | apply Hex]. }
    eapply (R3_cmd_step m st _ _ c); [exact HR | exact E | reflexivity | reflexivity | apply HO1 | | auto | auto | auto | reflexivity | ].
    { eapply (GlobOK_other c); [apply HO1 | reflexivity..| exact (proj1 HR)]. }
    eapply CmdRel_intro; [cm_simpl; rewrite Hid, Hk1; reflexivity | reflexivity |].
    wm_simpl. cmdk_split; auto; try discriminate; try (rewrite A; reflexivity).
    + apply base_fatal_le.
    + intros Hb. apply (not_open_fatal m st (proj1 HR)). apply base_fatal_eq; exact Hb.
  - (* XEofDisc: the transport dies under the command *)
    exists (wm_cmds m (kupdate c (kf_exec m XEofDisc) (w_cmds m))). split.
    { eapply mon_ext_1; [exact HM | reflexivity | apply Hex]. }
    match goal with |- R3 _ ?st1 => assert (Htc : transport_connected st1 = false) by (apply (tc_after_disc st); reflexivity) end.
    eapply (R3_cmd_step m st _ _ c); [exact HR | exact E | reflexivity | reflexivity | apply HO1 | | auto | auto | | reflexivity | ].
    { eapply (GlobOK_other c m _ st); [apply HO1 | symmetry; exact E0 | reflexivity | reflexivity | exact (proj1 HR)]. }
    { rewrite Htc. discriminate. }
    eapply CmdRel_intro; [cm_simpl; rewrite Hid, Hk1; reflexivity | reflexivity |].
    rewrite Htc. wm_simpl. cmdk_split; auto; try discriminate; try (rewrite A; reflexivity).
    + apply base_fatal_le.
    + intros Hb. apply (not_open_fatal m st (proj1 HR)). apply base_fatal_eq; exact Hb.
    + intros f Hf. injection Hf as <-. split; [clear; lia | auto].
  - (* XRetriable *)
    exists (wm_cmds m (kupdate c (kf_exec m XRetriable) (w_cmds m))). split.
    { eapply mon_ext_1; [exact HM | reflexivity | apply Hex]. }
    eapply (R3_cmd_step m st _ _ c); [exact HR | exact E | reflexivity | reflexivity | apply HO1 | | auto | auto | auto | reflexivity | ].
    { eapply (GlobOK_other c); [apply HO1 | reflexivity..| exact (proj1 HR)]. }
    eapply CmdRel_intro; [cm_simpl; rewrite Hid, Hk1; reflexivity | reflexivity |].
    wm_simpl. cmdk_split; auto; try discriminate; try (rewrite A; reflexivity).
    + apply base_fatal_le.
    + intros Hb. apply (not_open_fatal m st (proj1 HR)). apply base_fatal_eq; exact Hb.
  - (* XOther *)
    set (m1 := wm_cmds m (kupdate c (kf_exec m XOther) (w_cmds m))).
    exists (wm_cmds m1 (kupdate c kf_ret (w_cmds m1))). split.
    { eapply mon_ext_2; [exact HM | reflexivity | apply Hex |]. eapply wm_ret; [apply Hk1 | reflexivity | reflexivity | reflexivity]. }
    assert (HO : OtherSame c m (wm_cmds m1 (kupdate c kf_ret (w_cmds m1)))).
    { eapply OtherSame_trans; [apply HO1 | apply OtherSame_upd; exact kf_ret_id]. }
    eapply (R3_cmd_step m st _ _ c); [exact HR | exact E | reflexivity | reflexivity | exact HO | | auto | auto | auto | reflexivity | ].
    { eapply (GlobOK_other c); [exact HO | reflexivity..| exact (proj1 HR)]. }
    eapply CmdRel_intro; [cm_simpl; rewrite Hid, kfind_upd_self by exact kf_ret_id; unfold m1; rewrite Hk1; reflexivity | reflexivity |].
    subst m1. wm_simpl. cmdk_split; auto; try discriminate; try (rewrite A; reflexivity).
    + apply base_fatal_le.
    + intros Hb. apply (not_open_fatal m st (proj1 HR)). apply base_fatal_eq; exact Hb.
Qed.

Lemma Inv3_step : forall cfg o st l st', cc_spawn_guarded cfg = true -> cc_retry_only_eof cfg = true ->
  Inv3 st -> cstep cfg o st l = Some st' -> Inv3 st'.
Proof.
  intros cfg o st l st' Hg Hre (HS & HGen & HX & m & HM & HR) H.
  split; [eapply Single_step; eauto|]. split; [eapply GenOK_step; eauto|]. split; [eapply XpOK_step; eauto|].
  destruct (is_cmd_label l) eqn:Hl.
  - destruct l; try discriminate Hl.
    + eapply R3_fire; eauto.
    + eapply R3_begin; eauto.
    + eapply R3_wake; eauto.
    + eapply R3_ctxret; eauto.
    + eapply R3_exec; eauto.
    + eapply R3_cmdnotify; eauto.
    + eapply R3_ctxend; eauto.
  - eapply R3_seq_step; eauto.
Qed.

Lemma cfindc_In : forall c l x, cfindc c l = Some x -> In x l.
Proof.
  induction l as [|a l IH]; simpl; intros x H; [discriminate|].
  destruct (cm_id a =? c); [injection H as <-; auto | auto].
Qed.

Lemma Inv3_init : forall o eager ds cs cm, cmds_fresh cm = true -> Inv3 (start_state o eager ds cs cm).
Proof.
  intros o eager ds cs cm Hf. split; [apply Single_init|]. split; [apply GenOK_init|]. split; [apply XpOK_init|].
  exists waitmon0. split; [destruct eager; reflexivity|]. split.
  - destruct eager.
    + eapply GlobOK_intro_single; [reflexivity | | | | | |]; cbn; try discriminate; auto. split; [lia | intros H; contradiction].
    + apply GlobOK_intro_nil; [reflexivity | | ]; cbn; try discriminate. split; [lia | intros H; contradiction].
  - intros c x Hx. assert (Hc : cmds (start_state o eager ds cs cm) = cm) by (destruct eager; reflexivity). rewrite Hc in Hx.
    apply cfindc_In in Hx. unfold cmds_fresh in Hf. apply andb_true_iff in Hf. destruct Hf as [_ Hf].
    rewrite forallb_forall in Hf. specialize (Hf _ Hx). unfold CmdRel. cbn [waitmon0 w_cmds kfind w_precancel zmemb].
    destruct (cm_pc x); try discriminate Hf. apply andb_true_iff in Hf. destruct Hf as [Hf H3]. apply andb_true_iff in Hf. destruct Hf as [H1 H2].
    repeat split.
    + destruct (cm_started x); [discriminate | reflexivity].
    + clear - H3. lia.
    + destruct (cm_ctx x); [discriminate | reflexivity].
Qed.

(* cc_connected_needs_client is not needed for this one *)
Theorem conn_commands : forall cfg o eager ds cs cm st,
  cc_spawn_guarded cfg = true -> cc_retry_only_eof cfg = true -> cc_connected_needs_client cfg = true ->
  cmds_fresh cm = true -> reachable cfg o eager ds cs cm st ->
  c15_commands (ctrace st) = true.
Proof.
  intros cfg o eager ds cs cm st Hg Hre _ Hf [ls H].
  assert (HI : Inv3 st).
  { eapply invariant_run with (Inv := Inv3); [|apply Inv3_init; exact Hf|exact H]. intros; eapply Inv3_step; eauto. }
  destruct HI as (_ & _ & _ & m & HM & _). eapply caccepts_run; exact HM.
Qed.


(* ====================================================================== *)
(* why two monitors of Model/ConnProps.v were changed: the definitions as *)
(* they were, and legal schedules of the transition system they reject    *)
(* ====================================================================== *)
Module Orig.
Definition seqmon_step_o (m : seqmon) (e : cev) : option seqmon :=
  if sm_shut m then
    match e with
    | EvDialBegin => if sm_dials_after_shut m <? 1 then Some (mkSM (sm_ph m) (sm_announced_before m) true (sm_dials_after_shut m + 1)) else None
    | EvDisc st =>   (* a command racing with Shutdown started a new sequence: outside the claim about the one shut down *)
        if st =? (if sm_announced_before m then 3 else 2) then Some (mkSM PAnnounced true false 0) else None
    | _ => Some m
    end
  else
    match e with
    | EvShutdown => Some (mkSM (sm_ph m) (sm_announced_before m) true
                               (* a dial already in progress is not "one more" *) 0)
    | EvDisc st =>
        match sm_ph m with
        | PIdle => if st =? (if sm_announced_before m then 3 else 2) then Some (mkSM PAnnounced true false 0) else None
        | _ => None
        end
    | EvDialBegin => match sm_ph m with PAnnounced | PNotified => sm_go m PDialing | _ => None end
    | EvDialEnd o x =>
        match sm_ph m with
        | PDialing => match o with DOk => sm_go m (PDialed x false) | DFail => sm_go m PFailed | DFatal => sm_go m PIdle end
        | _ => None
        end
    | EvRegister x => match sm_ph m with PDialed y _ => if x =? y then sm_go m (PDialed y true) else None | _ => None end
    | EvOnConnect o =>
        match sm_ph m with
        | PDialed x true => match o with OOk => sm_go m (PConnected x) | OFail => sm_go m PFailed | OFatal => sm_go m PIdle end
        | _ => None
        end
    | EvConnErr => match sm_ph m with PFailed => sm_go m PNotified | _ => None end
    | EvFinalize x => match sm_ph m with PConnected y => if x =? y then sm_go m PIdle else None | _ => None end
    | _ => Some m
    end.

Record waitmon_o := mkWM_o { w_fin_o : Z; w_fatal_o : Z; w_shut_o : bool; w_open_fin_o : bool; w_open_fatal_o : bool; w_cmds_o : list cmdmon }.
Definition waitmon0_o : waitmon_o := mkWM_o 0 0 false false false [].
Definition base_fin_o (m : waitmon_o) : Z := if w_open_fin_o m then w_fin_o m - 1 else w_fin_o m.
Definition base_fatal_o (m : waitmon_o) : Z := if w_open_fatal_o m then w_fatal_o m - 1 else w_fatal_o m.

Definition wm_cmds_o (m : waitmon_o) (l : list cmdmon) : waitmon_o := mkWM_o (w_fin_o m) (w_fatal_o m) (w_shut_o m) (w_open_fin_o m) (w_open_fatal_o m) l.

Definition ret_matches_o (m : waitmon_o) (k : cmdmon) (e : cerr) : bool :=
  match k_last k with
  | Some XOk => cerr_eqb e ENone
  | Some XOther => cerr_eqb e EOther
  | Some XRetriable => false                 (* must be retried, not returned *)
  | Some XEof | Some XEofDisc | None =>
      (* waiting for a connection (again) *)
      match e with
      | ECtx => k_cancelled k
      | EConnFatal => k_start_fatal k <? w_fatal_o m
      | ECanceled => w_shut_o m
      | ENone => k_force k && (k_start_fin k <? w_fin_o m)
      | _ => false
      end
  end.

Definition waitmon_step_o (m : waitmon_o) (e : cev) : option waitmon_o :=
  match e with
  | EvFinalize _ => Some (mkWM_o (w_fin_o m + 1) (w_fatal_o m) (w_shut_o m) true (w_open_fatal_o m) (w_cmds_o m))
  | EvDialEnd DFatal _ | EvOnConnect OFatal => Some (mkWM_o (w_fin_o m) (w_fatal_o m + 1) (w_shut_o m) (w_open_fin_o m) true (w_cmds_o m))
  | EvDisc _ => Some (mkWM_o (w_fin_o m) (w_fatal_o m) (w_shut_o m) false false (w_cmds_o m))
  | EvShutdown => Some (mkWM_o (w_fin_o m) (w_fatal_o m) true (w_open_fin_o m) (w_open_fatal_o m) (w_cmds_o m))
  | EvCmdStart c force _ =>
      match kfind c (w_cmds_o m) with
      | Some _ => None
      | None => Some (wm_cmds_o m (mkCM c force 0 None None false false (base_fin_o m) (base_fatal_o m) false :: w_cmds_o m))
      end
  | EvCancel c => Some (wm_cmds_o m (kupdate c (fun k => mkCM (k_id k) (k_force k) (k_execs k) (k_last k) (k_need_fin k) (k_notify_due k) true
                                                             (k_start_fin k) (k_start_fatal k) (k_returned k)) (w_cmds_o m)))
  | EvExec c n o =>
      match kfind c (w_cmds_o m) with
      | Some k =>
          if k_returned k || k_force k || k_notify_due k || negb (n =? k_execs k) || (w_fin_o m <? 1) then None
          else if match k_last k with Some XOk | Some XOther => true | _ => false end then None
          else if match k_need_fin k with Some f => negb (f <? w_fin_o m) | None => false end then None
          else Some (wm_cmds_o m (kupdate c (fun k => mkCM (k_id k) false (k_execs k + 1) (Some o)
                                                         (match o with XEofDisc => Some (w_fin_o m) | _ => None end)
                                                         (match o with XRetriable => true | _ => false end)
                                                         (k_cancelled k) (k_start_fin k) (base_fatal_o m) false) (w_cmds_o m)))
      | None => None
      end
  | EvCmdErr c =>
      match kfind c (w_cmds_o m) with
      | Some k => if k_notify_due k
                  then Some (wm_cmds_o m (kupdate c (fun k => mkCM (k_id k) (k_force k) (k_execs k) None (k_need_fin k) false (k_cancelled k)
                                                                 (k_start_fin k) (k_start_fatal k) (k_returned k)) (w_cmds_o m)))
                  else None
      | None => None
      end
  | EvCmdRet c err =>
      match kfind c (w_cmds_o m) with
      | Some k => if k_returned k || k_notify_due k || negb (ret_matches_o m k err) then None
                  else Some (wm_cmds_o m (kupdate c (fun k => mkCM (k_id k) (k_force k) (k_execs k) (k_last k) (k_need_fin k) false (k_cancelled k)
                                                                 (k_start_fin k) (k_start_fatal k) true) (w_cmds_o m)))
      | None => None
      end
  | _ => Some m
  end.

Definition cfg1 := mkCcfg true true true true true true true true.

(* C14 (b): Shutdown before the eager sequence announced itself; its late announcement switched the original monitor back on
   in phase PAnnounced, and the announcement of the sequence started by a racing command was then rejected *)
Example seqmon_orig_rejects : exists st,
  run (cstep cfg1 (mkCopts false false false)) (cinit_eager (mkCopts false false false) [] [] [new_cmd 1 false false []])
      [LShutdown; LAnnounce 0; LRetryStart 0; LFinish 0; LFire 1; LBegin 1; LAnnounce 1] = Some st /\
  caccepts seqmon_step_o (seqmon0 false) (ctrace st) = false /\ c14_sequences false (ctrace st) = true.
Proof. eexists. split; [vm_compute; reflexivity|]. split; vm_compute; reflexivity. Qed.

(* C15: the caller's context ends before DoCommand starts; the original monitor dropped the EvCancel of an unknown command *)
Example waitmon_orig_rejects_early_cancel : exists st,
  run (cstep cfg1 (mkCopts false false false)) (cinit (mkCopts false false false) [] [] [new_cmd 1 false false []])
      [LCtxEnd 1; LFire 1; LBegin 1; LCtxRet 1] = Some st /\
  caccepts waitmon_step_o waitmon0_o (ctrace st) = false /\ c15_commands (ctrace st) = true.
Proof. eexists. split; [vm_compute; reflexivity|]. split; vm_compute; reflexivity. Qed.

(* C15: the transport dies under a command while the sequence that finalized it is still winding up; the command re-joins
   that sequence, is released by its success and runs again without another Finalize *)
Example waitmon_orig_rejects_rejoin : exists st,
  run (cstep cfg1 (mkCopts false false false)) (cinit_eager (mkCopts false false false) [DOk] [] [new_cmd 1 false false [XEofDisc]])
      [LAnnounce 0; LRetryStart 0; LDialBegin 0; LDialEnd 0; LRegister 0; LOnConnect 0; LPublish 0; LFire 1; LBegin 1; LExec 1;
       LFire 1; LBegin 1; LCheck 0; LFinish 0; LWake 1; LExec 1] = Some st /\
  caccepts waitmon_step_o waitmon0_o (ctrace st) = false /\ c15_commands (ctrace st) = true.
Proof. eexists. split; [vm_compute; reflexivity|]. split; vm_compute; reflexivity. Qed.
End Orig.

(* ---------- witnesses ---------- *)
Theorem conn_unguarded_refuted : exists cfg o ds cs cm ls st,
  cc_spawn_guarded cfg = false /\ cmds_fresh cm = true /\
  run (cstep cfg o) (cinit o ds cs cm) ls = Some st /\ c14_one_dial (ctrace st) = false.
Proof.
  exists (mkCcfg false true true true true true true true), (mkCopts false false false), [], [],
    [new_cmd 1 false false []; new_cmd 2 false false []],
    [LFire 1; LBegin 1; LFire 2; LBegin 2; LAnnounce 0; LAnnounce 1; LRetryStart 0; LRetryStart 1; LDialBegin 0; LDialBegin 1].
  eexists. split; [reflexivity|]. split; [reflexivity|]. split; [vm_compute; reflexivity|]. vm_compute. reflexivity.
Qed.

Theorem conn_firenow_lost_refuted : exists o ds cs cm ls st,
  cmds_fresh cm = true /\
  run (cstep (mkCcfg true true true true true true true false) o) (cinit o ds cs cm) ls = Some st /\ c16_delay false (ctrace st) = false.
Proof.
  exists (mkCopts false true false), [], [], [new_cmd 1 false true []],
    [LFire 1; LBegin 1; LAnnounce 0; LTimerStart 0; LTimerElapse].
  eexists. split; [reflexivity|]. split; [vm_compute; reflexivity|]. vm_compute. reflexivity.
Qed.

Example conn_example : exists ls st, run (cstep (mkCcfg true true true true true true true true) (mkCopts false true false))
   (cinit (mkCopts false true false) [DFail] [] [new_cmd 1 false true [XEofDisc]]) ls = Some st /\ (length ls >= 30)%nat.
Proof.
  exists [LFire 1; LBegin 1; LAnnounce 0; LTimerStart 0; LDelayDone 0; LRetryStart 0; LDialBegin 0; LDialEnd 0; LCheck 0;
          LNotify 0; LBackoffEnd 0; LDialBegin 0; LDialEnd 0; LRegister 0; LOnConnect 0; LPublish 0; LCheck 0; LFinish 0;
          LWake 1; LExec 1; LFire 1; LBegin 1; LAnnounce 1;LRetryStart 1; LDialBegin 1; LDialEnd 1; LRegister 1;
          LOnConnect 1; LPublish 1; LCheck 1; LFinish 1; LWake 1; LExec 1].
  eexists. split; [vm_compute; reflexivity|]. simpl. lia.
Qed.

Print Assumptions conn_one_dial.
Print Assumptions conn_sequences.
Print Assumptions conn_commands.
Print Assumptions conn_delay.
Print Assumptions conn_outcome_functional.
Print Assumptions conn_outcome_stable.
Print Assumptions conn_shutdown_terminates.
Print Assumptions conn_unguarded_refuted.
Print Assumptions conn_firenow_lost_refuted.
Print Assumptions conn_example.
Print Assumptions Orig.seqmon_orig_rejects.
Print Assumptions Orig.waitmon_orig_rejects_early_cancel.
Print Assumptions Orig.waitmon_orig_rejects_rejoin.
