From FMP Require Import Model.GenTypes Model.Generated Model.Skeleton Model.Tags Model.TagsCfg.
Lemma tcfg_generated_ok : tcfg_now = expected_tcfg.
Proof. vm_compute. reflexivity. Qed.
