(* Lemmas about Model/Frame.v : exact wire layout, acceptance of every legal encoding, exact consumption,
   resynchronisation, fail-closed prefixes. *)
From Coq Require Import ZifyBool ZifyNat ZifyN.
From FMP Require Import Base.Bytes Model.Generated Model.Msgpack Model.Frame Proofs.MsgpackProofs.
Open Scope list_scope.
Open Scope N_scope.

Ltac Zify.zify_post_hook ::= Z.div_mod_to_equations.

Definition is_int_lead (b : N) : bool := (b <=? 0x7f) || (0xe0 <=? b) || ((0xcc <=? b) && (b <=? 0xd3)).

(* ------------------------------------------------------------------ *)
(* wire layout (encode side) *)
Lemma enc_int_0 : enc_int 0 = [0]. Proof. reflexivity. Qed.
Lemma enc_int_1 : enc_int 1 = [1]. Proof. reflexivity. Qed.
Lemma enc_int_2 : enc_int 2 = [2]. Proof. reflexivity. Qed.
Lemma enc_int_3 : enc_int 3 = [3]. Proof. reflexivity. Qed.
Lemma enc_int_4 : enc_int 4 = [4]. Proof. reflexivity. Qed.

Lemma enc_arr_hdr_small : forall n, n < 16 -> enc_arr_hdr n = [0x90 + n].
Proof. intros n H. unfold enc_arr_hdr. destruct (N.ltb_spec n 16); [reflexivity|lia]. Qed.

Lemma len_opt_tags : forall t, len (opt_tags t) <= 1.
Proof. intros [v|]; cbn [opt_tags]; rewrite ?len_cons, ?len_nil; lia. Qed.

Theorem frame_layout_exact : forall m, enc (frame_val m) = spec_bytes m.
Proof.
  intros m. destruct m as [q me a t|q c me a t|q er r|me a t|q me];
    cbn [frame_val spec_bytes]; rewrite enc_arr_eq.
  - assert (T := len_opt_tags t).
    rewrite len_app, !len_cons, len_nil, enc_arr_hdr_small by lia.
    rewrite flat_map_app. cbn [flat_map enc app].
    unfold method_call. rewrite enc_int_0. cbn [app].
    rewrite <- !app_assoc. cbn [app].
    f_equal. lia.
  - assert (T := len_opt_tags t).
    rewrite len_app, !len_cons, len_nil, enc_arr_hdr_small by lia.
    rewrite flat_map_app. cbn [flat_map enc app].
    unfold method_call_compressed. rewrite enc_int_4. cbn [app].
    rewrite <- !app_assoc. cbn [app].
    f_equal. lia.
  - rewrite !len_cons, len_nil, enc_arr_hdr_small by lia.
    cbn [flat_map enc app]. unfold method_response. rewrite enc_int_1. cbn [app].
    rewrite ?app_nil_r. reflexivity.
  - assert (T := len_opt_tags t).
    rewrite len_app, !len_cons, len_nil, enc_arr_hdr_small by lia.
    rewrite flat_map_app. cbn [flat_map enc app].
    unfold method_notify. rewrite enc_int_2. cbn [app].
    rewrite <- !app_assoc. cbn [app].
    f_equal. lia.
  - rewrite !len_cons, len_nil, enc_arr_hdr_small by lia.
    cbn [flat_map enc app]. unfold method_cancel. rewrite enc_int_3. cbn [app].
    rewrite ?app_nil_r. reflexivity.
Qed.

Theorem encode_frame_exact : forall max m,
    (Z.of_N (len (spec_bytes m)) <= max)%Z ->
    encode_frame max m = Some (enc_int (Z.of_N (len (spec_bytes m))) ++ spec_bytes m).
Proof.
  intros max m H. unfold encode_frame, encode_value. rewrite frame_layout_exact.
  destruct (Z.ltb_spec max (Z.of_N (len (spec_bytes m)))); [lia|reflexivity].
Qed.

Theorem encode_frame_refuses : forall max m,
    (max < Z.of_N (len (enc (frame_val m))))%Z -> encode_frame max m = None.
Proof.
  intros max m H. unfold encode_frame, encode_value.
  destruct (Z.ltb_spec max (Z.of_N (len (enc (frame_val m))))); [reflexivity|lia].
Qed.

(* ------------------------------------------------------------------ *)
(* next_frame, reorganised *)
Definition body_outcome (e : denv) (content : bytes) : outcome :=
  match content with
  | [] => OErr ETrunc
  | nb :: c => if (nb <? 0x91) || (0x9f <? nb) then OErr EPktHdr else decode_content e (Z.of_N (nb - 0x90)) c
  end.

Definition trunc_outcome (e : denv) (r : bytes) : outcome :=
  match r with
  | [] => OErr ETrunc
  | nb :: c =>
      if (nb <? 0x91) || (0x9f <? nb) then OErr EPktHdr
      else match decode_content e (Z.of_N (nb - 0x90)) c with
           | OErr EDecode => OErr EDecode
           | OUnspec => OUnspec
           | _ => OErr ETrunc
           end
  end.

Definition after_len (e : denv) (max l : Z) (r : bytes) : outcome * bytes :=
  if (l <=? 0)%Z then (OErr EPktLen, r)
  else if (max <? l)%Z then (OErr EPktLen, r)
  else match take r (Z.to_N l) with
       | None => (trunc_outcome e r, [])
       | Some (content, rest) => (body_outcome e content, rest)
       end.

Lemma next_frame_cons : forall e max b s,
  next_frame e max (b :: s) =
  match dec_int32 (b :: s) with
  | I32Short => (OErr EPrefixTrunc, [])
  | I32Bad _ => (OErr EPrefixBad, s)
  | I32Overflow => (OErr EPrefixBad, match dec_int64 (b :: s) with DOk _ r => r | _ => [] end)
  | I32 l r => after_len e max l r
  end.
Proof.
  intros e max b s. unfold next_frame, after_len.
  destruct (dec_int32 (b :: s)) as [l r| | |b0]; try reflexivity.
  destruct (l <=? 0)%Z; [reflexivity|].
  destruct (max <? l)%Z; [reflexivity|].
  destruct (take r (Z.to_N l)) as [[content rest]|].
  - destruct content as [|nb c]; [reflexivity|].
    cbn [body_outcome]. destruct ((nb <? 145) || (159 <? nb)); reflexivity.
  - destruct r as [|nb c]; [reflexivity|].
    cbn [trunc_outcome]. destruct ((nb <? 145) || (159 <? nb)); [reflexivity|].
    destruct (decode_content e (Z.of_N (nb - 144)) c) as [| | | | | | | |er|]; try reflexivity.
    destruct er; reflexivity.
Qed.

Lemma trunc_outcome_fatal : forall e r,
  continues (trunc_outcome e r) = false /\ trunc_outcome e r <> OErr EEOF.
Proof.
  intros e [|nb c]; cbn [trunc_outcome]; [split; [reflexivity|discriminate]|].
  destruct ((nb <? 145) || (159 <? nb)); [split; [reflexivity|discriminate]|].
  destruct (decode_content e (Z.of_N (nb - 144)) c) as [| | | | | | | |er|];
    try (split; [reflexivity|discriminate]).
  destruct er; split; (reflexivity || discriminate).
Qed.

Lemma int_opts_cons : forall z p, (- two63z <= z < two64z)%Z -> In p (int_opts z) ->
  exists b p', p = b :: p'.
Proof.
  intros z p R H. destruct (int_opts_spec z p R H) as [b [o' [E _]]]. now exists b, o'.
Qed.

Lemma int_opts_nonempty_elt : forall z p, (- two63z <= z < two64z)%Z -> In p (int_opts z) -> p <> [].
Proof.
  intros z p R H. destruct (int_opts_cons z p R H) as [b [p' E]]. subst p. discriminate.
Qed.

Lemma wrap64_small : forall z, (z < two63z)%Z -> wrap64 z = z.
Proof. intros z H. unfold wrap64. destruct (Z.ltb_spec z two63z); [reflexivity|lia]. Qed.

(* a length prefix that fits int32 *)
Lemma next_frame_int32 : forall e max z p s,
  (-2147483648 <= z <= 2147483647)%Z -> In p (int_opts z) ->
  next_frame e max (p ++ s) = after_len e max z s.
Proof.
  intros e max z p s R H.
  assert (R' : (- two63z <= z < two64z)%Z) by (unfold two63z, two64z; lia).
  destruct (int_opts_cons z p R' H) as [b [p' E]].
  pose proof (dec_int64_opts z p s R' H) as D.
  rewrite wrap64_small in D by (unfold two63z; lia).
  subst p. cbn [app] in *. rewrite next_frame_cons. unfold dec_int32. rewrite D.
  destruct (Z.leb_spec (-2147483648) z); [|lia].
  destruct (Z.leb_spec z 2147483647); [|lia]. reflexivity.
Qed.

Lemma after_len_body : forall e max L content rest,
  (0 < L <= max)%Z -> len content = Z.to_N L ->
  after_len e max L (content ++ rest) = (body_outcome e content, rest).
Proof.
  intros e max L content rest HL HC. unfold after_len.
  destruct (Z.leb_spec L 0); [lia|].
  destruct (Z.ltb_spec max L); [lia|].
  rewrite <- HC, take_app. reflexivity.
Qed.

Lemma frame_step : forall e max L p content rest,
  (0 < L <= max)%Z -> (max <= 2147483647)%Z -> In p (int_opts L) -> len content = Z.to_N L ->
  next_frame e max (p ++ content ++ rest) = (body_outcome e content, rest).
Proof.
  intros e max L p content rest HL HM HP HC.
  rewrite (next_frame_int32 e max L) by (assumption || lia).
  now apply after_len_body.
Qed.

(* ------------------------------------------------------------------ *)
(* exact consumption and resynchronisation *)
Theorem exact_consumption : forall e max L p content rest,
    (0 < L <= max)%Z -> (max <= 2147483647)%Z -> In p (int_opts L) -> len content = Z.to_N L ->
    snd (next_frame e max (p ++ content ++ rest)) = rest.
Proof.
  intros e max L p content rest HL HM HP HC.
  rewrite (frame_step e max L) by assumption. reflexivity.
Qed.

Theorem outcome_is_local : forall e max L p content rest rest',
    (0 < L <= max)%Z -> (max <= 2147483647)%Z -> In p (int_opts L) -> len content = Z.to_N L ->
    fst (next_frame e max (p ++ content ++ rest)) = fst (next_frame e max (p ++ content ++ rest')).
Proof.
  intros e max L p content rest rest' HL HM HP HC.
  rewrite !(frame_step e max L) by assumption. reflexivity.
Qed.

Theorem resync_step : forall fuel e max L p content rest,
    (0 < L <= max)%Z -> (max <= 2147483647)%Z -> In p (int_opts L) -> len content = Z.to_N L ->
    run_frames (S fuel) e max (p ++ content ++ rest) =
      (let o := fst (next_frame e max (p ++ content)) in
       if continues o then o :: run_frames fuel e max rest else [o]).
Proof.
  intros fuel e max L p content rest HL HM HP HC.
  cbn [run_frames]. rewrite (frame_step e max L) by assumption.
  replace (p ++ content) with (p ++ content ++ []) by now rewrite app_nil_r.
  rewrite (frame_step e max L) by assumption. reflexivity.
Qed.

(* ------------------------------------------------------------------ *)
(* fail closed *)
Definition noeof (o : outcome) : Prop := o <> OErr EEOF.

Lemma lift_noeof : forall A (d : dres A) (k : A -> bytes -> outcome) bad uns,
  (forall v r, noeof (k v r)) -> noeof bad -> noeof uns -> noeof (lift d k bad uns).
Proof. intros A d k bad uns Hk Hb Hu. destruct d; cbn [lift]; auto. Qed.

(* the nil test that dec_tags / dec_tag_pairs do by pattern matching on the literal 0xc0 *)
Definition nilkey (bs : bytes) : bool := match bs with b :: _ => b =? 0xc0 | [] => false end.

Ltac pos_cases p := repeat first [ reflexivity | destruct p as [p|p|] ].

Lemma dec_tags_eq : forall x c k,
  dec_tags x c k =
  if (x <=? 0)%Z then k None else
  if nilkey c then k (Some (VMap [])) else
  match tag_map_header c with
  | None => OErr EDecode
  | Some (n, r1) =>
      match dec_tag_pairs (S (length r1)) n r1 with
      | DOk l _ => k (Some (VMap l))
      | DUnspec => OUnspec
      | _ => OErr EDecode
      end
  end.
Proof.
  intros x c k. unfold dec_tags. destruct (x <=? 0)%Z; [reflexivity|].
  destruct c as [|b r]; [reflexivity|].
  unfold nilkey. destruct b as [|p]; [reflexivity|]. pos_cases p.
Qed.

Lemma dec_tag_pairs_eq : forall f n bs,
  dec_tag_pairs (S f) n bs =
  if n =? 0 then DOk [] bs else
  match dec_string bs with
  | DOk ks r =>
      if nilkey bs then DBad 0xc0 else
      match decode r with
      | DOk v r1 =>
          match dec_tag_pairs f (n - 1) r1 with
          | DOk l r' => DOk ((VStr ks, v) :: l) r'
          | DShort => DShort | DBad b => DBad b | DUnspec => DUnspec | DFuel => DFuel
          end
      | DShort => DShort | DBad b => DBad b | DUnspec => DUnspec | DFuel => DFuel
      end
  | DShort => DShort | DBad b => DBad b | DUnspec => DUnspec | DFuel => DFuel
  end.
Proof.
  intros f n bs. cbn [dec_tag_pairs]. destruct (n =? 0); [reflexivity|].
  destruct (dec_string bs) as [ks r| | | |]; try reflexivity.
  destruct bs as [|b r0]; [reflexivity|].
  unfold nilkey. destruct b as [|p]; [reflexivity|]. pos_cases p.
Qed.

Lemma dec_tag_pairs_zero : forall f bs, dec_tag_pairs f 0 bs = DOk [] bs.
Proof. intros [|f] bs; reflexivity. Qed.

Lemma dec_tags_noeof : forall x c k, (forall t, noeof (k t)) -> noeof (dec_tags x c k).
Proof.
  intros x c k Hk. rewrite dec_tags_eq. destruct (x <=? 0)%Z; [apply Hk|].
  destruct (nilkey c); [apply Hk|].
  destruct (tag_map_header c) as [[n r1]|]; [|unfold noeof; discriminate].
  destruct (dec_tag_pairs (S (length r1)) n r1) as [l r| | | |]; try (unfold noeof; discriminate).
  apply Hk.
Qed.

Lemma dec_compressed_noeof : forall e c k, (forall v r, noeof (k v r)) -> noeof (dec_compressed e c k).
Proof.
  intros e c k Hk. unfold dec_compressed.
  apply lift_noeof; try (unfold noeof; discriminate).
  intros payload r. destruct payload as [|b0 pl]; [apply Hk|].
  destruct (assoc_bytes (b0 :: pl) (inflated e)) as [[plain|]|]; try (unfold noeof; discriminate).
  destruct (decode plain) as [v r0| | | |]; try (unfold noeof; discriminate). apply Hk.
Qed.

Ltac noeof_step :=
  first
    [ apply lift_noeof
    | apply dec_tags_noeof
    | apply dec_compressed_noeof
    | match goal with |- noeof (if ?c then _ else _) => destruct c end
    | match goal with |- noeof (match ?x with _ => _ end) => destruct x end
    | match goal with |- forall _, _ => intro end
    | (unfold noeof; discriminate) ].

Lemma decode_content_noeof : forall e n c, noeof (decode_content e n c).
Proof.
  intros e n c. unfold decode_content. cbv zeta.
  repeat noeof_step.
Qed.

Lemma body_outcome_noeof : forall e content, noeof (body_outcome e content).
Proof.
  intros e [|nb c]; cbn [body_outcome]; [unfold noeof; discriminate|].
  destruct ((nb <? 145) || (159 <? nb)); [unfold noeof; discriminate|apply decode_content_noeof].
Qed.

Theorem eof_only_at_boundary : forall e max s, fst (next_frame e max s) = OErr EEOF <-> s = [].
Proof.
  intros e max s. split.
  - destruct s as [|b s]; [reflexivity|]. intros H. exfalso.
    rewrite next_frame_cons in H.
    destruct (dec_int32 (b :: s)) as [l r| | |b0]; cbn [fst] in H; try discriminate.
    unfold after_len in H.
    destruct (l <=? 0)%Z; [discriminate|].
    destruct (max <? l)%Z; [discriminate|].
    destruct (take r (Z.to_N l)) as [[content rest]|]; cbn [fst] in H.
    + now apply (body_outcome_noeof e content).
    + now apply (trunc_outcome_fatal e r).
  - intros ->. reflexivity.
Qed.

Theorem bad_length_stops_before_payload : forall e max z p rest,
    (z <= 0 \/ max < z)%Z -> (-2147483648 <= z <= 2147483647)%Z -> In p (int_opts z) ->
    next_frame e max (p ++ rest) = (OErr EPktLen, rest).
Proof.
  intros e max z p rest HZ HR HP. rewrite (next_frame_int32 e max z) by assumption.
  unfold after_len. destruct (Z.leb_spec z 0); [reflexivity|].
  destruct (Z.ltb_spec max z); [reflexivity|lia].
Qed.

Lemma wrap64_cases : forall z, (- two63z <= z < two64z)%Z ->
  (z < two63z /\ wrap64 z = z)%Z \/ (two63z <= z /\ wrap64 z = z - two64z)%Z.
Proof.
  intros z R. unfold wrap64. destruct (Z.ltb_spec z two63z); [left|right]; split; (assumption || reflexivity).
Qed.

Theorem out_of_range_length_stops_before_payload : forall e max z p rest,
    (z < -2147483648 \/ 2147483647 < z)%Z -> (- two63z <= z < two64z)%Z -> In p (int_opts z) ->
    (0 < max)%Z ->
    exists c, (c = EPrefixBad \/ c = EPktLen) /\ next_frame e max (p ++ rest) = (OErr c, rest).
Proof.
  intros e max z p rest HZ HR HP HM.
  destruct (int_opts_cons z p HR HP) as [b [p' E]].
  pose proof (dec_int64_opts z p rest HR HP) as D.
  subst p. cbn [app] in *. rewrite next_frame_cons. unfold dec_int32. rewrite D.
  generalize (wrap64_cases z HR). generalize (wrap64 z). intros w Hw.
  destruct (Z.leb_spec (-2147483648) w) as [C1|C1]; cbn [andb].
  - destruct (Z.leb_spec w 2147483647) as [C2|C2].
    + exists EPktLen. split; [now right|]. unfold after_len.
      destruct (Z.leb_spec w 0); [reflexivity|]. exfalso. unfold two63z, two64z in Hw, HR. lia.
    + exists EPrefixBad. split; [now left|reflexivity].
  - exists EPrefixBad. split; [now left|reflexivity].
Qed.

Theorem nil_length_stops_before_payload : forall e max rest,
    next_frame e max (0xc0 :: rest) = (OErr EPktLen, rest).
Proof. intros e max rest. reflexivity. Qed.

Theorem non_integer_prefix_stops : forall e max b rest,
    is_int_lead b = false -> b <> 0xc0 -> next_frame e max (b :: rest) = (OErr EPrefixBad, rest).
Proof.
  intros e max b rest HI HB. rewrite next_frame_cons. unfold dec_int32, dec_int64.
  destruct (N.eqb_spec b 192) as [X|_]; [contradiction|].
  unfold is_int_lead in HI. rewrite HI. reflexivity.
Qed.

Lemma take_short : forall bs n, len bs < n -> take bs n = None.
Proof.
  intros bs n H. destruct (take bs n) as [[a c]|] eqn:T; [|reflexivity].
  apply take_spec in T. destruct T as [T1 [T2 _]]. subst bs. rewrite len_app in H. lia.
Qed.

Theorem truncated_body_not_eof : forall e max L p content,
    (0 < L <= max)%Z -> (max <= 2147483647)%Z -> In p (int_opts L) -> len content < Z.to_N L ->
    exists o, next_frame e max (p ++ content) = (o, []) /\ continues o = false /\ o <> OErr EEOF.
Proof.
  intros e max L p content HL HM HP HC.
  exists (trunc_outcome e content). split; [|apply trunc_outcome_fatal].
  rewrite (next_frame_int32 e max L) by (assumption || lia).
  unfold after_len.
  destruct (Z.leb_spec L 0); [lia|].
  destruct (Z.ltb_spec max L); [lia|].
  rewrite take_short by assumption. reflexivity.
Qed.

Theorem bad_header_is_fatal : forall e max L p nb c rest,
    (0 < L <= max)%Z -> (max <= 2147483647)%Z -> In p (int_opts L) -> len (nb :: c) = Z.to_N L ->
    (nb < 0x91 \/ 0x9f < nb) ->
    next_frame e max (p ++ (nb :: c) ++ rest) = (OErr EPktHdr, rest).
Proof.
  intros e max L p nb c rest HL HM HP HC HB.
  rewrite (frame_step e max L) by assumption. cbn [body_outcome].
  destruct (N.ltb_spec nb 145); [reflexivity|].
  destruct (N.ltb_spec 159 nb); [reflexivity|lia].
Qed.

(* ------------------------------------------------------------------ *)
(* every legal encoding is decoded to the same message *)
Lemma alt_list_nil : forall ch, fst (Frame.enc_alt_list ch []) = [].
Proof. reflexivity. Qed.

Lemma alt_list_cons : forall ch x r,
  fst (Frame.enc_alt_list ch (x :: r)) =
  fst (enc_alt ch x) ++ fst (Frame.enc_alt_list (snd (enc_alt ch x)) r).
Proof.
  intros ch x r. cbn [Frame.enc_alt_list].
  destruct (enc_alt ch x) as [bx ch1]. cbn [fst snd].
  destruct (Frame.enc_alt_list ch1 r) as [br ch2]. reflexivity.
Qed.

Lemma alt_int_in : forall ch z, (- two63z <= z < two64z)%Z -> In (fst (enc_alt ch (VInt z))) (int_opts z).
Proof.
  intros ch z R. rewrite enc_alt_int. destruct (take_choice ch) as [k ch']. cbn [fst].
  apply pick_in. now apply int_opts_nonempty.
Qed.

Lemma alt_int : forall ch z rest, (- two63z <= z < two63z)%Z ->
  dec_int64 (fst (enc_alt ch (VInt z)) ++ rest) = DOk z rest.
Proof.
  intros ch z rest R.
  assert (R' : (- two63z <= z < two64z)%Z) by (unfold two63z, two64z in *; lia).
  rewrite (dec_int64_opts z) by (assumption || now apply alt_int_in).
  rewrite wrap64_small by lia. reflexivity.
Qed.

Lemma alt_str : forall ch s rest, wf_val (VStr s) = true ->
  dec_string (fst (enc_alt ch (VStr s)) ++ rest) = DOk s rest.
Proof.
  intros ch s rest W. cbn [wf_val] in W. apply andb_prop in W. destruct W as [W1 W2].
  apply N.ltb_lt in W2.
  rewrite enc_alt_str. destruct (take_choice ch) as [k ch']. cbn [fst].
  rewrite <- app_assoc. apply dec_string_opts; [assumption|].
  apply pick_in. eapply in_nonempty. now apply enc_str_hdr_in.
Qed.

Lemma lift_ok : forall A B (v : A) r (k : A -> bytes -> B) bad uns, lift (DOk v r) k bad uns = k v r.
Proof. reflexivity. Qed.

Lemma wf_seq_range : forall q, wf_seq q = true -> (- two63z <= q < two63z)%Z.
Proof. intros q H. unfold wf_seq in H. lia. Qed.

Lemma alt_pairs_cons : forall a b r ch,
  fst (enc_alt_pairs ((a, b) :: r) ch) =
  fst (enc_alt ch a) ++ fst (enc_alt (snd (enc_alt ch a)) b)
    ++ fst (enc_alt_pairs r (snd (enc_alt (snd (enc_alt ch a)) b))).
Proof.
  intros a b r ch. cbn [enc_alt_pairs].
  destruct (enc_alt ch a) as [ba ch1]. cbn [fst snd].
  destruct (enc_alt ch1 b) as [bb ch2]. cbn [fst snd].
  destruct (enc_alt_pairs r ch2) as [br ch3]. reflexivity.
Qed.

Lemma alt_nonempty : forall v ch, wf_val v = true -> (1 <= length (fst (enc_alt ch v)))%nat.
Proof.
  intros v ch W. destruct (alt_good v W ch) as [G _]. assert (S := sz_pos v). lia.
Qed.

Lemma alt_str_nilkey : forall ch s rest, wf_val (VStr s) = true ->
  nilkey (fst (enc_alt ch (VStr s)) ++ rest) = false.
Proof.
  intros ch s rest W. cbn [wf_val] in W. apply andb_prop in W. destruct W as [_ W2].
  apply N.ltb_lt in W2.
  rewrite enc_alt_str. destruct (take_choice ch) as [k ch']. cbn [fst].
  assert (H : In (pick k (str_hdr_opts (len s)) (enc_str_hdr (len s))) (str_hdr_opts (len s))).
  { apply pick_in. eapply in_nonempty. now apply enc_str_hdr_in. }
  destruct (str_hdr_spec _ _ H) as [b [h' [E [B1 _]]]]. rewrite E. cbn [app nilkey].
  destruct (N.eqb_spec b 192); [contradiction|reflexivity].
Qed.

Definition str_key (kv : mval * mval) : bool := match fst kv with VStr _ => true | _ => false end.

Lemma tag_pairs_alt : forall l,
  forallb str_key l = true ->
  forallb (fun kv => wf_val (fst kv) && wf_val (snd kv)) l = true ->
  forall ch rest f, (length l <= f)%nat ->
  dec_tag_pairs f (len l) (fst (enc_alt_pairs l ch) ++ rest) = DOk l rest.
Proof.
  induction l as [|[a b] l IH]; intros HK HW ch rest f Hf.
  - rewrite len_nil. apply dec_tag_pairs_zero.
  - cbn [forallb] in HK, HW. apply andb_prop in HK. destruct HK as [Ka Kl].
    apply andb_prop in HW. destruct HW as [Wab Wl]. cbn [fst snd] in Wab.
    apply andb_prop in Wab. destruct Wab as [Wa Wb].
    unfold str_key in Ka. cbn [fst] in Ka. destruct a as [| | |s| | | |]; try discriminate.
    destruct f as [|f]; [cbn [length] in Hf; lia|].
    rewrite dec_tag_pairs_eq, len_cons.
    destruct (N.eqb_spec (N.succ (len l)) 0) as [E|_]; [lia|].
    rewrite alt_pairs_cons, <- !app_assoc.
    rewrite alt_str, alt_str_nilkey by assumption.
    rewrite mp_roundtrip by assumption.
    replace (N.succ (len l) - 1) with (len l) by lia.
    rewrite IH; [reflexivity|assumption|assumption|cbn [length] in Hf; lia].
Qed.

Lemma alt_pairs_length : forall l,
  forallb (fun kv => wf_val (fst kv) && wf_val (snd kv)) l = true ->
  forall ch, (length l <= length (fst (enc_alt_pairs l ch)))%nat.
Proof.
  induction l as [|[a b] l IH]; intros HW ch; [cbn [length]; lia|].
  cbn [forallb] in HW. apply andb_prop in HW. destruct HW as [Wab Wl]. cbn [fst snd] in Wab.
  apply andb_prop in Wab. destruct Wab as [Wa Wb].
  rewrite alt_pairs_cons, !app_length. cbn [length].
  assert (A := alt_nonempty a ch Wa).
  specialize (IH Wl (snd (enc_alt (snd (enc_alt ch a)) b))). lia.
Qed.

Lemma tag_map_header_alt : forall n h rest, In h (map_hdr_opts n) ->
  nilkey (h ++ rest) = false /\ tag_map_header (h ++ rest) = Some (n, rest).
Proof.
  intros n h rest H. unfold map_hdr_opts, two32 in H. split_opts H; cond_case H C.
  - assert (U : n < 16) by lia. cbn [app nilkey]. unfold tag_map_header.
    destruct (N.eqb_spec (128 + n) 192); [lia|].
    destruct (N.eqb_spec (128 + n) 0); [lia|].
    destruct (N.eqb_spec (128 + n) 222); [lia|].
    destruct (N.eqb_spec (128 + n) 223); [lia|].
    destruct (N.leb_spec 128 (128 + n)); [|lia].
    split; [reflexivity|]. do 2 f_equal. lia.
  - cbn [app nilkey]. split; [reflexivity|]. unfold tag_map_header.
    change (222 =? 0) with false. change (222 =? 222) with true. cbv iota.
    apply read_be_2. lia.
  - cbn [app nilkey]. split; [reflexivity|]. unfold tag_map_header.
    change (223 =? 0) with false. change (223 =? 222) with false. change (223 =? 223) with true. cbv iota.
    apply read_be_4. lia.
Qed.

Lemma alt_map_fst : forall ch l, len l < two32 ->
  exists h ch', In h (map_hdr_opts (len l)) /\ fst (enc_alt ch (VMap l)) = h ++ fst (enc_alt_pairs l ch').
Proof.
  intros ch l H. rewrite enc_alt_map. destruct (take_choice ch) as [k ch'].
  exists (pick k (map_hdr_opts (len l)) (enc_map_hdr (len l))), ch'.
  split; [apply pick_in; eapply in_nonempty; now apply enc_map_hdr_in|].
  destruct (enc_alt_pairs l ch') as [body ch'']. reflexivity.
Qed.

Lemma dec_tags_legal : forall t extra ch n k,
  tags_ok t = true -> forallb wf_val (opt_tags t) = true -> (t = None -> extra = []) ->
  n = Z.of_N (len (opt_tags t ++ extra)) ->
  dec_tags n (fst (Frame.enc_alt_list ch (opt_tags t ++ extra))) k = k t.
Proof.
  intros t extra ch n k HT HW HX HN. rewrite dec_tags_eq. destruct t as [v|].
  - cbn [opt_tags app] in *. rewrite len_cons in HN.
    destruct (Z.leb_spec n 0); [lia|].
    cbn [forallb] in HW. apply andb_prop in HW. destruct HW as [HW _].
    destruct v as [| | | | | | |l]; try discriminate. cbn [tags_ok] in HT.
    cbn [wf_val] in HW. apply andb_prop in HW. destruct HW as [W1 W2]. apply N.ltb_lt in W1.
    rewrite alt_list_cons.
    destruct (alt_map_fst ch l W1) as [h [ch' [Hh Eh]]]. rewrite Eh, <- !app_assoc.
    destruct (tag_map_header_alt (len l) h
                (fst (enc_alt_pairs l ch') ++ fst (Frame.enc_alt_list (snd (enc_alt ch (VMap l))) extra)) Hh)
      as [N1 N2].
    rewrite N1, N2.
    rewrite tag_pairs_alt; [reflexivity|exact HT|exact W2|].
    rewrite app_length. assert (A := alt_pairs_length l W2 ch'). lia.
  - rewrite (HX eq_refl) in HN. cbn [opt_tags app] in HN. rewrite len_nil in HN.
    destruct (Z.leb_spec n 0); [reflexivity|lia].
Qed.

Ltac zeq :=
  repeat match goal with
         | |- context [Z.eqb ?a ?b] =>
             let v := eval vm_compute in (Z.eqb a b) in
             match v with
             | true => change (Z.eqb a b) with true
             | false => change (Z.eqb a b) with false
             end
         end.

Ltac lift_step := rewrite lift_ok; cbv beta.

Lemma extras_none : forall m extra, extras_ok m extra = true ->
  match m with
  | MCall _ _ _ None | MCallC _ _ _ _ None | MNotify _ _ None => extra = []
  | _ => True
  end.
Proof.
  intros m extra H. destruct extra as [|x extra].
  - destruct m as [q me a [t|]|q c me a [t|]|q er r|me a [t|]|q me]; auto.
  - destruct m as [q me a [t|]|q c me a [t|]|q er r|me a [t|]|q me]; auto; discriminate H.
Qed.

Lemma legal_call : forall e q me a t extra ch,
  wf_msg (MCall q me a t) = true -> extras_ok (MCall q me a t) extra = true ->
  env_accepts e (MCall q me a t) = true ->
  decode_content e (Z.of_N (len (frame_elems (MCall q me a t) ++ extra)))
    (fst (Frame.enc_alt_list ch (frame_elems (MCall q me a t) ++ extra))) = OCall q me a t.
Proof.
  intros e q me a t extra ch HW HX HE.
  cbn [wf_msg] in HW.
  apply andb_prop in HW. destruct HW as [HW Wt].
  apply andb_prop in HW. destruct HW as [HW Tt].
  apply andb_prop in HW. destruct HW as [HW Wa].
  apply andb_prop in HW. destruct HW as [Wq Wme].
  apply wf_seq_range in Wq.
  cbn [env_accepts] in HE. destruct (find_method e me) as [k0|] eqn:FM; [discriminate|].
  assert (HX' : t = None -> extra = []).
  { intros ->. exact (extras_none _ _ HX). }
  change (frame_elems (MCall q me a t)) with ([VInt method_call; VInt q; VStr me; a] ++ opt_tags t).
  rewrite <- app_assoc. cbn [app]. rewrite !alt_list_cons, !len_cons.
  unfold decode_content.
  rewrite alt_int by (unfold method_call, two63z; lia). lift_step. zeq. cbv iota.
  match goal with |- context [Z.ltb ?x ?y] => destruct (Z.ltb_spec x y) as [X|_]; [unfold minlen_call in X; lia|] end.
  rewrite alt_int by assumption. lift_step.
  rewrite alt_str by assumption. lift_step.
  rewrite FM.
  rewrite mp_roundtrip by assumption. lift_step.
  apply dec_tags_legal; try assumption. unfold minlen_call. lia.
Qed.

Lemma legal_callc : forall e q c me a t extra ch,
  wf_msg (MCallC q c me a t) = true -> extras_ok (MCallC q c me a t) extra = true ->
  env_accepts e (MCallC q c me a t) = true ->
  decode_content e (Z.of_N (len (frame_elems (MCallC q c me a t) ++ extra)))
    (fst (Frame.enc_alt_list ch (frame_elems (MCallC q c me a t) ++ extra))) = OCallC q c me a t.
Proof.
  intros e q c me a t extra ch HW HX HE.
  cbn [wf_msg] in HW.
  apply andb_prop in HW. destruct HW as [HW Wt].
  apply andb_prop in HW. destruct HW as [HW Tt].
  apply andb_prop in HW. destruct HW as [HW Wa].
  apply andb_prop in HW. destruct HW as [HW Wme].
  apply andb_prop in HW. destruct HW as [Wq Wc].
  apply wf_seq_range in Wq. apply wf_seq_range in Wc.
  cbn [env_accepts] in HE. destruct (find_method e me) as [k0|] eqn:FM; [discriminate|].
  apply negb_true_iff in HE.
  assert (HX' : t = None -> extra = []).
  { intros ->. exact (extras_none _ _ HX). }
  change (frame_elems (MCallC q c me a t))
    with ([VInt method_call_compressed; VInt q; VInt c; VStr me; a] ++ opt_tags t).
  rewrite <- app_assoc. cbn [app]. rewrite !alt_list_cons, !len_cons.
  unfold decode_content.
  rewrite alt_int by (unfold method_call_compressed, two63z; lia). lift_step. zeq. cbv iota.
  match goal with |- context [Z.ltb ?x ?y] =>
    destruct (Z.ltb_spec x y) as [X|_]; [unfold minlen_call_compressed in X; lia|] end.
  rewrite alt_int by assumption. lift_step.
  rewrite alt_int by assumption. lift_step.
  rewrite alt_str by assumption. lift_step.
  rewrite FM, HE.
  rewrite mp_roundtrip by assumption. lift_step.
  apply dec_tags_legal; try assumption. unfold minlen_call_compressed. lia.
Qed.

Lemma legal_resp : forall e q er r extra ch,
  wf_msg (MResp q er r) = true ->
  env_accepts e (MResp q er r) = true ->
  decode_content e (Z.of_N (len (frame_elems (MResp q er r) ++ extra)))
    (fst (Frame.enc_alt_list ch (frame_elems (MResp q er r) ++ extra))) = OResp q er r.
Proof.
  intros e q er r extra ch HW HE.
  cbn [wf_msg] in HW.
  apply andb_prop in HW. destruct HW as [HW Wr].
  apply andb_prop in HW. destruct HW as [Wq We].
  apply wf_seq_range in Wq.
  cbn [env_accepts] in HE. destruct (assoc_z q (pending e)) as [ci|] eqn:AZ; [|discriminate].
  apply andb_prop in HE. destruct HE as [HE HC].
  apply andb_prop in HE. destruct HE as [HR HU].
  apply negb_true_iff in HC.
  change (frame_elems (MResp q er r)) with [VInt method_response; VInt q; er; r].
  cbn [app]. rewrite !alt_list_cons, !len_cons.
  unfold decode_content.
  rewrite alt_int by (unfold method_response, two63z; lia). lift_step. zeq. cbv iota.
  match goal with |- context [Z.ltb ?x ?y] =>
    destruct (Z.ltb_spec x y) as [X|_]; [unfold minlen_response in X; lia|] end.
  rewrite alt_int by assumption. lift_step.
  rewrite AZ. cbv zeta. rewrite HU.
  rewrite mp_roundtrip by assumption. lift_step.
  rewrite HR, HC. cbn [negb].
  rewrite mp_roundtrip by assumption. lift_step. reflexivity.
Qed.

Lemma legal_notify : forall e me a t extra ch,
  wf_msg (MNotify me a t) = true -> extras_ok (MNotify me a t) extra = true ->
  env_accepts e (MNotify me a t) = true ->
  decode_content e (Z.of_N (len (frame_elems (MNotify me a t) ++ extra)))
    (fst (Frame.enc_alt_list ch (frame_elems (MNotify me a t) ++ extra))) = ONotify me a t.
Proof.
  intros e me a t extra ch HW HX HE.
  cbn [wf_msg] in HW.
  apply andb_prop in HW. destruct HW as [HW Wt].
  apply andb_prop in HW. destruct HW as [HW Tt].
  apply andb_prop in HW. destruct HW as [Wme Wa].
  cbn [env_accepts] in HE. destruct (find_method e me) as [k0|] eqn:FM; [discriminate|].
  assert (HX' : t = None -> extra = []).
  { intros ->. exact (extras_none _ _ HX). }
  change (frame_elems (MNotify me a t)) with ([VInt method_notify; VStr me; a] ++ opt_tags t).
  rewrite <- app_assoc. cbn [app]. rewrite !alt_list_cons, !len_cons.
  unfold decode_content.
  rewrite alt_int by (unfold method_notify, two63z; lia). lift_step. zeq. cbv iota.
  match goal with |- context [Z.ltb ?x ?y] =>
    destruct (Z.ltb_spec x y) as [X|_]; [unfold minlen_notify in X; lia|] end.
  rewrite alt_str by assumption. lift_step.
  rewrite FM.
  rewrite mp_roundtrip by assumption. lift_step.
  apply dec_tags_legal; try assumption. unfold minlen_notify. lia.
Qed.

Lemma legal_cancel : forall e q me extra ch,
  wf_msg (MCancel q me) = true ->
  decode_content e (Z.of_N (len (frame_elems (MCancel q me) ++ extra)))
    (fst (Frame.enc_alt_list ch (frame_elems (MCancel q me) ++ extra))) = OCancel q me.
Proof.
  intros e q me extra ch HW.
  cbn [wf_msg] in HW.
  apply andb_prop in HW. destruct HW as [Wq Wme].
  apply wf_seq_range in Wq.
  change (frame_elems (MCancel q me)) with [VInt method_cancel; VInt q; VStr me].
  cbn [app]. rewrite !alt_list_cons, !len_cons.
  unfold decode_content.
  rewrite alt_int by (unfold method_cancel, two63z; lia). lift_step. zeq. cbv iota.
  match goal with |- context [Z.ltb ?x ?y] =>
    destruct (Z.ltb_spec x y) as [X|_]; [unfold minlen_cancel in X; lia|] end.
  rewrite alt_int by assumption. lift_step.
  rewrite alt_str by assumption. lift_step. reflexivity.
Qed.

Lemma decode_content_legal : forall e m extra ch,
  wf_msg m = true -> extras_ok m extra = true -> env_accepts e m = true ->
  decode_content e (Z.of_N (len (frame_elems m ++ extra)))
    (fst (Frame.enc_alt_list ch (frame_elems m ++ extra))) = outcome_of_msg m.
Proof.
  intros e m extra ch HW HX HE. destruct m as [q me a t|q c me a t|q er r|me a t|q me]; cbn [outcome_of_msg].
  - now apply legal_call.
  - now apply legal_callc.
  - now apply legal_resp.
  - now apply legal_notify.
  - now apply legal_cancel.
Qed.

Lemma frame_elems_len : forall m, 3 <= len (frame_elems m).
Proof.
  intros m. destruct m as [q me a t|q c me a t|q er r|me a t|q me]; unfold frame_elems; cbn [frame_val];
    rewrite ?len_app, ?len_cons, ?len_nil; lia.
Qed.

Theorem decode_any_legal : forall e max m extra ch p rest,
    wf_msg m = true -> forallb wf_val extra = true -> extras_ok m extra = true -> env_accepts e m = true ->
    (length (frame_elems m ++ extra) <= 15)%nat ->
    (Z.of_N (len (content_alt ch m extra)) <= max)%Z -> (max <= 2147483647)%Z ->
    In p (int_opts (Z.of_N (len (content_alt ch m extra)))) ->
    next_frame e max (p ++ content_alt ch m extra ++ rest) = (outcome_of_msg m, rest).
Proof.
  intros e max m extra ch p rest HW HWX HX HE HLen HMax HM HP.
  assert (HC : 0 < len (content_alt ch m extra)).
  { unfold content_alt. cbv zeta. rewrite len_cons. lia. }
  rewrite (frame_step e max (Z.of_N (len (content_alt ch m extra)))); try assumption; try lia.
  f_equal. unfold content_alt. cbv zeta. cbn [body_outcome].
  assert (F := frame_elems_len m).
  assert (B1 : 1 <= len (frame_elems m ++ extra)) by (rewrite len_app; lia).
  assert (B2 : len (frame_elems m ++ extra) <= 15) by (unfold len; lia).
  destruct (N.ltb_spec (144 + len (frame_elems m ++ extra)) 145); [lia|].
  destruct (N.ltb_spec 159 (144 + len (frame_elems m ++ extra))); [lia|].
  cbn [orb].
  replace (144 + len (frame_elems m ++ extra) - 144) with (len (frame_elems m ++ extra)) by lia.
  now apply decode_content_legal.
Qed.

(* ------------------------------------------------------------------ *)
Print Assumptions frame_layout_exact.
Print Assumptions encode_frame_exact.
Print Assumptions encode_frame_refuses.
Print Assumptions decode_any_legal.
Print Assumptions exact_consumption.
Print Assumptions outcome_is_local.
Print Assumptions resync_step.
Print Assumptions eof_only_at_boundary.
Print Assumptions bad_length_stops_before_payload.
Print Assumptions out_of_range_length_stops_before_payload.
Print Assumptions nil_length_stops_before_payload.
Print Assumptions non_integer_prefix_stops.
Print Assumptions truncated_body_not_eof.
Print Assumptions bad_header_is_fatal.
