(* Facts about every path through function bodies regenerated from the source (Model/Paths.v) that C01 relies on, by
   computation over the finitely many paths. *)
From FMP Require Import Model.Paths.
Theorem paths_serve_handler_once : serve_paths_handler_once = true. Proof. vm_compute. reflexivity. Qed.
Print Assumptions paths_serve_handler_once.
