(* Facts about every path through function bodies regenerated from the source (Model/Paths.v) that C05 relies on, by
   computation over the finitely many paths. *)
From FMP Require Import Model.Paths.
Theorem paths_nextframe_prefix_first : nextframe_paths_prefix_first = true. Proof. vm_compute. reflexivity. Qed.
Print Assumptions paths_nextframe_prefix_first.
