(* Lemmas about Model/Msgpack.v : every legal encoding of a well-formed value decodes back to it. *)
From Coq Require Import ZifyBool ZifyNat ZifyN.
From FMP Require Import Base.Bytes Model.Msgpack.
Open Scope N_scope.

Ltac Zify.zify_post_hook ::= Z.div_mod_to_equations.

(* ------------------------------------------------------------------ *)
(* concrete powers *)
Lemma pow256_0 : 256 ^ N.of_nat 0 = 1. Proof. reflexivity. Qed.
Lemma pow256_1 : 256 ^ N.of_nat 1 = 256. Proof. reflexivity. Qed.
Lemma pow256_2 : 256 ^ N.of_nat 2 = 65536. Proof. reflexivity. Qed.
Lemma pow256_4 : 256 ^ N.of_nat 4 = 4294967296. Proof. reflexivity. Qed.
Lemma pow256_8 : 256 ^ N.of_nat 8 = 18446744073709551616. Proof. reflexivity. Qed.
Lemma half256_1 : 256 ^ N.of_nat 1 / 2 = 128. Proof. reflexivity. Qed.
Lemma half256_2 : 256 ^ N.of_nat 2 / 2 = 32768. Proof. reflexivity. Qed.
Lemma half256_4 : 256 ^ N.of_nat 4 / 2 = 2147483648. Proof. reflexivity. Qed.
Lemma half256_8 : 256 ^ N.of_nat 8 / 2 = 9223372036854775808. Proof. reflexivity. Qed.
Lemma two64_pow : 2 ^ 64 = 18446744073709551616. Proof. reflexivity. Qed.

Lemma pow256_S : forall w, 256 ^ N.of_nat (S w) = 256 ^ N.of_nat w * 256.
Proof.
  intros w. rewrite Nat2N.inj_succ, N.pow_succ_r by lia. lia.
Qed.

Lemma pow256_pos : forall w, 0 < 256 ^ N.of_nat w.
Proof.
  intros w. assert (256 ^ N.of_nat w <> 0) by (apply N.pow_nonzero; lia). lia.
Qed.

(* ------------------------------------------------------------------ *)
(* len *)
Lemma len_nil : forall A, @len A [] = 0. Proof. reflexivity. Qed.
Lemma len_cons : forall A (x : A) l, len (x :: l) = N.succ (len l).
Proof. intros. unfold len. cbn [length]. apply Nat2N.inj_succ. Qed.
Lemma len_app : forall A (a b : list A), len (a ++ b) = len a + len b.
Proof. intros. unfold len. rewrite app_length. lia. Qed.

(* ------------------------------------------------------------------ *)
(* be_bytes / be_value *)
Lemma be_bytes_length : forall w n, length (be_bytes w n) = w.
Proof.
  induction w as [|w IH]; intros n; cbn [be_bytes length]; [reflexivity|].
  now rewrite IH.
Qed.

Lemma be_value_be_bytes_mod : forall w n, be_value (be_bytes w n) = n mod 256 ^ N.of_nat w.
Proof.
  induction w as [|w IH]; intros n.
  - cbn [be_bytes be_value]. rewrite pow256_0. now rewrite N.mod_1_r.
  - cbn [be_bytes be_value]. rewrite be_bytes_length, IH, pow256_S.
    assert (P := pow256_pos w).
    rewrite (N.mod_mul_r n (256 ^ N.of_nat w) 256) by lia. lia.
Qed.

Lemma be_value_be_bytes : forall w n, n < 256 ^ N.of_nat w -> be_value (be_bytes w n) = n.
Proof.
  intros w n H. rewrite be_value_be_bytes_mod. now apply N.mod_small.
Qed.

Lemma be_bytes_ok : forall w n, bytes_ok (be_bytes w n) = true.
Proof.
  induction w as [|w IH]; intros n; cbn [be_bytes bytes_ok forallb]; [reflexivity|].
  fold (bytes_ok (be_bytes w n)). rewrite IH. unfold byte_ok.
  assert ((n / 256 ^ N.of_nat w) mod 256 < 256) by (apply N.mod_lt; lia).
  destruct (N.ltb_spec ((n / 256 ^ N.of_nat w) mod 256) 256); [reflexivity|lia].
Qed.

(* ------------------------------------------------------------------ *)
(* take *)
Lemma take_n_app : forall a r fuel, (length a <= fuel)%nat -> take_n (a ++ r) (len a) fuel = Some (a, r).
Proof.
  induction a as [|x a IH]; intros r fuel H.
  - rewrite len_nil. cbn [app]. destruct r; reflexivity.
  - destruct fuel as [|fuel]; [cbn [length] in H; lia|].
    cbn [app take_n]. rewrite len_cons.
    destruct (N.eqb_spec (N.succ (len a)) 0) as [E|_]; [lia|].
    replace (N.succ (len a) - 1) with (len a) by lia.
    rewrite IH by (cbn [length] in H; lia). reflexivity.
Qed.

Lemma take_app : forall a r, take (a ++ r) (len a) = Some (a, r).
Proof.
  intros. unfold take. apply take_n_app. rewrite app_length. lia.
Qed.

Lemma take_n_spec : forall bs fuel n a c, take_n bs n fuel = Some (a, c) -> bs = a ++ c /\ len a = n.
Proof.
  induction bs as [|b r IH]; intros fuel n a c H.
  - cbn [take_n] in H. destruct (N.eqb_spec n 0) as [E|E].
    + inversion H; subst. split; reflexivity.
    + destruct fuel; discriminate.
  - cbn [take_n] in H. destruct (N.eqb_spec n 0) as [E|E].
    + inversion H; subst. split; reflexivity.
    + destruct fuel as [|fuel]; [discriminate|].
      destruct (take_n r (n - 1) fuel) as [[a' c']|] eqn:T; [|discriminate].
      inversion H; subst. apply IH in T. destruct T as [T1 T2]. subst r.
      split; [reflexivity|]. rewrite len_cons. lia.
Qed.

Lemma take_spec : forall bs n a c, take bs n = Some (a, c) ->
  bs = a ++ c /\ len a = n /\ forall c', take (a ++ c') n = Some (a, c').
Proof.
  intros bs n a c H. unfold take in H. apply take_n_spec in H. destruct H as [H1 H2].
  split; [assumption|]. split; [assumption|]. intros c'. rewrite <- H2. apply take_app.
Qed.

(* ------------------------------------------------------------------ *)
(* read_be *)
Lemma read_be_be_bytes : forall w n bs, n < 256 ^ N.of_nat w ->
  read_be (N.of_nat w) (be_bytes w n ++ bs) = Some (n, bs).
Proof.
  intros w n bs H. unfold read_be.
  replace (N.of_nat w) with (len (be_bytes w n)) by (unfold len; now rewrite be_bytes_length).
  rewrite take_app. now rewrite be_value_be_bytes.
Qed.

Lemma read_be_1 : forall n bs, read_be 1 (n :: bs) = Some (n, bs).
Proof.
  intros n bs. unfold read_be.
  change (n :: bs) with ([n] ++ bs). change 1 with (len [n]) at 1.
  rewrite take_app. cbn [be_value length]. rewrite pow256_0.
  f_equal. f_equal. lia.
Qed.

Lemma read_be_2 : forall n bs, n < 65536 -> read_be 2 (be_bytes 2 n ++ bs) = Some (n, bs).
Proof. intros. apply (read_be_be_bytes 2). now rewrite pow256_2. Qed.
Lemma read_be_4 : forall n bs, n < 4294967296 -> read_be 4 (be_bytes 4 n ++ bs) = Some (n, bs).
Proof. intros. apply (read_be_be_bytes 4). now rewrite pow256_4. Qed.
Lemma read_be_8 : forall n bs, n < 18446744073709551616 -> read_be 8 (be_bytes 8 n ++ bs) = Some (n, bs).
Proof. intros. apply (read_be_be_bytes 8). now rewrite pow256_8. Qed.

Lemma read_be_spec : forall w bs n r, read_be w bs = Some (n, r) ->
  exists a, bs = a ++ r /\ forall r', read_be w (a ++ r') = Some (n, r').
Proof.
  intros w bs n r H. unfold read_be in H.
  destruct (take bs w) as [[a c]|] eqn:T; [|discriminate].
  inversion H; subst. apply take_spec in T. destruct T as [T1 [T2 T3]].
  exists a. split; [assumption|]. intros r'. unfold read_be. now rewrite T3.
Qed.

(* ------------------------------------------------------------------ *)
(* signed / twos *)
Lemma signed_twos : forall w z, (z < 0)%Z -> (- Z.of_N (256 ^ N.of_nat w / 2) <= z)%Z ->
  signed w (twos w z) = z /\ twos w z < 256 ^ N.of_nat w.
Proof.
  intros w z H1 H2. unfold signed, twos.
  assert (P := pow256_pos w). revert H2 P. generalize (256 ^ N.of_nat w). intros M H2 P.
  destruct (N.ltb_spec (Z.to_N (z + Z.of_N M)) (M / 2)); split; lia.
Qed.

Lemma signed_pos : forall w z, (0 <= z)%Z -> Z.to_N z < 256 ^ N.of_nat w / 2 ->
  signed w (Z.to_N z) = z /\ Z.to_N z < 256 ^ N.of_nat w.
Proof.
  intros w z H1 H2. unfold signed.
  revert H2. generalize (256 ^ N.of_nat w). intros M H2.
  destruct (N.ltb_spec (Z.to_N z) (M / 2)); split; lia.
Qed.

(* ------------------------------------------------------------------ *)
(* one step of [dec], organised by the class of the first byte *)
Inductive kind :=
| KPos | KFixMap | KFixArr | KFixStr | KNil | KBad | KFalse | KTrue
| KBin (w : N) | KUnspec | KF64 | KUint (w : N) | KSint (w : nat)
| KStr (w : N) | KArr (w : N) | KMap (w : N) | KNeg.

Definition classify (b : N) : kind :=
  if b <=? 0x7f then KPos
  else if b <=? 0x8f then KFixMap
  else if b <=? 0x9f then KFixArr
  else if b <=? 0xbf then KFixStr
  else if b =? 0xc0 then KNil
  else if b =? 0xc1 then KBad
  else if b =? 0xc2 then KFalse
  else if b =? 0xc3 then KTrue
  else if (b =? 0xc4) || (b =? 0xc5) || (b =? 0xc6) then
    KBin (if b =? 0xc4 then 1 else if b =? 0xc5 then 2 else 4)
  else if (b =? 0xc7) || (b =? 0xc8) || (b =? 0xc9) || (b =? 0xca) then KUnspec
  else if b =? 0xcb then KF64
  else if (b =? 0xcc) || (b =? 0xcd) || (b =? 0xce) || (b =? 0xcf) then
    KUint (if b =? 0xcc then 1 else if b =? 0xcd then 2 else if b =? 0xce then 4 else 8)
  else if (b =? 0xd0) || (b =? 0xd1) || (b =? 0xd2) || (b =? 0xd3) then
    KSint (if b =? 0xd0 then 1%nat else if b =? 0xd1 then 2%nat else if b =? 0xd2 then 4%nat else 8%nat)
  else if b <=? 0xd8 then KUnspec
  else if (b =? 0xd9) || (b =? 0xda) || (b =? 0xdb) then
    KStr (if b =? 0xd9 then 1 else if b =? 0xda then 2 else 4)
  else if (b =? 0xdc) || (b =? 0xdd) then KArr (if b =? 0xdc then 2 else 4)
  else if (b =? 0xde) || (b =? 0xdf) then KMap (if b =? 0xde then 2 else 4)
  else KNeg.

Definition dec_kind (ds : N -> bytes -> dres (list mval)) (dp : N -> bytes -> dres (list (mval * mval)))
  (k : kind) (b : N) (r : bytes) : dres mval :=
  match k with
  | KPos => DOk (VInt (Z.of_N b)) r
  | KFixMap => wrap_map (dp (b - 0x80) r)
  | KFixArr => wrap_arr (ds (b - 0x90) r)
  | KFixStr => match take r (b - 0xa0) with Some (s, r') => DOk (VStr s) r' | None => DShort end
  | KNil => DOk VNil r
  | KBad => DBad b
  | KFalse => DOk (VBool false) r
  | KTrue => DOk (VBool true) r
  | KBin w =>
      match read_be w r with
      | Some (n, r1) => match take r1 n with Some (s, r2) => DOk (VBin s) r2 | None => DShort end
      | None => DShort
      end
  | KUnspec => DUnspec
  | KF64 => match read_be 8 r with Some (n, r1) => DOk (VF64 n) r1 | None => DShort end
  | KUint w => match read_be w r with Some (n, r1) => DOk (VInt (Z.of_N n)) r1 | None => DShort end
  | KSint w => match read_be (N.of_nat w) r with Some (n, r1) => DOk (VInt (signed w n)) r1 | None => DShort end
  | KStr w =>
      match read_be w r with
      | Some (n, r1) => match take r1 n with Some (s, r2) => DOk (VStr s) r2 | None => DShort end
      | None => DShort
      end
  | KArr w => match read_be w r with Some (n, r1) => wrap_arr (ds n r1) | None => DShort end
  | KMap w => match read_be w r with Some (n, r1) => wrap_map (dp n r1) | None => DShort end
  | KNeg => DOk (VInt (Z.of_N b - 256)) r
  end.

Ltac left_atom c :=
  lazymatch c with
  | orb ?a _ => left_atom a
  | _ => constr:(c)
  end.

Lemma dec_S : forall f b r,
  dec (S f) (b :: r) = dec_kind (dec_seq f) (dec_pairs f) (classify b) b r.
Proof.
  intros f b r. unfold classify.
  lazy beta iota delta [dec].
  repeat (lazymatch goal with
          | |- (if ?c then _ else _) = _ => let a := left_atom c in destruct a
          end; cbn [orb]);
  reflexivity.
Qed.

Lemma dec_nil : forall f, dec (S f) [] = DShort.
Proof. reflexivity. Qed.
Lemma dec_O : forall bs, dec 0 bs = DFuel.
Proof. reflexivity. Qed.

Lemma dec_seq_eq : forall f n bs,
  dec_seq (S f) n bs =
  if n =? 0 then DOk [] bs else
  match dec f bs with
  | DOk v r =>
      match dec_seq f (n - 1) r with
      | DOk l r' => DOk (v :: l) r'
      | DShort => DShort | DBad b => DBad b | DUnspec => DUnspec | DFuel => DFuel
      end
  | DShort => DShort | DBad b => DBad b | DUnspec => DUnspec | DFuel => DFuel
  end.
Proof. reflexivity. Qed.

Lemma dec_seq_O : forall n bs, dec_seq 0 n bs = if n =? 0 then DOk [] bs else DFuel.
Proof. reflexivity. Qed.

Lemma dec_pairs_eq : forall f n bs,
  dec_pairs (S f) n bs =
  if n =? 0 then DOk [] bs else
  match dec f bs with
  | DOk k r =>
      match dec f r with
      | DOk v r1 =>
          match dec_pairs f (n - 1) r1 with
          | DOk l r' => DOk ((k, v) :: l) r'
          | DShort => DShort | DBad b => DBad b | DUnspec => DUnspec | DFuel => DFuel
          end
      | DShort => DShort | DBad b => DBad b | DUnspec => DUnspec | DFuel => DFuel
      end
  | DShort => DShort | DBad b => DBad b | DUnspec => DUnspec | DFuel => DFuel
  end.
Proof. reflexivity. Qed.

Lemma dec_pairs_O : forall n bs, dec_pairs 0 n bs = if n =? 0 then DOk [] bs else DFuel.
Proof. reflexivity. Qed.

Lemma dec_seq_zero : forall f bs, dec_seq f 0 bs = DOk [] bs.
Proof. intros [|f] bs; reflexivity. Qed.
Lemma dec_pairs_zero : forall f bs, dec_pairs f 0 bs = DOk [] bs.
Proof. intros [|f] bs; reflexivity. Qed.

Global Opaque dec dec_seq dec_pairs.

(* ------------------------------------------------------------------ *)
(* fuel monotonicity *)
Lemma fuel_mono_all : forall f,
  (forall bs v r, dec f bs = DOk v r -> dec (S f) bs = DOk v r) /\
  (forall n bs l r, dec_seq f n bs = DOk l r -> dec_seq (S f) n bs = DOk l r) /\
  (forall n bs l r, dec_pairs f n bs = DOk l r -> dec_pairs (S f) n bs = DOk l r).
Proof.
  induction f as [|f [IHd [IHs IHp]]].
  - split; [|split].
    + intros bs v r H. rewrite dec_O in H. discriminate.
    + intros n bs l r H. rewrite dec_seq_O in H. rewrite dec_seq_eq.
      destruct (n =? 0); [assumption|discriminate].
    + intros n bs l r H. rewrite dec_pairs_O in H. rewrite dec_pairs_eq.
      destruct (n =? 0); [assumption|discriminate].
  - split; [|split].
    + intros bs v r H. destruct bs as [|b r0]; [rewrite dec_nil in H; discriminate|].
      rewrite dec_S in *.
      destruct (classify b); cbn [dec_kind] in *; try assumption.
      * destruct (dec_pairs f (b - 128) r0) eqn:E; try discriminate.
        apply IHp in E. rewrite E. assumption.
      * destruct (dec_seq f (b - 144) r0) eqn:E; try discriminate.
        apply IHs in E. rewrite E. assumption.
      * destruct (read_be w r0) as [[n r1]|]; [|discriminate].
        destruct (dec_seq f n r1) eqn:E; try discriminate.
        apply IHs in E. rewrite E. assumption.
      * destruct (read_be w r0) as [[n r1]|]; [|discriminate].
        destruct (dec_pairs f n r1) eqn:E; try discriminate.
        apply IHp in E. rewrite E. assumption.
    + intros n bs l r H. rewrite dec_seq_eq in *.
      destruct (n =? 0); [assumption|].
      destruct (dec f bs) as [v0 r1| | | |] eqn:E; try discriminate.
      apply IHd in E. rewrite E.
      destruct (dec_seq f (n - 1) r1) eqn:E2; try discriminate.
      apply IHs in E2. rewrite E2. assumption.
    + intros n bs l r H. rewrite dec_pairs_eq in *.
      destruct (n =? 0); [assumption|].
      destruct (dec f bs) as [k0 r1| | | |] eqn:E; try discriminate.
      apply IHd in E. rewrite E.
      destruct (dec f r1) as [v0 r2| | | |] eqn:E1; try discriminate.
      apply IHd in E1. rewrite E1.
      destruct (dec_pairs f (n - 1) r2) eqn:E2; try discriminate.
      apply IHp in E2. rewrite E2. assumption.
Qed.

Lemma dec_fuel_mono : forall f bs v r, dec f bs = DOk v r -> dec (S f) bs = DOk v r.
Proof. intros f. apply (fuel_mono_all f). Qed.

Lemma dec_fuel_le : forall f f' bs v r, (f <= f')%nat -> dec f bs = DOk v r -> dec f' bs = DOk v r.
Proof.
  intros f f' bs v r Hle H. induction Hle; [assumption|]. now apply dec_fuel_mono.
Qed.

Lemma dec_seq_fuel_le : forall f f' n bs l r, (f <= f')%nat -> dec_seq f n bs = DOk l r -> dec_seq f' n bs = DOk l r.
Proof.
  intros f f' n bs l r Hle H. induction Hle; [assumption|]. now apply (fuel_mono_all m).
Qed.

Lemma dec_pairs_fuel_le : forall f f' n bs l r, (f <= f')%nat -> dec_pairs f n bs = DOk l r -> dec_pairs f' n bs = DOk l r.
Proof.
  intros f f' n bs l r Hle H. induction Hle; [assumption|]. now apply (fuel_mono_all m).
Qed.

(* ------------------------------------------------------------------ *)
(* a successful decode consumes a prefix and ignores what follows *)
Definition pre_ok {A} (d : bytes -> dres A) : Prop :=
  forall bs v r, d bs = DOk v r -> exists p, bs = p ++ r /\ forall r', d (p ++ r') = DOk v r'.

Lemma read_take_prefix : forall w r0 n r1 s r2,
  read_be w r0 = Some (n, r1) -> take r1 n = Some (s, r2) ->
  exists p, r0 = p ++ r2 /\ forall r', read_be w (p ++ r') = Some (n, s ++ r') /\ take (s ++ r') n = Some (s, r').
Proof.
  intros w r0 n r1 s r2 HR HT.
  apply read_be_spec in HR. destruct HR as [a [Ha Hr]].
  apply take_spec in HT. destruct HT as [T1 [T2 T3]].
  exists (a ++ s). split.
  - rewrite <- app_assoc, <- T1. assumption.
  - intros r'. rewrite <- app_assoc. split; [apply Hr|apply T3].
Qed.

Lemma prefix_all : forall f,
  pre_ok (dec f) /\ (forall n, pre_ok (dec_seq f n)) /\ (forall n, pre_ok (dec_pairs f n)).
Proof.
  induction f as [|f [IHd [IHs IHp]]].
  - split; [|split].
    + intros bs v r H. rewrite dec_O in H. discriminate.
    + intros n bs l r H. rewrite dec_seq_O in H.
      destruct (n =? 0) eqn:E; [|discriminate]. inversion H; subst.
      exists []. split; [reflexivity|]. intros r'. rewrite dec_seq_O, E. reflexivity.
    + intros n bs l r H. rewrite dec_pairs_O in H.
      destruct (n =? 0) eqn:E; [|discriminate]. inversion H; subst.
      exists []. split; [reflexivity|]. intros r'. rewrite dec_pairs_O, E. reflexivity.
  - split; [|split].
    + intros bs v r H. destruct bs as [|b r0]; [rewrite dec_nil in H; discriminate|].
      rewrite dec_S in H.
      assert (G : forall p, (r0 = p ++ r /\
                   forall r', dec_kind (dec_seq f) (dec_pairs f) (classify b) b (p ++ r') = DOk v r') ->
                 exists p0, b :: r0 = p0 ++ r /\ forall r', dec (S f) (p0 ++ r') = DOk v r').
      { intros p [P1 P2]. exists (b :: p). split; [now rewrite P1|].
        intros r'. cbn [app]. rewrite dec_S. apply P2. }
      destruct (classify b); cbn [dec_kind] in *; try discriminate;
        try (inversion H; subst; apply (G []); split; [reflexivity|intros; reflexivity]).
      * (* fixmap *)
        destruct (dec_pairs f (b - 128) r0) as [l r1| | | |] eqn:E; try discriminate.
        cbn [wrap_map] in H. inversion H; subst.
        apply IHp in E. destruct E as [p [E1 E2]]. apply (G p). split; [assumption|].
        intros r'. now rewrite E2.
      * (* fixarr *)
        destruct (dec_seq f (b - 144) r0) as [l r1| | | |] eqn:E; try discriminate.
        cbn [wrap_arr] in H. inversion H; subst.
        apply IHs in E. destruct E as [p [E1 E2]]. apply (G p). split; [assumption|].
        intros r'. now rewrite E2.
      * (* fixstr *)
        destruct (take r0 (b - 160)) as [[s r1]|] eqn:T; [|discriminate].
        inversion H; subst. apply take_spec in T. destruct T as [T1 [T2 T3]].
        apply (G s). split; [assumption|]. intros r'. now rewrite T3.
      * (* bin *)
        destruct (read_be w r0) as [[n r1]|] eqn:R; [|discriminate].
        destruct (take r1 n) as [[s r2]|] eqn:T; [|discriminate].
        inversion H; subst.
        destruct (read_take_prefix _ _ _ _ _ _ R T) as [p [P1 P2]].
        apply (G p). split; [assumption|]. intros r'. destruct (P2 r') as [Q1 Q2].
        now rewrite Q1, Q2.
      * (* f64 *)
        destruct (read_be 8 r0) as [[n r1]|] eqn:R; [|discriminate].
        inversion H; subst. apply read_be_spec in R. destruct R as [a [A1 A2]].
        apply (G a). split; [assumption|]. intros r'. now rewrite A2.
      * (* uint *)
        destruct (read_be w r0) as [[n r1]|] eqn:R; [|discriminate].
        inversion H; subst. apply read_be_spec in R. destruct R as [a [A1 A2]].
        apply (G a). split; [assumption|]. intros r'. now rewrite A2.
      * (* sint *)
        destruct (read_be (N.of_nat w) r0) as [[n r1]|] eqn:R; [|discriminate].
        inversion H; subst. apply read_be_spec in R. destruct R as [a [A1 A2]].
        apply (G a). split; [assumption|]. intros r'. now rewrite A2.
      * (* str *)
        destruct (read_be w r0) as [[n r1]|] eqn:R; [|discriminate].
        destruct (take r1 n) as [[s r2]|] eqn:T; [|discriminate].
        inversion H; subst.
        destruct (read_take_prefix _ _ _ _ _ _ R T) as [p [P1 P2]].
        apply (G p). split; [assumption|]. intros r'. destruct (P2 r') as [Q1 Q2].
        now rewrite Q1, Q2.
      * (* arr *)
        destruct (read_be w r0) as [[n r1]|] eqn:R; [|discriminate].
        destruct (dec_seq f n r1) as [l r2| | | |] eqn:E; try discriminate.
        cbn [wrap_arr] in H. inversion H; subst.
        apply read_be_spec in R. destruct R as [a [A1 A2]].
        apply IHs in E. destruct E as [p [E1 E2]].
        apply (G (a ++ p)). split; [rewrite <- app_assoc, <- E1; assumption|].
        intros r'. rewrite <- app_assoc, A2, E2. reflexivity.
      * (* map *)
        destruct (read_be w r0) as [[n r1]|] eqn:R; [|discriminate].
        destruct (dec_pairs f n r1) as [l r2| | | |] eqn:E; try discriminate.
        cbn [wrap_map] in H. inversion H; subst.
        apply read_be_spec in R. destruct R as [a [A1 A2]].
        apply IHp in E. destruct E as [p [E1 E2]].
        apply (G (a ++ p)). split; [rewrite <- app_assoc, <- E1; assumption|].
        intros r'. rewrite <- app_assoc, A2, E2. reflexivity.
    + intros n bs l r H. rewrite dec_seq_eq in H.
      destruct (n =? 0) eqn:N0.
      * inversion H; subst. exists []. split; [reflexivity|].
        intros r'. rewrite dec_seq_eq, N0. reflexivity.
      * destruct (dec f bs) as [v r1| | | |] eqn:E; try discriminate.
        destruct (dec_seq f (n - 1) r1) as [l1 r2| | | |] eqn:E2; try discriminate.
        inversion H; subst.
        apply IHd in E. destruct E as [p [P1 P2]].
        apply IHs in E2. destruct E2 as [q [Q1 Q2]].
        exists (p ++ q). split; [rewrite <- app_assoc, <- Q1; assumption|].
        intros r'. rewrite dec_seq_eq, N0, <- app_assoc, P2, Q2. reflexivity.
    + intros n bs l r H. rewrite dec_pairs_eq in H.
      destruct (n =? 0) eqn:N0.
      * inversion H; subst. exists []. split; [reflexivity|].
        intros r'. rewrite dec_pairs_eq, N0. reflexivity.
      * destruct (dec f bs) as [k r1| | | |] eqn:E; try discriminate.
        destruct (dec f r1) as [v r2| | | |] eqn:E1; try discriminate.
        destruct (dec_pairs f (n - 1) r2) as [l1 r3| | | |] eqn:E2; try discriminate.
        inversion H; subst.
        apply IHd in E. destruct E as [p [P1 P2]].
        apply IHd in E1. destruct E1 as [p1 [P3 P4]].
        apply IHp in E2. destruct E2 as [q [Q1 Q2]].
        exists (p ++ p1 ++ q). split; [rewrite <- !app_assoc, <- Q1, <- P3; assumption|].
        intros r'. rewrite dec_pairs_eq, N0, <- !app_assoc, P2, P4, Q2. reflexivity.
Qed.

Theorem dec_consumes_prefix : forall f bs v r, dec f bs = DOk v r ->
  exists p, bs = p ++ r /\ forall r', dec f (p ++ r') = DOk v r'.
Proof. intros f. apply (prefix_all f). Qed.

(* ------------------------------------------------------------------ *)
(* classification of symbolic header bytes *)
Ltac classify_tac :=
  unfold classify;
  repeat (match goal with
          | |- context [N.leb ?a ?b] => destruct (N.leb_spec a b); try lia
          | |- context [N.eqb ?a ?b] => destruct (N.eqb_spec a b); try lia
          end; cbn [orb]);
  try reflexivity.

Lemma classify_pos : forall b, b <= 127 -> classify b = KPos.
Proof. intros b H. classify_tac. Qed.
Lemma classify_fixmap : forall n, n < 16 -> classify (0x80 + n) = KFixMap.
Proof. intros n H. classify_tac. Qed.
Lemma classify_fixarr : forall n, n < 16 -> classify (0x90 + n) = KFixArr.
Proof. intros n H. classify_tac. Qed.
Lemma classify_fixstr : forall n, n < 32 -> classify (0xa0 + n) = KFixStr.
Proof. intros n H. classify_tac. Qed.
Lemma classify_neg : forall b, 224 <= b -> classify b = KNeg.
Proof. intros b H. classify_tac. Qed.

Lemma be_bytes_1 : forall x, x < 256 -> be_bytes 1 x = [x].
Proof.
  intros x H. cbn [be_bytes]. rewrite pow256_0, N.div_1_r. f_equal. now apply N.mod_small.
Qed.

Lemma dec_uint_w : forall f b w n rest, classify b = KUint (N.of_nat w) -> n < 256 ^ N.of_nat w ->
  dec (S f) ((b :: be_bytes w n) ++ rest) = DOk (VInt (Z.of_N n)) rest.
Proof.
  intros f b w n rest K H. cbn [app]. rewrite dec_S, K. cbn [dec_kind].
  rewrite read_be_be_bytes by assumption. reflexivity.
Qed.

Lemma dec_sint_w : forall f b w n rest, classify b = KSint w -> n < 256 ^ N.of_nat w ->
  dec (S f) ((b :: be_bytes w n) ++ rest) = DOk (VInt (signed w n)) rest.
Proof.
  intros f b w n rest K H. cbn [app]. rewrite dec_S, K. cbn [dec_kind].
  rewrite read_be_be_bytes by assumption. reflexivity.
Qed.

Lemma sint_val : forall w z,
  (- Z.of_N (256 ^ N.of_nat w / 2) <= z < Z.of_N (256 ^ N.of_nat w / 2))%Z ->
  signed w (if (z <? 0)%Z then twos w z else Z.to_N z) = z /\
  (if (z <? 0)%Z then twos w z else Z.to_N z) < 256 ^ N.of_nat w.
Proof.
  intros w z H. destruct (Z.ltb_spec z 0).
  - apply signed_twos; lia.
  - apply signed_pos; lia.
Qed.

Definition int_first (b : N) : bool :=
  (b <=? 0x7f) || (0xe0 <=? b) || ((0xcc <=? b) && (b <=? 0xd3)).

Lemma dec_sint_case : forall b w z,
  classify b = KSint w ->
  (- Z.of_N (256 ^ N.of_nat w / 2) <= z < Z.of_N (256 ^ N.of_nat w / 2))%Z ->
  forall f rest,
  dec (S f) ((b :: be_bytes w (if (z <? 0)%Z then twos w z else Z.to_N z)) ++ rest) = DOk (VInt z) rest.
Proof.
  intros b w z K H f rest. destruct (sint_val w z H) as [S1 S2].
  rewrite dec_sint_w by assumption. now rewrite S1.
Qed.

Lemma dec_uint_case : forall b w z,
  classify b = KUint (N.of_nat w) -> (0 <= z)%Z -> Z.to_N z < 256 ^ N.of_nat w ->
  forall f rest,
  dec (S f) ((b :: be_bytes w (Z.to_N z)) ++ rest) = DOk (VInt z) rest.
Proof.
  intros b w z K H0 H f rest. rewrite dec_uint_w by assumption.
  f_equal. f_equal. lia.
Qed.

Ltac split_opts H :=
  repeat match type of H with
         | In _ (_ ++ _) => apply in_app_or in H; destruct H as [H|H]
         end.

Lemma int_opts_spec : forall z o, (- two63z <= z < two64z)%Z -> In o (int_opts z) ->
  exists b o', o = b :: o' /\ b <> 0xc0 /\ int_first b = true /\
    forall f rest, dec (S f) (o ++ rest) = DOk (VInt z) rest.
Proof.
  intros z o R H. unfold two63z, two64z in R. unfold int_opts, two63z, two64z in H.
  split_opts H;
  match type of H with
  | In _ (if ?c then _ else _) => destruct c eqn:C; cbn [In] in H; [destruct H as [H|[]]; subst o|contradiction]
  end.
  - (* positive fixint *)
    exists (Z.to_N z), []. split; [reflexivity|]. split; [lia|].
    assert (U : Z.to_N z <= 127) by lia.
    split; [unfold int_first; destruct (N.leb_spec (Z.to_N z) 127); [reflexivity|lia]|].
    intros f rest. cbn [app]. rewrite dec_S, classify_pos by assumption. cbn [dec_kind].
    f_equal. f_equal. lia.
  - (* negative fixint *)
    assert (U : twos 1 z = Z.to_N (z + 256)) by (unfold twos; now rewrite pow256_1).
    rewrite U. exists (Z.to_N (z + 256)), []. split; [reflexivity|]. split; [lia|].
    assert (U1 : 224 <= Z.to_N (z + 256)) by lia.
    split.
    { unfold int_first. destruct (N.leb_spec 224 (Z.to_N (z + 256))); [|lia].
      now rewrite orb_true_r. }
    intros f rest. cbn [app]. rewrite dec_S, classify_neg by assumption. cbn [dec_kind].
    f_equal. f_equal. lia.
  - (* 0xcc *)
    rewrite <- (be_bytes_1 (Z.to_N z)) by lia.
    eexists _, _. split; [reflexivity|]. split; [discriminate|]. split; [reflexivity|].
    apply (dec_uint_case 0xcc 1); [reflexivity|lia|rewrite pow256_1; lia].
  - (* 0xcd *)
    eexists _, _. split; [reflexivity|]. split; [discriminate|]. split; [reflexivity|].
    apply (dec_uint_case 0xcd 2); [reflexivity|lia|rewrite pow256_2; lia].
  - (* 0xce *)
    eexists _, _. split; [reflexivity|]. split; [discriminate|]. split; [reflexivity|].
    apply (dec_uint_case 0xce 4); [reflexivity|lia|rewrite pow256_4; lia].
  - (* 0xcf *)
    eexists _, _. split; [reflexivity|]. split; [discriminate|]. split; [reflexivity|].
    apply (dec_uint_case 0xcf 8); [reflexivity|lia|rewrite pow256_8; lia].
  - (* 0xd0 *)
    assert (B : (if (z <? 0)%Z then twos 1 z else Z.to_N z) < 256).
    { destruct (sint_val 1 z) as [_ S2]; [rewrite half256_1; lia|]. now rewrite pow256_1 in S2. }
    rewrite <- (be_bytes_1 _ B).
    eexists _, _. split; [reflexivity|]. split; [discriminate|]. split; [reflexivity|].
    apply (dec_sint_case 0xd0 1); [reflexivity|rewrite half256_1; lia].
  - (* 0xd1 *)
    eexists _, _. split; [reflexivity|]. split; [discriminate|]. split; [reflexivity|].
    apply (dec_sint_case 0xd1 2); [reflexivity|rewrite half256_2; lia].
  - (* 0xd2 *)
    eexists _, _. split; [reflexivity|]. split; [discriminate|]. split; [reflexivity|].
    apply (dec_sint_case 0xd2 4); [reflexivity|rewrite half256_4; lia].
  - (* 0xd3 *)
    eexists _, _. split; [reflexivity|]. split; [discriminate|]. split; [reflexivity|].
    apply (dec_sint_case 0xd3 8); [reflexivity|rewrite half256_8; lia].
Qed.

(* ------------------------------------------------------------------ *)
(* pick *)
Lemma pick_in : forall A k (opts : list A) d, opts <> [] -> In (pick k opts d) opts.
Proof.
  intros A k opts d H. unfold pick. apply nth_In.
  destruct opts as [|x opts]; [congruence|].
  apply Nat.mod_upper_bound. cbn [length]. lia.
Qed.

Lemma in_cond_here : forall A (c : bool) (x : A) l, c = true -> In x ((if c then [x] else []) ++ l).
Proof. intros A c x l H. rewrite H. left. reflexivity. Qed.
Lemma in_cond_last : forall A (c : bool) (x : A), c = true -> In x (if c then [x] else []).
Proof. intros A c x H. rewrite H. left. reflexivity. Qed.
Lemma in_skip : forall A (x : A) l1 l2, In x l2 -> In x (l1 ++ l2).
Proof. intros. apply in_or_app. now right. Qed.

Lemma enc_int_in_opts : forall z, (- two63z <= z < two64z)%Z -> In (enc_int z) (int_opts z).
Proof.
  intros z R. unfold two63z, two64z in R. unfold enc_int, enc_uint, int_opts, two32, two63z, two64z.
  destruct (Z.leb_spec 0 z) as [P|P].
  - destruct (N.leb_spec (Z.to_N z) 127) as [A|A].
    { apply in_cond_here. lia. }
    destruct (N.leb_spec (Z.to_N z) 255) as [B|B].
    { do 2 apply in_skip. apply in_cond_here. lia. }
    destruct (N.leb_spec (Z.to_N z) 65535) as [C|C].
    { do 3 apply in_skip. apply in_cond_here. lia. }
    destruct (N.ltb_spec (Z.to_N z) 4294967296) as [D|D].
    { do 4 apply in_skip. apply in_cond_here. lia. }
    do 5 apply in_skip. apply in_cond_here. lia.
  - assert (Z0 : (z <? 0)%Z = true) by lia.
    destruct (Z.leb_spec (-32) z) as [A|A].
    { apply in_skip. apply in_cond_here. lia. }
    destruct (Z.leb_spec (-128) z) as [B|B].
    { do 6 apply in_skip. rewrite Z0. apply in_cond_here. lia. }
    destruct (Z.leb_spec (-32768) z) as [C|C].
    { do 7 apply in_skip. rewrite Z0. apply in_cond_here. lia. }
    destruct (Z.leb_spec (-2147483648) z) as [D|D].
    { do 8 apply in_skip. rewrite Z0. apply in_cond_here. lia. }
    do 9 apply in_skip. rewrite Z0. apply in_cond_last. lia.
Qed.

Lemma int_opts_nonempty : forall z, (- two63z <= z < two64z)%Z -> int_opts z <> [].
Proof.
  intros z R E. apply enc_int_in_opts in R. rewrite E in R. contradiction.
Qed.

Theorem dec_int64_opts : forall z o rest, (- two63z <= z < two64z)%Z -> In o (int_opts z) ->
  dec_int64 (o ++ rest) = DOk (wrap64 z) rest.
Proof.
  intros z o rest R H. destruct (int_opts_spec z o R H) as [b [o' [E [B1 [B2 D]]]]].
  specialize (D O rest). subst o. cbn [app] in *. unfold dec_int64.
  destruct (N.eqb_spec b 192) as [X|_]; [contradiction|].
  unfold int_first in B2. rewrite B2. rewrite D. reflexivity.
Qed.

Theorem dec_int64_canon : forall z rest, (- two63z <= z < two64z)%Z ->
  dec_int64 (enc_int z ++ rest) = DOk (wrap64 z) rest.
Proof.
  intros z rest R. apply dec_int64_opts; [assumption|]. now apply enc_int_in_opts.
Qed.

(* ------------------------------------------------------------------ *)
(* str / bin / arr / map headers *)
Lemma dec_str_w : forall f b w n bs s r, classify b = KStr (N.of_nat w) -> n < 256 ^ N.of_nat w ->
  take bs n = Some (s, r) ->
  dec (S f) ((b :: be_bytes w n) ++ bs) = DOk (VStr s) r.
Proof.
  intros f b w n bs s r K H T. cbn [app]. rewrite dec_S, K. cbn [dec_kind].
  rewrite read_be_be_bytes by assumption. now rewrite T.
Qed.

Lemma dec_bin_w : forall f b w n bs s r, classify b = KBin (N.of_nat w) -> n < 256 ^ N.of_nat w ->
  take bs n = Some (s, r) ->
  dec (S f) ((b :: be_bytes w n) ++ bs) = DOk (VBin s) r.
Proof.
  intros f b w n bs s r K H T. cbn [app]. rewrite dec_S, K. cbn [dec_kind].
  rewrite read_be_be_bytes by assumption. now rewrite T.
Qed.

Lemma dec_arr_w : forall f b w n bs, classify b = KArr (N.of_nat w) -> n < 256 ^ N.of_nat w ->
  dec (S f) ((b :: be_bytes w n) ++ bs) = wrap_arr (dec_seq f n bs).
Proof.
  intros f b w n bs K H. cbn [app]. rewrite dec_S, K. cbn [dec_kind].
  rewrite read_be_be_bytes by assumption. reflexivity.
Qed.

Lemma dec_map_w : forall f b w n bs, classify b = KMap (N.of_nat w) -> n < 256 ^ N.of_nat w ->
  dec (S f) ((b :: be_bytes w n) ++ bs) = wrap_map (dec_pairs f n bs).
Proof.
  intros f b w n bs K H. cbn [app]. rewrite dec_S, K. cbn [dec_kind].
  rewrite read_be_be_bytes by assumption. reflexivity.
Qed.

Definition str_first (b : N) : bool :=
  ((0xa0 <=? b) && (b <=? 0xbf)) || ((0xc4 <=? b) && (b <=? 0xc6)) || ((0xd9 <=? b) && (b <=? 0xdb)).

Ltac cond_case H C :=
  match type of H with
  | In _ (if ?c then _ else _) =>
      destruct c eqn:C; cbn [In] in H; [destruct H as [H|[]]; subst|contradiction]
  end.

Lemma str_hdr_spec : forall n h, In h (str_hdr_opts n) ->
  exists b h', h = b :: h' /\ b <> 0xc0 /\ str_first b = true /\
    forall f bs s r, take bs n = Some (s, r) -> dec (S f) (h ++ bs) = DOk (VStr s) r.
Proof.
  intros n h H. unfold str_hdr_opts, two32 in H. split_opts H; cond_case H C.
  - exists (0xa0 + n), []. split; [reflexivity|]. split; [lia|].
    assert (U : n < 32) by lia.
    split.
    { unfold str_first. destruct (N.leb_spec 160 (160 + n)); [|lia].
      destruct (N.leb_spec (160 + n) 191); [reflexivity|lia]. }
    intros f bs s r T. cbn [app]. rewrite dec_S, classify_fixstr by assumption. cbn [dec_kind].
    replace (160 + n - 160) with n by lia. now rewrite T.
  - rewrite <- (be_bytes_1 n) by lia.
    eexists _, _. split; [reflexivity|]. split; [discriminate|]. split; [reflexivity|].
    intros f bs s r T. apply (dec_str_w f 0xd9 1); [reflexivity|rewrite pow256_1; lia|assumption].
  - eexists _, _. split; [reflexivity|]. split; [discriminate|]. split; [reflexivity|].
    intros f bs s r T. apply (dec_str_w f 0xda 2); [reflexivity|rewrite pow256_2; lia|assumption].
  - eexists _, _. split; [reflexivity|]. split; [discriminate|]. split; [reflexivity|].
    intros f bs s r T. apply (dec_str_w f 0xdb 4); [reflexivity|rewrite pow256_4; lia|assumption].
Qed.

Lemma bin_hdr_spec : forall n h, In h (bin_hdr_opts n) ->
  exists b h', h = b :: h' /\
    forall f bs s r, take bs n = Some (s, r) -> dec (S f) (h ++ bs) = DOk (VBin s) r.
Proof.
  intros n h H. unfold bin_hdr_opts, two32 in H. split_opts H; cond_case H C.
  - rewrite <- (be_bytes_1 n) by lia.
    eexists _, _. split; [reflexivity|].
    intros f bs s r T. apply (dec_bin_w f 0xc4 1); [reflexivity|rewrite pow256_1; lia|assumption].
  - eexists _, _. split; [reflexivity|].
    intros f bs s r T. apply (dec_bin_w f 0xc5 2); [reflexivity|rewrite pow256_2; lia|assumption].
  - eexists _, _. split; [reflexivity|].
    intros f bs s r T. apply (dec_bin_w f 0xc6 4); [reflexivity|rewrite pow256_4; lia|assumption].
Qed.

Lemma arr_hdr_spec : forall n h, In h (arr_hdr_opts n) ->
  exists b h', h = b :: h' /\
    forall f bs, dec (S f) (h ++ bs) = wrap_arr (dec_seq f n bs).
Proof.
  intros n h H. unfold arr_hdr_opts, two32 in H. split_opts H; cond_case H C.
  - exists (0x90 + n), []. split; [reflexivity|].
    assert (U : n < 16) by lia.
    intros f bs. cbn [app]. rewrite dec_S, classify_fixarr by assumption. cbn [dec_kind].
    replace (144 + n - 144) with n by lia. reflexivity.
  - eexists _, _. split; [reflexivity|].
    intros f bs. apply (dec_arr_w f 0xdc 2); [reflexivity|rewrite pow256_2; lia].
  - eexists _, _. split; [reflexivity|].
    intros f bs. apply (dec_arr_w f 0xdd 4); [reflexivity|rewrite pow256_4; lia].
Qed.

Lemma map_hdr_spec : forall n h, In h (map_hdr_opts n) ->
  exists b h', h = b :: h' /\
    forall f bs, dec (S f) (h ++ bs) = wrap_map (dec_pairs f n bs).
Proof.
  intros n h H. unfold map_hdr_opts, two32 in H. split_opts H; cond_case H C.
  - exists (0x80 + n), []. split; [reflexivity|].
    assert (U : n < 16) by lia.
    intros f bs. cbn [app]. rewrite dec_S, classify_fixmap by assumption. cbn [dec_kind].
    replace (128 + n - 128) with n by lia. reflexivity.
  - eexists _, _. split; [reflexivity|].
    intros f bs. apply (dec_map_w f 0xde 2); [reflexivity|rewrite pow256_2; lia].
  - eexists _, _. split; [reflexivity|].
    intros f bs. apply (dec_map_w f 0xdf 4); [reflexivity|rewrite pow256_4; lia].
Qed.

(* canonical headers are among the options *)
Lemma enc_str_hdr_in : forall n, n < two32 -> In (enc_str_hdr n) (str_hdr_opts n).
Proof.
  intros n H. unfold two32 in H. unfold enc_str_hdr, str_hdr_opts, two32.
  destruct (N.ltb_spec n 32). { cbn [app]. left. reflexivity. }
  destruct (N.ltb_spec n 256). { cbn [app]. left. reflexivity. }
  destruct (N.ltb_spec n 65536). { cbn [app]. left. reflexivity. }
  destruct (N.ltb_spec n 4294967296); [|lia]. cbn [app]. left. reflexivity.
Qed.

Lemma enc_bin_hdr_in : forall n, n < two32 -> In (enc_bin_hdr n) (bin_hdr_opts n).
Proof.
  intros n H. unfold two32 in H. unfold enc_bin_hdr, bin_hdr_opts, two32.
  destruct (N.ltb_spec n 256). { cbn [app]. left. reflexivity. }
  destruct (N.ltb_spec n 65536). { cbn [app]. left. reflexivity. }
  destruct (N.ltb_spec n 4294967296); [|lia]. cbn [app]. left. reflexivity.
Qed.

Lemma enc_arr_hdr_in : forall n, n < two32 -> In (enc_arr_hdr n) (arr_hdr_opts n).
Proof.
  intros n H. unfold two32 in H. unfold enc_arr_hdr, arr_hdr_opts, two32.
  destruct (N.ltb_spec n 16). { cbn [app]. left. reflexivity. }
  destruct (N.ltb_spec n 65536). { cbn [app]. left. reflexivity. }
  destruct (N.ltb_spec n 4294967296); [|lia]. cbn [app]. left. reflexivity.
Qed.

Lemma enc_map_hdr_in : forall n, n < two32 -> In (enc_map_hdr n) (map_hdr_opts n).
Proof.
  intros n H. unfold two32 in H. unfold enc_map_hdr, map_hdr_opts, two32.
  destruct (N.ltb_spec n 16). { cbn [app]. left. reflexivity. }
  destruct (N.ltb_spec n 65536). { cbn [app]. left. reflexivity. }
  destruct (N.ltb_spec n 4294967296); [|lia]. cbn [app]. left. reflexivity.
Qed.

Lemma in_nonempty : forall A (x : A) l, In x l -> l <> [].
Proof. intros A x l H E. rewrite E in H. contradiction. Qed.

Theorem dec_string_opts : forall s h rest, bytes_ok s = true -> In h (str_hdr_opts (len s)) ->
  dec_string (h ++ s ++ rest) = DOk s rest.
Proof.
  intros s h rest _ H. destruct (str_hdr_spec _ _ H) as [b [h' [E [B1 [B2 D]]]]].
  specialize (D O (s ++ rest) s rest (take_app s rest)).
  subst h. cbn [app] in *. unfold dec_string.
  destruct (N.eqb_spec b 192) as [X|_]; [contradiction|].
  unfold str_first in B2. rewrite B2. rewrite D. reflexivity.
Qed.

Theorem dec_string_canon : forall s rest, bytes_ok s = true -> len s < two32 ->
  dec_string (enc_str_hdr (len s) ++ s ++ rest) = DOk s rest.
Proof.
  intros s rest B H. apply dec_string_opts; [assumption|]. now apply enc_str_hdr_in.
Qed.

(* ------------------------------------------------------------------ *)
(* strong induction principle for mval *)
Section MvalInd.
  Variable P : mval -> Prop.
  Hypothesis HNil : P VNil.
  Hypothesis HBool : forall b, P (VBool b).
  Hypothesis HInt : forall z, P (VInt z).
  Hypothesis HStr : forall s, P (VStr s).
  Hypothesis HBin : forall s, P (VBin s).
  Hypothesis HF64 : forall b, P (VF64 b).
  Hypothesis HArr : forall l, Forall P l -> P (VArr l).
  Hypothesis HMap : forall l, Forall (fun kv => P (fst kv) /\ P (snd kv)) l -> P (VMap l).

  Fixpoint mval_ind' (v : mval) : P v :=
    match v with
    | VNil => HNil
    | VBool b => HBool b
    | VInt z => HInt z
    | VStr s => HStr s
    | VBin s => HBin s
    | VF64 b => HF64 b
    | VArr l =>
        HArr l ((fix go (l : list mval) : Forall P l :=
                   match l with
                   | [] => Forall_nil P
                   | x :: r => Forall_cons x (mval_ind' x) (go r)
                   end) l)
    | VMap l =>
        HMap l ((fix go (l : list (mval * mval)) : Forall (fun kv => P (fst kv) /\ P (snd kv)) l :=
                   match l with
                   | [] => Forall_nil _
                   | kv :: r =>
                       Forall_cons kv
                         (match kv as kv0 return (P (fst kv0) /\ P (snd kv0)) with
                          | (a, b) => conj (mval_ind' a) (mval_ind' b)
                          end) (go r)
                   end) l)
    end.
End MvalInd.

(* fuel measure *)
Fixpoint sz (v : mval) : nat :=
  match v with
  | VArr l => S (list_sum (map (fun x => S (sz x)) l))
  | VMap l => S (list_sum (map (fun kv => S (sz (fst kv) + sz (snd kv))) l))
  | _ => 1%nat
  end.

Lemma list_sum_cons : forall a l, list_sum (a :: l) = (a + list_sum l)%nat.
Proof. reflexivity. Qed.

Lemma sz_pos : forall v, (1 <= sz v)%nat.
Proof. destruct v; cbn [sz]; lia. Qed.

(* top-level versions of the local [go] functions of enc_alt *)
Fixpoint enc_alt_list (l : list mval) (ch : list nat) : bytes * list nat :=
  match l with
  | [] => ([], ch)
  | x :: r => let (bx, ch1) := enc_alt ch x in
              let (br, ch2) := enc_alt_list r ch1 in (bx ++ br, ch2)
  end.

Fixpoint enc_alt_pairs (l : list (mval * mval)) (ch : list nat) : bytes * list nat :=
  match l with
  | [] => ([], ch)
  | (a, b) :: r => let (ba, ch1) := enc_alt ch a in
                   let (bb, ch2) := enc_alt ch1 b in
                   let (br, ch3) := enc_alt_pairs r ch2 in (ba ++ bb ++ br, ch3)
  end.

Lemma enc_alt_nil : forall ch, enc_alt ch VNil = ([0xc0], ch).
Proof. reflexivity. Qed.
Lemma enc_alt_bool : forall ch b, enc_alt ch (VBool b) = ([if b then 0xc3 else 0xc2], ch).
Proof. intros ch [|]; reflexivity. Qed.
Lemma enc_alt_f64 : forall ch b, enc_alt ch (VF64 b) = (0xcb :: be_bytes 8 b, ch).
Proof. reflexivity. Qed.
Lemma enc_alt_int : forall ch z, enc_alt ch (VInt z) =
  let (k, ch') := take_choice ch in (pick k (int_opts z) (enc_int z), ch').
Proof. reflexivity. Qed.
Lemma enc_alt_str : forall ch s, enc_alt ch (VStr s) =
  let (k, ch') := take_choice ch in (pick k (str_hdr_opts (len s)) (enc_str_hdr (len s)) ++ s, ch').
Proof. reflexivity. Qed.
Lemma enc_alt_bin : forall ch s, enc_alt ch (VBin s) =
  let (k, ch') := take_choice ch in (pick k (bin_hdr_opts (len s)) (enc_bin_hdr (len s)) ++ s, ch').
Proof. reflexivity. Qed.
Lemma enc_alt_arr : forall ch l, enc_alt ch (VArr l) =
  let (k, ch') := take_choice ch in
  let (body, ch'') := enc_alt_list l ch' in
  (pick k (arr_hdr_opts (len l)) (enc_arr_hdr (len l)) ++ body, ch'').
Proof. reflexivity. Qed.
Lemma enc_alt_map : forall ch l, enc_alt ch (VMap l) =
  let (k, ch') := take_choice ch in
  let (body, ch'') := enc_alt_pairs l ch' in
  (pick k (map_hdr_opts (len l)) (enc_map_hdr (len l)) ++ body, ch'').
Proof. reflexivity. Qed.

(* ------------------------------------------------------------------ *)
(* "good" encodings: short enough for the fuel bound, and decoded back with any sufficient fuel *)
Definition ssum (l : list mval) : nat := list_sum (map (fun x => S (sz x)) l).
Definition psum (l : list (mval * mval)) : nat :=
  list_sum (map (fun kv => S (sz (fst kv) + sz (snd kv))) l).

Lemma sz_arr : forall l, sz (VArr l) = S (ssum l). Proof. reflexivity. Qed.
Lemma sz_map : forall l, sz (VMap l) = S (psum l). Proof. reflexivity. Qed.
Lemma ssum_cons : forall x l, ssum (x :: l) = (S (sz x) + ssum l)%nat. Proof. reflexivity. Qed.
Lemma psum_cons : forall a b l, psum ((a, b) :: l) = (S (sz a + sz b) + psum l)%nat. Proof. reflexivity. Qed.

Definition good (v : mval) (bs : bytes) : Prop :=
  (sz v < 2 * length bs)%nat /\
  forall rest f, (sz v <= f)%nat -> dec f (bs ++ rest) = DOk v rest.

Definition seq_good (l : list mval) (body : bytes) : Prop :=
  (ssum l <= 2 * length body)%nat /\
  forall rest f, (ssum l <= f)%nat -> dec_seq f (len l) (body ++ rest) = DOk l rest.

Definition pairs_good (l : list (mval * mval)) (body : bytes) : Prop :=
  (psum l <= 2 * length body)%nat /\
  forall rest f, (psum l <= f)%nat -> dec_pairs f (len l) (body ++ rest) = DOk l rest.

Lemma good_nil : good VNil [0xc0].
Proof.
  split; [cbn; lia|]. intros rest f Hf. destruct f as [|f]; [cbn [sz] in Hf; lia|].
  cbn [app]. rewrite dec_S. reflexivity.
Qed.

Lemma good_bool : forall b, good (VBool b) [if b then 0xc3 else 0xc2].
Proof.
  intros b. split; [cbn; lia|]. intros rest f Hf. destruct f as [|f]; [cbn [sz] in Hf; lia|].
  cbn [app]. rewrite dec_S. destruct b; reflexivity.
Qed.

Lemma good_f64 : forall b, b < 2 ^ 64 -> good (VF64 b) (0xcb :: be_bytes 8 b).
Proof.
  intros b Hb. rewrite two64_pow in Hb. split; [cbn [sz length]; lia|].
  intros rest f Hf. destruct f as [|f]; [cbn [sz] in Hf; lia|].
  cbn [app]. rewrite dec_S. change (classify 203) with KF64. cbn [dec_kind].
  rewrite read_be_8 by assumption. reflexivity.
Qed.

Lemma good_int : forall z o, (- two63z <= z < two64z)%Z -> In o (int_opts z) -> good (VInt z) o.
Proof.
  intros z o R H. destruct (int_opts_spec z o R H) as [b [o' [E [_ [_ D]]]]].
  split; [subst o; cbn [sz length]; lia|].
  intros rest f Hf. destruct f as [|f]; [cbn [sz] in Hf; lia|]. apply D.
Qed.

Lemma good_str : forall s h, In h (str_hdr_opts (len s)) -> good (VStr s) (h ++ s).
Proof.
  intros s h H. destruct (str_hdr_spec _ _ H) as [b [h' [E [_ [_ D]]]]].
  split; [subst h; cbn [sz length app]; lia|].
  intros rest f Hf. destruct f as [|f]; [cbn [sz] in Hf; lia|].
  rewrite <- app_assoc. apply D. apply take_app.
Qed.

Lemma good_bin : forall s h, In h (bin_hdr_opts (len s)) -> good (VBin s) (h ++ s).
Proof.
  intros s h H. destruct (bin_hdr_spec _ _ H) as [b [h' [E D]]].
  split; [subst h; cbn [sz length app]; lia|].
  intros rest f Hf. destruct f as [|f]; [cbn [sz] in Hf; lia|].
  rewrite <- app_assoc. apply D. apply take_app.
Qed.

Lemma good_arr : forall l h body, In h (arr_hdr_opts (len l)) -> seq_good l body ->
  good (VArr l) (h ++ body).
Proof.
  intros l h body H [G1 G2]. destruct (arr_hdr_spec _ _ H) as [b [h' [E D]]].
  unfold good. rewrite sz_arr. split; [subst h; rewrite app_length; cbn [length]; lia|].
  intros rest f Hf. destruct f as [|f]; [lia|].
  rewrite <- app_assoc, D, G2 by lia. reflexivity.
Qed.

Lemma good_map : forall l h body, In h (map_hdr_opts (len l)) -> pairs_good l body ->
  good (VMap l) (h ++ body).
Proof.
  intros l h body H [G1 G2]. destruct (map_hdr_spec _ _ H) as [b [h' [E D]]].
  unfold good. rewrite sz_map. split; [subst h; rewrite app_length; cbn [length]; lia|].
  intros rest f Hf. destruct f as [|f]; [lia|].
  rewrite <- app_assoc, D, G2 by lia. reflexivity.
Qed.

Lemma seq_good_nil : seq_good [] [].
Proof.
  split; [cbn; lia|]. intros rest f _. rewrite len_nil. apply dec_seq_zero.
Qed.

Lemma seq_good_cons : forall x bx r br, good x bx -> seq_good r br -> seq_good (x :: r) (bx ++ br).
Proof.
  intros x bx r br [X1 X2] [R1 R2]. unfold seq_good. rewrite ssum_cons.
  split; [rewrite app_length; lia|].
  intros rest f Hf. destruct f as [|f]; [lia|].
  rewrite dec_seq_eq, len_cons.
  destruct (N.eqb_spec (N.succ (len r)) 0) as [E|_]; [lia|].
  rewrite <- app_assoc, X2 by lia.
  replace (N.succ (len r) - 1) with (len r) by lia.
  rewrite R2 by lia. reflexivity.
Qed.

Lemma pairs_good_nil : pairs_good [] [].
Proof.
  split; [cbn; lia|]. intros rest f _. rewrite len_nil. apply dec_pairs_zero.
Qed.

Lemma pairs_good_cons : forall a ba b bb r br, good a ba -> good b bb -> pairs_good r br ->
  pairs_good ((a, b) :: r) (ba ++ bb ++ br).
Proof.
  intros a ba b bb r br [A1 A2] [B1 B2] [R1 R2]. unfold pairs_good. rewrite psum_cons.
  split; [rewrite !app_length; lia|].
  intros rest f Hf. destruct f as [|f]; [lia|].
  rewrite dec_pairs_eq, len_cons.
  destruct (N.eqb_spec (N.succ (len r)) 0) as [E|_]; [lia|].
  rewrite <- !app_assoc, A2 by lia. rewrite B2 by lia.
  replace (N.succ (len r) - 1) with (len r) by lia.
  rewrite R2 by lia. reflexivity.
Qed.

(* ------------------------------------------------------------------ *)
(* every enc_alt encoding is good *)
Lemma wf_int_range : forall z, wf_val (VInt z) = true -> (- two63z <= z < two64z)%Z.
Proof. intros z W. cbn [wf_val] in W. lia. Qed.

Lemma alt_list_good : forall l,
  Forall (fun x => wf_val x = true -> forall ch, good x (fst (enc_alt ch x))) l ->
  forallb wf_val l = true -> forall ch, seq_good l (fst (enc_alt_list l ch)).
Proof.
  intros l HF. induction HF as [|x r Hx HF IH]; intros W ch.
  - cbn [enc_alt_list fst]. apply seq_good_nil.
  - cbn [forallb] in W. apply andb_prop in W. destruct W as [Wx Wr].
    cbn [enc_alt_list]. specialize (Hx Wx ch).
    destruct (enc_alt ch x) as [bx ch1]. specialize (IH Wr ch1).
    destruct (enc_alt_list r ch1) as [br ch2]. cbn [fst] in *.
    now apply seq_good_cons.
Qed.

Lemma alt_pairs_good : forall l,
  Forall (fun kv => (wf_val (fst kv) = true -> forall ch, good (fst kv) (fst (enc_alt ch (fst kv)))) /\
                    (wf_val (snd kv) = true -> forall ch, good (snd kv) (fst (enc_alt ch (snd kv))))) l ->
  forallb (fun kv => wf_val (fst kv) && wf_val (snd kv)) l = true ->
  forall ch, pairs_good l (fst (enc_alt_pairs l ch)).
Proof.
  intros l HF. induction HF as [|[a b] r [Ha Hb] HF IH]; intros W ch.
  - cbn [enc_alt_pairs fst]. apply pairs_good_nil.
  - cbn [forallb fst snd] in W, Ha, Hb. apply andb_prop in W. destruct W as [Wab Wr].
    apply andb_prop in Wab. destruct Wab as [Wa Wb].
    cbn [enc_alt_pairs]. specialize (Ha Wa ch).
    destruct (enc_alt ch a) as [ba ch1]. specialize (Hb Wb ch1).
    destruct (enc_alt ch1 b) as [bb ch2]. specialize (IH Wr ch2).
    destruct (enc_alt_pairs r ch2) as [br ch3]. cbn [fst] in *.
    now apply pairs_good_cons.
Qed.

Lemma alt_good : forall v, wf_val v = true -> forall ch, good v (fst (enc_alt ch v)).
Proof.
  induction v as [|b|z|s|s|b|l IH|l IH] using mval_ind'; intros W ch.
  - rewrite enc_alt_nil. apply good_nil.
  - rewrite enc_alt_bool. apply good_bool.
  - rewrite enc_alt_int. destruct (take_choice ch) as [k ch']. cbn [fst].
    apply wf_int_range in W. apply good_int; [assumption|].
    apply pick_in. now apply int_opts_nonempty.
  - rewrite enc_alt_str. destruct (take_choice ch) as [k ch']. cbn [fst].
    cbn [wf_val] in W. apply andb_prop in W. destruct W as [_ W]. apply N.ltb_lt in W.
    apply good_str. apply pick_in. eapply in_nonempty. now apply enc_str_hdr_in.
  - rewrite enc_alt_bin. destruct (take_choice ch) as [k ch']. cbn [fst].
    cbn [wf_val] in W. apply andb_prop in W. destruct W as [_ W]. apply N.ltb_lt in W.
    apply good_bin. apply pick_in. eapply in_nonempty. now apply enc_bin_hdr_in.
  - rewrite enc_alt_f64. cbn [fst]. cbn [wf_val] in W. apply N.ltb_lt in W. now apply good_f64.
  - rewrite enc_alt_arr. destruct (take_choice ch) as [k ch'].
    cbn [wf_val] in W. apply andb_prop in W. destruct W as [W1 W2]. apply N.ltb_lt in W1.
    pose proof (alt_list_good l IH W2 ch') as G.
    destruct (enc_alt_list l ch') as [body ch'']. cbn [fst] in *.
    apply good_arr; [|assumption].
    apply pick_in. eapply in_nonempty. now apply enc_arr_hdr_in.
  - rewrite enc_alt_map. destruct (take_choice ch) as [k ch'].
    cbn [wf_val] in W. apply andb_prop in W. destruct W as [W1 W2]. apply N.ltb_lt in W1.
    pose proof (alt_pairs_good l IH W2 ch') as G.
    destruct (enc_alt_pairs l ch') as [body ch'']. cbn [fst] in *.
    apply good_map; [|assumption].
    apply pick_in. eapply in_nonempty. now apply enc_map_hdr_in.
Qed.

Theorem mp_roundtrip : forall v ch rest, wf_val v = true ->
  decode (fst (enc_alt ch v) ++ rest) = DOk v rest.
Proof.
  intros v ch rest W. destruct (alt_good v W ch) as [G1 G2].
  unfold decode. apply G2. rewrite app_length. lia.
Qed.

(* ------------------------------------------------------------------ *)
(* the canonical encoding is good *)
Lemma enc_arr_eq : forall l, enc (VArr l) = enc_arr_hdr (len l) ++ flat_map enc l.
Proof. reflexivity. Qed.
Lemma enc_map_eq : forall l, enc (VMap l) =
  enc_map_hdr (len l) ++ flat_map (fun kv => enc (fst kv) ++ enc (snd kv)) l.
Proof. reflexivity. Qed.

Lemma canon_list_good : forall l,
  Forall (fun x => wf_val x = true -> good x (enc x)) l ->
  forallb wf_val l = true -> seq_good l (flat_map enc l).
Proof.
  intros l HF. induction HF as [|x r Hx HF IH]; intros W.
  - cbn [flat_map]. apply seq_good_nil.
  - cbn [forallb] in W. apply andb_prop in W. destruct W as [Wx Wr].
    cbn [flat_map]. apply seq_good_cons; [now apply Hx|now apply IH].
Qed.

Lemma canon_pairs_good : forall l,
  Forall (fun kv => (wf_val (fst kv) = true -> good (fst kv) (enc (fst kv))) /\
                    (wf_val (snd kv) = true -> good (snd kv) (enc (snd kv)))) l ->
  forallb (fun kv => wf_val (fst kv) && wf_val (snd kv)) l = true ->
  pairs_good l (flat_map (fun kv => enc (fst kv) ++ enc (snd kv)) l).
Proof.
  intros l HF. induction HF as [|[a b] r [Ha Hb] HF IH]; intros W.
  - cbn [flat_map]. apply pairs_good_nil.
  - cbn [forallb fst snd] in W, Ha, Hb. apply andb_prop in W. destruct W as [Wab Wr].
    apply andb_prop in Wab. destruct Wab as [Wa Wb].
    cbn [flat_map fst snd]. rewrite <- app_assoc.
    apply pairs_good_cons; [now apply Ha|now apply Hb|now apply IH].
Qed.

Lemma canon_good : forall v, wf_val v = true -> good v (enc v).
Proof.
  induction v as [|b|z|s|s|b|l IH|l IH] using mval_ind'; intros W.
  - apply good_nil.
  - destruct b; [apply (good_bool true)|apply (good_bool false)].
  - apply wf_int_range in W. cbn [enc]. apply good_int; [assumption|]. now apply enc_int_in_opts.
  - cbn [wf_val] in W. apply andb_prop in W. destruct W as [_ W]. apply N.ltb_lt in W.
    cbn [enc]. apply good_str. now apply enc_str_hdr_in.
  - cbn [wf_val] in W. apply andb_prop in W. destruct W as [_ W]. apply N.ltb_lt in W.
    cbn [enc]. apply good_bin. now apply enc_bin_hdr_in.
  - cbn [wf_val] in W. apply N.ltb_lt in W. cbn [enc]. now apply good_f64.
  - rewrite enc_arr_eq.
    cbn [wf_val] in W. apply andb_prop in W. destruct W as [W1 W2]. apply N.ltb_lt in W1.
    apply good_arr; [now apply enc_arr_hdr_in|]. now apply canon_list_good.
  - rewrite enc_map_eq.
    cbn [wf_val] in W. apply andb_prop in W. destruct W as [W1 W2]. apply N.ltb_lt in W1.
    apply good_map; [now apply enc_map_hdr_in|]. now apply canon_pairs_good.
Qed.

Theorem mp_roundtrip_canon : forall v rest, wf_val v = true -> decode (enc v ++ rest) = DOk v rest.
Proof.
  intros v rest W. destruct (canon_good v W) as [G1 G2].
  unfold decode. apply G2. rewrite app_length. lia.
Qed.

(* ------------------------------------------------------------------ *)
(* bytes produced are bytes *)
Lemma bytes_ok_nil : bytes_ok [] = true. Proof. reflexivity. Qed.
Lemma bytes_ok_cons : forall x l, bytes_ok (x :: l) = (x <? 256) && bytes_ok l.
Proof. reflexivity. Qed.
Lemma bytes_ok_app : forall a b, bytes_ok (a ++ b) = bytes_ok a && bytes_ok b.
Proof. intros. apply forallb_app. Qed.

Ltac bytes_tac :=
  rewrite ?bytes_ok_cons, ?be_bytes_ok, ?bytes_ok_nil;
  repeat (apply andb_true_intro; split); try reflexivity; try (apply N.ltb_lt; lia).

Lemma enc_uint_ok : forall n, bytes_ok (enc_uint n) = true.
Proof.
  intros n. unfold enc_uint, two32.
  destruct (N.leb_spec n 127). { bytes_tac. }
  destruct (N.leb_spec n 255). { bytes_tac. }
  destruct (N.leb_spec n 65535). { bytes_tac. }
  destruct (N.ltb_spec n 4294967296); bytes_tac.
Qed.

Lemma twos1_lt : forall z, (z < 0)%Z -> twos 1 z < 256.
Proof. intros z H. unfold twos. rewrite pow256_1. lia. Qed.

Lemma enc_int_ok : forall z, bytes_ok (enc_int z) = true.
Proof.
  intros z. unfold enc_int.
  destruct (Z.leb_spec 0 z). { apply enc_uint_ok. }
  assert (T := twos1_lt z ltac:(lia)).
  destruct (Z.leb_spec (-32) z). { bytes_tac. }
  destruct (Z.leb_spec (-128) z). { bytes_tac. }
  destruct (Z.leb_spec (-32768) z). { bytes_tac. }
  destruct (Z.leb_spec (-2147483648) z); bytes_tac.
Qed.

Lemma enc_str_hdr_ok : forall n, bytes_ok (enc_str_hdr n) = true.
Proof.
  intros n. unfold enc_str_hdr.
  destruct (N.ltb_spec n 32). { bytes_tac. }
  destruct (N.ltb_spec n 256). { bytes_tac. }
  destruct (N.ltb_spec n 65536); bytes_tac.
Qed.

Lemma enc_bin_hdr_ok : forall n, bytes_ok (enc_bin_hdr n) = true.
Proof.
  intros n. unfold enc_bin_hdr.
  destruct (N.ltb_spec n 256). { bytes_tac. }
  destruct (N.ltb_spec n 65536); bytes_tac.
Qed.

Lemma enc_arr_hdr_ok : forall n, bytes_ok (enc_arr_hdr n) = true.
Proof.
  intros n. unfold enc_arr_hdr.
  destruct (N.ltb_spec n 16). { bytes_tac. }
  destruct (N.ltb_spec n 65536); bytes_tac.
Qed.

Lemma enc_map_hdr_ok : forall n, bytes_ok (enc_map_hdr n) = true.
Proof.
  intros n. unfold enc_map_hdr.
  destruct (N.ltb_spec n 16). { bytes_tac. }
  destruct (N.ltb_spec n 65536); bytes_tac.
Qed.

Lemma flat_map_ok : forall A (g : A -> bytes) l,
  Forall (fun x => bytes_ok (g x) = true) l -> bytes_ok (flat_map g l) = true.
Proof.
  intros A g l H. induction H as [|x r Hx H IH]; [reflexivity|].
  cbn [flat_map]. rewrite bytes_ok_app, Hx, IH. reflexivity.
Qed.

Theorem enc_bytes_ok : forall v, wf_val v = true -> bytes_ok (enc v) = true.
Proof.
  induction v as [|b|z|s|s|b|l IH|l IH] using mval_ind'; intros W.
  - reflexivity.
  - destruct b; reflexivity.
  - cbn [enc]. apply enc_int_ok.
  - cbn [wf_val] in W. apply andb_prop in W. destruct W as [W _].
    cbn [enc]. rewrite bytes_ok_app, enc_str_hdr_ok, W. reflexivity.
  - cbn [wf_val] in W. apply andb_prop in W. destruct W as [W _].
    cbn [enc]. rewrite bytes_ok_app, enc_bin_hdr_ok, W. reflexivity.
  - cbn [enc]. bytes_tac.
  - rewrite enc_arr_eq, bytes_ok_app, enc_arr_hdr_ok. cbn [andb].
    cbn [wf_val] in W. apply andb_prop in W. destruct W as [_ W].
    apply flat_map_ok. rewrite forallb_forall in W.
    rewrite Forall_forall in *. intros x Hx. apply IH; [assumption|]. now apply W.
  - rewrite enc_map_eq, bytes_ok_app, enc_map_hdr_ok. cbn [andb].
    cbn [wf_val] in W. apply andb_prop in W. destruct W as [_ W].
    apply flat_map_ok. rewrite forallb_forall in W.
    rewrite Forall_forall in *. intros [a b] Hx. cbn [fst snd].
    specialize (W _ Hx). cbn [fst snd] in W. apply andb_prop in W. destruct W as [Wa Wb].
    specialize (IH _ Hx). cbn [fst snd] in IH. destruct IH as [Ia Ib].
    rewrite bytes_ok_app, Ia, Ib by assumption. reflexivity.
Qed.

(* ------------------------------------------------------------------ *)
Print Assumptions dec_fuel_mono.
Print Assumptions mp_roundtrip.
Print Assumptions mp_roundtrip_canon.
Print Assumptions dec_int64_opts.
Print Assumptions dec_int64_canon.
Print Assumptions dec_string_opts.
Print Assumptions dec_string_canon.
Print Assumptions enc_bytes_ok.
Print Assumptions dec_consumes_prefix.
