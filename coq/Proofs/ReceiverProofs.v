(* Invariants of the serving-side transition system (Model/Receiver.v). *)
From Coq Require Import ZifyBool Lia.
From FMP Require Import Base.Bytes Base.Lts Model.Events Model.Skeleton Model.Props Model.Receiver.
Open Scope Z_scope.

(* the mechanism before the repairs: bare sends to the task loop, one shared key for all notifications *)
Definition old_skeleton : skeleton :=
  mkSk true true true  true true true  true true
       true true true  true true true  true true true
       true true true true
       true true
       true true true true
       false false false false
       false true
       false.

(* ---------------------------------------------------------------------------------------------------------- *)
(* handlers list: lookup / update                                                                              *)
(* ---------------------------------------------------------------------------------------------------------- *)

Lemma hfind_id : forall h hs x, hfind h hs = Some x -> hd_id x = h.
Proof.
  induction hs as [|y r IH]; simpl; intros x H; [discriminate|].
  destruct (hd_id y =? h) eqn:E; [inversion H; subst; lia | auto].
Qed.

Lemma hfind_In : forall h hs x, hfind h hs = Some x -> In x hs.
Proof.
  induction hs as [|y r IH]; simpl; intros x H; [discriminate|].
  destruct (hd_id y =? h); [inversion H; auto | auto].
Qed.

Lemma hfind_hupdate : forall f h h' hs,
    (forall x, hd_id (f x) = hd_id x) ->
    hfind h' (hupdate h f hs) = if h' =? h then option_map f (hfind h' hs) else hfind h' hs.
Proof.
  intros f h h' hs Hf. induction hs as [|y r IH]; simpl.
  - destruct (h' =? h); reflexivity.
  - destruct (hd_id y =? h) eqn:E1; simpl.
    + rewrite Hf. destruct (hd_id y =? h') eqn:E2.
      * replace (h' =? h) with true by lia. reflexivity.
      * destruct (h' =? h) eqn:E3; [lia | reflexivity].
    + destruct (hd_id y =? h') eqn:E2.
      * replace (h' =? h) with false by lia. reflexivity.
      * exact IH.
Qed.

Lemma hfind_app1 : forall h hs x,
    hfind h (hs ++ [x]) = match hfind h hs with
                          | Some y => Some y
                          | None => if hd_id x =? h then Some x else None
                          end.
Proof.
  induction hs as [|y r IH]; intros x; simpl; [reflexivity|].
  destruct (hd_id y =? h); [reflexivity | apply IH].
Qed.

Lemma map_id_hupdate : forall f h hs,
    (forall x, hd_id (f x) = hd_id x) -> map hd_id (hupdate h f hs) = map hd_id hs.
Proof.
  intros f h hs Hf. induction hs as [|y r IH]; simpl; [reflexivity|].
  destruct (hd_id y =? h); simpl; [rewrite Hf; reflexivity | rewrite IH; reflexivity].
Qed.

Lemma nodup_hfind : forall hs x, NoDup (map hd_id hs) -> In x hs -> hfind (hd_id x) hs = Some x.
Proof.
  induction hs as [|y r IH]; simpl; intros x Hn Hi; [contradiction|].
  inversion Hn as [|a l Hni Hn']; subst.
  destruct Hi as [->|Hi].
  - rewrite Z.eqb_refl. reflexivity.
  - destruct (hd_id y =? hd_id x) eqn:E.
    + exfalso. apply Hni. replace (hd_id y) with (hd_id x) by lia. apply in_map. exact Hi.
    + apply IH; assumption.
Qed.

Lemma nodup_snoc : forall (l : list Z) a, NoDup l -> ~ In a l -> NoDup (l ++ [a]).
Proof.
  induction l as [|b r IH]; simpl; intros a Hn Hi.
  - constructor; [intros []| constructor].
  - inversion Hn; subst. constructor.
    + rewrite in_app_iff. simpl. intros [H|[H|[]]]; [contradiction | subst; apply Hi; auto].
    + apply IH; [assumption | intro; apply Hi; auto].
Qed.

(* the task loop's exit: cancel every task *)
Definition cancel_all (vs : list Z) (hs : list handler) : list handler :=
  fold_left (fun acc h => hupdate h h_set_ctx acc) vs hs.

Lemma hfind_cancel_all : forall vs hs h,
    hfind h (cancel_all vs hs) = option_map (fun x => if memz h vs then h_set_ctx x else x) (hfind h hs).
Proof.
  unfold cancel_all. induction vs as [|v vs IH]; intros hs h; simpl.
  - destruct (hfind h hs); reflexivity.
  - rewrite IH. rewrite hfind_hupdate by reflexivity.
    destruct (h =? v) eqn:E; simpl; [|reflexivity].
    destruct (hfind h hs) as [x|]; simpl; [|reflexivity].
    destruct (memz h vs); reflexivity.
Qed.

Lemma map_id_cancel_all : forall vs hs, map hd_id (cancel_all vs hs) = map hd_id hs.
Proof.
  unfold cancel_all. induction vs as [|v vs IH]; intros hs; simpl; [reflexivity|].
  rewrite IH. apply map_id_hupdate. reflexivity.
Qed.

(* ---------------------------------------------------------------------------------------------------------- *)
(* task table                                                                                                  *)
(* ---------------------------------------------------------------------------------------------------------- *)

Lemma tfind_tremove : forall k k' t, tfind k' (tremove k t) = if k' =? k then None else tfind k' t.
Proof.
  intros k k' t. unfold tremove. induction t as [|[a b] r IH]; simpl.
  - destruct (k' =? k); reflexivity.
  - destruct (a =? k) eqn:E1; simpl.
    + rewrite IH. destruct (k' =? k) eqn:E2; [reflexivity|].
      replace (k' =? a) with false by lia. reflexivity.
    + destruct (k' =? a) eqn:E2; [|exact IH].
      replace (k' =? k) with false by lia. reflexivity.
Qed.

Lemma tfind_tset : forall k h k' t, tfind k' (tset k h t) = if k' =? k then Some h else tfind k' t.
Proof.
  intros k h k' t. unfold tset. simpl. rewrite tfind_tremove. destruct (k' =? k); reflexivity.
Qed.

Lemma tfind_memz : forall k t h, tfind k t = Some h -> memz h (map snd t) = true.
Proof.
  induction t as [|[a b] r IH]; simpl; intros h H; [discriminate|].
  destruct (k =? a).
  - inversion H; subst. rewrite Z.eqb_refl. reflexivity.
  - rewrite (IH _ H). apply orb_true_r.
Qed.

(* ---------------------------------------------------------------------------------------------------------- *)
(* simple invariants valid for every skeleton                                                                  *)
(* ---------------------------------------------------------------------------------------------------------- *)

Ltac inv_some :=
  match goal with
  | H : Some _ = Some _ |- _ => inversion H; clear H; subst
  | H : None = Some _ |- _ => discriminate H
  end.

(* case analysis of one step: afterwards the post-state is an explicit term *)
Ltac step_cases H :=
  unfold rstep, with_hist in H;
  repeat match type of H with
         | context [match ?l with RInCall _ => _ | _ => _ end] => destruct l
         | context [match recv ?s with RIdle => _ | _ => _ end] => destruct (recv s) eqn:?
         | context [match hfind ?h ?l with Some _ => _ | None => _ end] => destruct (hfind h l) eqn:?
         | context [match tfind ?h ?l with Some _ => _ | None => _ end] => destruct (tfind h l) eqn:?
         | context [match hd_pc ?x with HNew => _ | _ => _ end] => destruct (hd_pc x) eqn:?
         | context [if ?b then _ else _] => destruct b eqn:?
         end;
  try discriminate H; inversion H; clear H; subst.

Definition ids_ok (st : rstate) : Prop :=
  NoDup (map hd_id (handlers st)) /\ (forall i, In i (map hd_id (handlers st)) -> i < next_hid st).

Lemma ids_ok_step : forall sk st l st', ids_ok st -> rstep sk st l = Some st' -> ids_ok st'.
Proof.
  intros sk st l st' [Hn Hb] H.
  assert (Hfresh : ~ In (next_hid st) (map hd_id (handlers st))) by (intro Hi; apply Hb in Hi; lia).
  step_cases H; unfold ids_ok; simpl;
    repeat rewrite map_id_hupdate by reflexivity; try rewrite map_id_cancel_all; try (split; assumption).
  all: rewrite map_app; simpl; (split; [apply nodup_snoc; assumption|]);
    intros i Hi; rewrite in_app_iff in Hi; simpl in Hi; destruct Hi as [Hi|[Hi|[]]]; [apply Hb in Hi; lia | lia].
Qed.

Lemma ids_ok_run : forall sk ls st, run (rstep sk) rinit ls = Some st -> ids_ok st.
Proof.
  intros sk ls st H. eapply (invariant_run _ _ (rstep sk) ids_ok); [| |exact H].
  - intros; eapply ids_ok_step; eauto.
  - split; simpl; [constructor | intros i []].
Qed.

Lemma run_In_hfind : forall sk ls st x,
    run (rstep sk) rinit ls = Some st -> In x (handlers st) -> hfind (hd_id x) (handlers st) = Some x.
Proof.
  intros sk ls st x H Hi. apply nodup_hfind; [|exact Hi]. apply (ids_ok_run _ _ _ H).
Qed.

Theorem recv_taskloop_exits_only_after_stop : forall sk ls st,
    run (rstep sk) rinit ls = Some st -> tl_alive st = false -> stopped st = true.
Proof.
  intros sk ls st H.
  eapply (invariant_run _ _ (rstep sk) (fun st => tl_alive st = false -> stopped st = true)); [| |exact H].
  - intros s l s' Hi Hs. step_cases Hs; simpl; auto; try (intros; congruence).
  - simpl. discriminate.
Qed.

(* ---------------------------------------------------------------------------------------------------------- *)
(* C11                                                                                                         *)
(* ---------------------------------------------------------------------------------------------------------- *)

Theorem recv_no_goroutine_stuck : forall ls st,
    run (rstep expected_skeleton) rinit ls = Some st -> stopped st = true ->
    recv_can_move expected_skeleton st = true /\
    (forall x, In x (handlers st) -> hd_pc x = HEnding -> ending_can_move expected_skeleton st (hd_id x) = true) /\
    (tl_alive st = true -> rstep expected_skeleton st RTaskLoopExit <> None).
Proof.
  intros ls st H Hs. split; [|split].
  - unfold recv_can_move. destruct (recv st) eqn:E; try reflexivity.
    + assert (X : rstep expected_skeleton st RBeginStop <> None)
        by (unfold rstep; rewrite E, Hs; simpl; discriminate).
      destruct (rstep expected_skeleton st RBeginRv), (rstep expected_skeleton st RBeginStop); congruence.
    + assert (X : rstep expected_skeleton st RCancelStop <> None)
        by (unfold rstep; rewrite E, Hs; simpl; discriminate).
      destruct (rstep expected_skeleton st RCancelRv), (rstep expected_skeleton st RCancelStop); congruence.
  - intros x Hi Hp. unfold ending_can_move.
    assert (X : rstep expected_skeleton st (REndStop (hd_id x)) <> None).
    { unfold rstep. rewrite (run_In_hfind _ _ _ _ H Hi), Hp, Hs. simpl. discriminate. }
    destruct (rstep expected_skeleton st (REndRv (hd_id x))), (rstep expected_skeleton st (REndStop (hd_id x)));
      congruence.
  - intros Ha. unfold rstep. rewrite Hs, Ha. simpl. discriminate.
Qed.

(* ---------------------------------------------------------------------------------------------------------- *)
(* the defects of the old mechanism                                                                            *)
(* ---------------------------------------------------------------------------------------------------------- *)

Theorem recv_c09_shared_key_refuted : exists ls st,
    run (rstep old_skeleton) rinit ls = Some st /\ c09_only_own (rtrace st) = false.
Proof.
  exists [RInNotify; RBeginRv; RInNotify; RBeginRv; RHandlerRet 0; REndRv 0].
  eexists. split; [vm_compute; reflexivity | vm_compute; reflexivity].
Qed.

Theorem recv_shared_key_close_refuted : exists ls st x,
    run (rstep old_skeleton) rinit ls = Some st /\ tl_alive st = false /\ In x (handlers st) /\
    hd_pc x = HRun /\ hd_ctx x = false.
Proof.
  exists [RInNotify; RBeginRv; RInNotify; RBeginRv; RStop; RTaskLoopExit].
  eexists. exists (mkHandler 0 (-1) true (-1) HRun false).
  split; [vm_compute; reflexivity|]. simpl. repeat split; auto.
Qed.

Lemma parked_step : forall h st l st',
    tl_alive st = false -> (exists x, hfind h (handlers st) = Some x /\ hd_pc x = HEnding) ->
    rstep old_skeleton st l = Some st' ->
    tl_alive st' = false /\ exists x', hfind h (handlers st') = Some x' /\ hd_pc x' = HEnding.
Proof.
  intros h st l st' Ha [x [Hf Hp]] H.
  step_cases H; simpl in *; rewrite ?Ha in *; rewrite ?andb_false_r in *; simpl in *; try congruence;
    try (split; [reflexivity|]);
    repeat rewrite hfind_hupdate by reflexivity; try rewrite hfind_app1; rewrite ?Hf; eauto.
  destruct (h =? h0) eqn:E; simpl; eauto.
Qed.

Theorem recv_taskend_bare_parks_forever : exists ls st h,
    run (rstep old_skeleton) rinit ls = Some st /\ stopped st = true /\
    (exists x, hfind h (handlers st) = Some x /\ hd_pc x = HEnding) /\
    forall ls' st', run (rstep old_skeleton) st ls' = Some st' ->
                    exists x', hfind h (handlers st') = Some x' /\ hd_pc x' = HEnding.
Proof.
  exists [RInCall 5; RBeginRv; RStop; RTaskLoopExit; RHandlerRet 0].
  eexists. exists 0.
  split; [vm_compute; reflexivity|].
  split; [reflexivity|].
  split; [eexists; split; reflexivity|].
  intros ls' st' H.
  refine (proj2 (invariant_run _ _ (rstep old_skeleton)
            (fun s => tl_alive s = false /\ exists x, hfind 0 (handlers s) = Some x /\ hd_pc x = HEnding)
            _ ls' _ st' _ H)).
  - intros s l s' [Ha Hx] Hs. eapply parked_step; eauto.
  - split; [reflexivity | eexists; split; reflexivity].
Qed.

(* ---------------------------------------------------------------------------------------------------------- *)
(* the invariant of the serving side with one key per notification                                             *)
(* ---------------------------------------------------------------------------------------------------------- *)

Definition hwf (n lk : Z) (x : handler) : Prop :=
  hd_id x < n /\ lk <= hd_key x /\ (hd_notify x = true -> hd_key x < 0) /\
  (hd_notify x = false -> hd_seq x = hd_key x /\ 0 <= hd_key x).

Record Inv (st : rstate) : Prop := {
  i_nkey : last_nkey st <= 0;
  i_wf : forall h x, hfind h (handlers st) = Some x -> hwf (next_hid st) (last_nkey st) x;
  i_keys : forall h1 x1 h2 x2, hfind h1 (handlers st) = Some x1 -> hfind h2 (handlers st) = Some x2 ->
                               hd_pc x1 <> HGone -> hd_pc x2 <> HGone -> hd_key x1 = hd_key x2 -> h1 = h2;
  i_tab : forall k h, tfind k (tasks st) = Some h -> exists x, hfind h (handlers st) = Some x /\ hd_key x = k;
  i_begin : forall h, recv st = RBegin h -> exists x, hfind h (handlers st) = Some x /\ hd_pc x = HNew;
  i_cov : tl_alive st = true -> forall h x, hfind h (handlers st) = Some x -> hd_pc x = HRun ->
                                            hd_ctx x = true \/ tfind (hd_key x) (tasks st) = Some h;
  i_dead : tl_alive st = false -> forall h x, hfind h (handlers st) = Some x -> hd_pc x = HRun -> hd_ctx x = true
}.

(* rewrite every lookup in the post-state into a lookup in the pre-state *)
Ltac norm_hfind :=
  repeat match goal with
         | H1 : hfind ?h ?l = Some _, H : context [hfind ?h ?l] |- _ => rewrite H1 in H
         | H : hfind _ (hupdate _ _ _) = Some _ |- _ => rewrite hfind_hupdate in H by reflexivity
         | H : hfind _ (_ ++ [_]) = Some _ |- _ => rewrite hfind_app1 in H
         | H : hfind _ (fold_left _ _ _) = Some _ |- _ =>
             change (fold_left (fun acc h => hupdate h h_set_ctx acc)) with cancel_all in H
         | H : hfind _ (cancel_all _ _) = Some _ |- _ => rewrite hfind_cancel_all in H
         | H : (if ?a =? ?b then _ else _) = Some _ |- _ =>
             let E := fresh "E" in destruct (a =? b) eqn:E; [apply Z.eqb_eq in E | apply Z.eqb_neq in E]
         | H : option_map _ (hfind ?h ?l) = Some _ |- _ =>
             let E := fresh "Ef" in destruct (hfind h l) eqn:E; simpl in H; [|discriminate H]
         | H : match hfind ?h ?l with Some _ => _ | None => _ end = Some _ |- _ =>
             let E := fresh "Ef" in destruct (hfind h l) eqn:E
         | H : context [if memz ?a ?b then _ else _] |- _ =>
             let E := fresh "Em" in destruct (memz a b) eqn:E
         | H : Some _ = Some _ |- _ => inversion H; clear H
         | H : None = Some _ |- _ => discriminate H
         end.

Lemma hfind_fresh : forall st, Inv st -> hfind (next_hid st) (handlers st) = None.
Proof.
  intros st Hi. destruct (hfind (next_hid st) (handlers st)) as [x|] eqn:E; [|reflexivity].
  pose proof (hfind_id _ _ _ E). destruct (i_wf _ Hi _ _ E) as [A _]. lia.
Qed.

Lemma step_wf : forall sk st l st', sk_notify_key_unique sk = true -> Inv st -> rstep sk st l = Some st' ->
    forall h x, hfind h (handlers st') = Some x -> hwf (next_hid st') (last_nkey st') x.
Proof.
  intros sk st l st' Hu Hi H h x Hf. pose proof (i_nkey _ Hi) as Hk.
  unfold rstep in H; rewrite ?Hu in H.
  step_cases H; simpl in *; norm_hfind; subst;
    try (eapply (i_wf _ Hi); eassumption);
    try match goal with
        | Ho : hfind _ (handlers st) = Some ?y |- hwf _ _ _ =>
            let W := fresh "W" in
            pose proof (i_wf _ Hi _ _ Ho) as W; unfold hwf in *; simpl in *;
            destruct W as (W1 & W2 & W3 & W4); repeat split; auto; try lia; try (apply W4; assumption)
        end.
  all: unfold hwf; simpl; repeat split; intros; try discriminate; lia.
Qed.

Lemma live_call_false : forall q hs h y,
    live_call_with_seq q hs = false -> hfind h hs = Some y -> hd_notify y = false -> hd_seq y = q -> hd_pc y = HGone.
Proof.
  intros q hs h y Hl Hf Hn Hs. apply hfind_In in Hf.
  destruct (hd_pc y) eqn:Ep; try reflexivity; exfalso;
    (assert (X : live_call_with_seq q hs = true);
     [unfold live_call_with_seq; apply existsb_exists; exists y; split; [exact Hf|];
      rewrite Hn, Ep, Hs, Z.eqb_refl; reflexivity | congruence]).
Qed.

(* a live handler filed under a non-negative key serves the call with that seqno *)
Lemma nonneg_key_is_call : forall st h y, Inv st -> hfind h (handlers st) = Some y -> 0 <= hd_key y ->
    hd_notify y = false /\ hd_seq y = hd_key y.
Proof.
  intros st h y Hi Hf Hk. destruct (i_wf _ Hi _ _ Hf) as (W1 & W2 & W3 & W4).
  destruct (hd_notify y); [specialize (W3 eq_refl); lia | split; [reflexivity | apply W4; reflexivity]].
Qed.

Lemma step_keys : forall sk st l st', sk_notify_key_unique sk = true -> Inv st -> rstep sk st l = Some st' ->
    forall h1 x1 h2 x2, hfind h1 (handlers st') = Some x1 -> hfind h2 (handlers st') = Some x2 ->
                        hd_pc x1 <> HGone -> hd_pc x2 <> HGone -> hd_key x1 = hd_key x2 -> h1 = h2.
Proof.
  intros sk st l st' Hu Hi H h1 x1 h2 x2 Hf1 Hf2 Hp1 Hp2 Hk. pose proof (i_nkey _ Hi) as Hnk.
  unfold rstep in H; rewrite ?Hu in H.
  step_cases H; simpl in *; norm_hfind; subst; simpl in *; try congruence;
    try (eapply (i_keys _ Hi); eassumption).
  all: try match goal with
           | Hr : recv _ = RBegin _ |- _ => destruct (i_begin _ Hi _ Hr) as (yb & Hyb & Hpb)
           end.
  all: try (eapply (i_keys _ Hi); try eassumption; congruence).
  all: exfalso.
  all: try match goal with
           | Hb : (_ <? 0) || live_call_with_seq _ _ = false |- _ =>
               apply orb_false_elim in Hb; destruct Hb as [Hq Hl]
           end.
  all: match goal with
       | Ho : hfind _ (handlers _) = Some ?y |- _ =>
           destruct (i_wf _ Hi _ _ Ho) as (W1 & W2 & W3 & W4);
           try lia;
           destruct (nonneg_key_is_call _ _ _ Hi Ho ltac:(lia)) as [N1 N2];
           match goal with
           | Hl : live_call_with_seq _ _ = false |- _ =>
               pose proof (live_call_false _ _ _ _ Hl Ho N1 ltac:(lia)); congruence
           end
       end.
Qed.

Ltac norm_tfind :=
  repeat match goal with
         | H : tfind _ (tset _ _ _) = Some _ |- _ => rewrite tfind_tset in H
         | H : tfind _ (tremove _ _) = Some _ |- _ => rewrite tfind_tremove in H
         | H : (if ?a =? ?b then _ else _) = Some _ |- _ =>
             let E := fresh "Et" in destruct (a =? b) eqn:E; [apply Z.eqb_eq in E | apply Z.eqb_neq in E]
         | H : Some _ = Some _ |- _ => inversion H; clear H
         | H : None = Some _ |- _ => discriminate H
         end.

(* solve [exists x, hfind h hs' = Some x /\ P x] when the lookup in the pre-state is known *)
Ltac goal_hfind :=
  repeat rewrite hfind_hupdate by reflexivity; rewrite ?hfind_app1;
  repeat match goal with
         | H : hfind ?h ?l = Some _ |- context [hfind ?h ?l] => rewrite H
         end;
  repeat match goal with
         | |- context [if ?a =? ?b then _ else _] => destruct (a =? b) eqn:?
         end; simpl; eexists; (split; [reflexivity | simpl; try assumption; try reflexivity]).

Lemma step_tab : forall sk st l st', sk_notify_key_unique sk = true -> Inv st -> rstep sk st l = Some st' ->
    forall k h, tfind k (tasks st') = Some h -> exists x, hfind h (handlers st') = Some x /\ hd_key x = k.
Proof.
  intros sk st l st' Hu Hi H k h Ht.
  unfold rstep in H; rewrite ?Hu in H.
  step_cases H; simpl in *; norm_tfind; subst;
    try (destruct (i_tab _ Hi _ _ Ht) as (y & Hy & Hky)); try goal_hfind.
Qed.

Lemma step_begin : forall sk st l st', sk_notify_key_unique sk = true -> Inv st -> rstep sk st l = Some st' ->
    forall h, recv st' = RBegin h -> exists x, hfind h (handlers st') = Some x /\ hd_pc x = HNew.
Proof.
  intros sk st l st' Hu Hi H h Hr. pose proof (hfind_fresh _ Hi) as Hfr.
  unfold rstep in H; rewrite ?Hu in H.
  step_cases H; simpl in *; try congruence;
    try (inversion Hr; subst; rewrite hfind_app1, Hfr; simpl; rewrite Z.eqb_refl; eexists; split; reflexivity);
    destruct (i_begin _ Hi _ Hr) as (y & Hy & Hpy);
    try (assert (Hne : (h =? h0) = false) by (apply Z.eqb_neq; intro; subst; congruence));
    try change (fold_left (fun acc h => hupdate h h_set_ctx acc)) with cancel_all;
    repeat rewrite hfind_hupdate by reflexivity; rewrite ?hfind_cancel_all; rewrite ?Hne, ?Hy; simpl;
    try match goal with |- context [if ?b then _ else _] => destruct b end; simpl;
    eexists; (split; [reflexivity | simpl; assumption]).
Qed.

Lemma step_cov : forall sk st l st', sk_notify_key_unique sk = true -> Inv st -> rstep sk st l = Some st' ->
    tl_alive st' = true -> forall h x, hfind h (handlers st') = Some x -> hd_pc x = HRun ->
                                       hd_ctx x = true \/ tfind (hd_key x) (tasks st') = Some h.
Proof.
  intros sk st l st' Hu Hi H Ha h x Hf Hp.
  unfold rstep in H; rewrite ?Hu in H.
  step_cases H; simpl in *; try discriminate Ha; norm_hfind; subst; simpl in *; try discriminate Hp;
    try (left; reflexivity);
    try (eapply (i_cov _ Hi); eassumption);
    rewrite ?tfind_tset, ?tfind_tremove.
  - assert (h2 = h1) by congruence; subst. right. rewrite Z.eqb_refl. reflexivity.
  - destruct (i_begin _ Hi _ Heqr) as (yb & Hyb & Hpb). assert (yb = h1) by congruence; subst.
    destruct (i_cov _ Hi Heqb _ _ Hf Hp) as [C|C]; [left; exact C | right].
    destruct (hd_key x =? hd_key h1) eqn:Ek; [|exact C]. exfalso. apply E.
    eapply (i_keys _ Hi); try eassumption; try congruence. lia.
  - destruct (i_cov _ Hi Heqb _ _ Hf Hp) as [C|C]; [left; exact C | right].
    destruct (hd_key x =? seq) eqn:Ek; [|exact C]. exfalso. apply E.
    assert (hd_key x = seq) by lia. congruence.
  - destruct (i_cov _ Hi Heqb _ _ Hf Hp) as [C|C]; [left; exact C | right].
    destruct (hd_key x =? hd_key h1) eqn:Ek; [|exact C]. exfalso. apply E0.
    assert (hd_key x = hd_key h1) by lia. congruence.
Qed.

Lemma step_dead : forall sk st l st', sk_notify_key_unique sk = true -> Inv st -> rstep sk st l = Some st' ->
    tl_alive st' = false -> forall h x, hfind h (handlers st') = Some x -> hd_pc x = HRun -> hd_ctx x = true.
Proof.
  intros sk st l st' Hu Hi H Ha h x Hf Hp.
  unfold rstep in H; rewrite ?Hu in H.
  step_cases H; simpl in *; try congruence; norm_hfind; subst; simpl in *; try discriminate Hp;
    try reflexivity;
    try (eapply (i_dead _ Hi); eassumption).
  assert (Hal : tl_alive st = true) by (destruct (tl_alive st); [reflexivity | rewrite andb_false_r in Heqb; discriminate]).
  destruct (i_cov _ Hi Hal _ _ Ef Hp) as [C|C]; [exact C|].
  apply tfind_memz in C. congruence.
Qed.

Lemma Inv_step : forall sk st l st', sk_notify_key_unique sk = true -> Inv st -> rstep sk st l = Some st' -> Inv st'.
Proof.
  intros sk st l st' Hu Hi H. constructor.
  - pose proof (i_nkey _ Hi). unfold rstep in H; rewrite ?Hu in H. step_cases H; simpl; lia.
  - eapply step_wf; eauto.
  - eapply step_keys; eauto.
  - eapply step_tab; eauto.
  - eapply step_begin; eauto.
  - eapply step_cov; eauto.
  - eapply step_dead; eauto.
Qed.

Lemma Inv_init : Inv rinit.
Proof.
  constructor; simpl; try discriminate; try lia; intros; discriminate.
Qed.

Lemma Inv_run : forall sk ls st, sk_notify_key_unique sk = true -> run (rstep sk) rinit ls = Some st -> Inv st.
Proof.
  intros sk ls st Hu H. eapply (invariant_run _ _ (rstep sk) Inv); [| exact Inv_init | exact H].
  intros; eapply Inv_step; eauto.
Qed.

(* C09, second half *)
Theorem recv_close_cancels_all : forall sk ls st x,
    sk_notify_key_unique sk = true -> run (rstep sk) rinit ls = Some st ->
    tl_alive st = false -> In x (handlers st) -> hd_pc x = HRun -> hd_ctx x = true.
Proof.
  intros sk ls st x Hu H Ha Hx Hp.
  eapply (i_dead _ (Inv_run _ _ _ Hu H) Ha); [|exact Hp].
  eapply run_In_hfind; eauto.
Qed.

(* ---------------------------------------------------------------------------------------------------------- *)
(* C09, first half: the monitor runs along the history                                                         *)
(* ---------------------------------------------------------------------------------------------------------- *)

Definition mon (st : rstate) : option hstate := run handler_step h0 (rtrace st).

Lemma mon_app : forall hs ts a s r n k evs st m,
    mon st = Some m -> mon (mkR hs ts a s r n k (evs ++ rhist st)) = run handler_step m (rev evs).
Proof.
  intros hs ts a s r n k evs st m Hm. unfold mon, rtrace in *. simpl.
  rewrite rev_app_distr, run_app, Hm. reflexivity.
Qed.

Lemma mon_cons : forall hs ts a s r n k e st m,
    mon st = Some m -> mon (mkR hs ts a s r n k (e :: rhist st)) = handler_step m e.
Proof.
  intros hs ts a s r n k e st m Hm. change (e :: rhist st) with ([e] ++ rhist st).
  rewrite (mon_app hs ts a s r n k [e] st m Hm). simpl.
  destruct (handler_step m e); reflexivity.
Qed.

Definition hs_ext (hs hs' : list handler) : Prop :=
  forall h x, hfind h hs = Some x -> exists x', hfind h hs' = Some x' /\ req_info x' = req_info x.

Lemma hs_ext_refl : forall hs, hs_ext hs hs.
Proof. intros hs h x H. eauto. Qed.

Lemma hs_ext_trans : forall a b c, hs_ext a b -> hs_ext b c -> hs_ext a c.
Proof.
  intros a b c H1 H2 h x H. destruct (H1 _ _ H) as (y & Hy & Ey). destruct (H2 _ _ Hy) as (z & Hz & Ez).
  exists z. split; [exact Hz | congruence].
Qed.

Lemma hs_ext_hupdate : forall f h hs,
    (forall x, hd_id (f x) = hd_id x) -> (forall x, req_info (f x) = req_info x) -> hs_ext hs (hupdate h f hs).
Proof.
  intros f h hs Hf Hr h' x H. rewrite hfind_hupdate by exact Hf. rewrite H.
  destruct (h' =? h); simpl; eauto.
Qed.

Lemma hs_ext_app : forall hs x, hs_ext hs (hs ++ [x]).
Proof. intros hs x h y H. rewrite hfind_app1, H. eauto. Qed.

Lemma hs_ext_cancel_all : forall vs hs, hs_ext hs (cancel_all vs hs).
Proof.
  intros vs hs h x H. rewrite hfind_cancel_all, H. simpl. destruct (memz h vs); eauto.
Qed.

Record MInv (st : rstate) (m : hstate) : Prop := {
  m_close : stopped st = true -> h_closing m = true;
  m_run : forall h fi, assocz h (h_running m) = Some fi ->
                       exists x, hfind h (handlers st) = Some x /\ fi = req_info x;
  m_canc : forall q, recv st = RCancel q -> memz q (h_peer_cancelled m) = true /\ 0 <= q
}.

Lemma MInv_frame : forall st st' m m',
    MInv st m ->
    hs_ext (handlers st) (handlers st') ->
    (stopped st' = true -> stopped st = true \/ h_closing m' = true) ->
    (h_closing m = true -> h_closing m' = true) ->
    (forall q, recv st' = RCancel q -> recv st = RCancel q \/ (memz q (h_peer_cancelled m') = true /\ 0 <= q)) ->
    (forall q, memz q (h_peer_cancelled m) = true -> memz q (h_peer_cancelled m') = true) ->
    (forall h fi, assocz h (h_running m') = Some fi ->
                  assocz h (h_running m) = Some fi \/
                  exists x', hfind h (handlers st') = Some x' /\ fi = req_info x') ->
    MInv st' m'.
Proof.
  intros st st' m m' HM Hext Hst Hcl Hrc Hpc Hrun. constructor.
  - intros Hs. destruct (Hst Hs) as [A|A]; [apply Hcl, (m_close _ _ HM A) | exact A].
  - intros h fi Ha. destruct (Hrun _ _ Ha) as [A|A]; [|exact A].
    destruct (m_run _ _ HM _ _ A) as (x & Hx & Ex). destruct (Hext _ _ Hx) as (x' & Hx' & Ex').
    exists x'. split; [exact Hx' | congruence].
  - intros q Hq. destruct (Hrc _ Hq) as [A|A]; [|exact A].
    destruct (m_canc _ _ HM _ A) as [B C]. split; [apply Hpc, B | exact C].
Qed.

Lemma assocz_filter : forall (h h' : Z) (r : list (Z * frame_info)) fi,
    assocz h (filter (fun p => negb (fst p =? h')) r) = Some fi -> assocz h r = Some fi.
Proof.
  induction r as [|[a b] r IH]; simpl; intros fi H; [discriminate|].
  destruct (a =? h') eqn:E1; simpl in H.
  - destruct (h =? a) eqn:E2; [|auto].
    exfalso. clear IH. induction r as [|[c d] r IH]; simpl in H; [discriminate|].
    destruct (c =? h') eqn:E3; simpl in H; [auto|]. destruct (h =? c) eqn:E4; [lia | auto].
  - destruct (h =? a); [exact H | auto].
Qed.

Lemma ctx_event_cases : forall hs h,
    ctx_event hs h = [] \/
    (ctx_event hs h = [AHCtx h] /\ exists x, hfind h hs = Some x /\ hd_pc x = HRun /\ hd_ctx x = false).
Proof.
  intros hs h. unfold ctx_event. destruct (hfind h hs) as [x|] eqn:E; [|left; reflexivity].
  destruct (hd_pc x) eqn:Ep; try (left; reflexivity).
  destruct (hd_ctx x) eqn:Ec; [left; reflexivity|]. right. split; [reflexivity|]. eauto.
Qed.

(* one cancellation event that the monitor accepts *)
Lemma ahctx_ok : forall m h,
    (forall fi, assocz h (h_running m) = Some fi ->
                h_closing m = true \/ is_callk (fi_kind fi) && memz (fi_seq fi) (h_peer_cancelled m) = true) ->
    exists m', handler_step m (AHCtx h) = Some m' /\ h_running m' = h_running m /\
               h_peer_cancelled m' = h_peer_cancelled m /\ (h_closing m = true -> h_closing m' = true).
Proof.
  intros m h H. simpl. destruct (assocz h (h_running m)) as [fi|] eqn:E.
  - destruct (h_closing m) eqn:Ec.
    + eexists; split; [reflexivity|]. simpl. auto.
    + destruct (H _ eq_refl) as [A|A]; [discriminate|]. rewrite A.
      eexists; split; [reflexivity|]. simpl. auto.
  - eexists; split; [reflexivity|]. auto.
Qed.

Lemma ahctx_closing_run : forall vs hs m,
    h_closing m = true ->
    exists m', run handler_step m (flat_map (ctx_event hs) vs) = Some m' /\ h_running m' = h_running m /\
               h_peer_cancelled m' = h_peer_cancelled m /\ h_closing m' = true.
Proof.
  induction vs as [|v vs IH]; intros hs m Hc; simpl.
  - eexists; split; [reflexivity|]. auto.
  - rewrite run_app. destruct (ctx_event_cases hs v) as [E|[E _]]; rewrite E; simpl.
    + apply IH; exact Hc.
    + destruct (ahctx_ok m v) as (m1 & H1 & R1 & P1 & C1); [intros; left; exact Hc|].
      simpl in H1. rewrite H1.
      destruct (IH hs m1 (C1 Hc)) as (m2 & H2 & R2 & P2 & C2).
      exists m2. split; [exact H2|]. repeat split; congruence.
Qed.

Ltac hs_ext_tac :=
  first [ apply hs_ext_refl | apply hs_ext_app
        | apply hs_ext_hupdate; intros; reflexivity
        | apply hs_ext_cancel_all ].

Ltac frame_simple HM :=
  eexists; split; [reflexivity|];
  eapply MInv_frame; [exact HM | hs_ext_tac | simpl; intros; auto ..]; try discriminate.

Lemma mon_nil : forall hs ts a s r n k st, mon (mkR hs ts a s r n k (rhist st)) = mon st.
Proof. reflexivity. Qed.

Lemma MInv_step : forall sk st l st' m,
    sk_notify_key_unique sk = true -> sk_cancel_negative_ignored sk = true ->
    Inv st -> mon st = Some m -> MInv st m ->
    rstep sk st l = Some st' -> exists m', mon st' = Some m' /\ MInv st' m'.
Proof.
  intros sk st l st' m Hu Hc Hi Hm HM H.
  unfold rstep in H; rewrite ?Hu, ?Hc in H.
  step_cases H;
    first [ rewrite (mon_cons _ _ _ _ _ _ _ _ _ _ Hm)
          | rewrite (mon_app _ _ _ _ _ _ _ _ _ _ Hm)
          | rewrite mon_nil, Hm ]; simpl; try (frame_simple HM; fail).
  - (* RInCancel, negative seqno: the frame is dropped, the receive goroutine reads on *)
    eexists; split; [reflexivity|].
    eapply MInv_frame; [exact HM | hs_ext_tac | simpl; intros; auto; try discriminate ..].
    match goal with Hq : memz _ _ = true |- _ => rewrite Hq end. apply orb_true_r.
  - (* RInCancel *)
    eexists; split; [reflexivity|].
    eapply MInv_frame; [exact HM | hs_ext_tac | simpl; intros; auto ..].
    + right. match goal with Hq : RCancel _ = RCancel _ |- _ => inversion Hq; subst end.
      rewrite Z.eqb_refl. split; [reflexivity | lia].
    + match goal with Hq : memz _ _ = true |- _ => rewrite Hq end. apply orb_true_r.
  - (* RBeginRv *)
    eexists; split; [reflexivity|].
    eapply MInv_frame; [exact HM | hs_ext_tac | simpl; intros; auto; try discriminate ..].
    match goal with Ha : (if ?a =? ?b then _ else _) = Some _ |- _ => destruct (a =? b) eqn:E end; [|auto].
    right. inv_some. exists (h_set_pc HRun h0). rewrite hfind_hupdate by reflexivity.
    rewrite E. replace h1 with h by lia. rewrite Heqo. split; reflexivity.
  - (* RCancelRv, entry found *)
    destruct (ctx_event_cases (handlers st) z) as [E|[E (x & Hx & Hpx & Hcx)]]; rewrite E; simpl;
      [frame_simple HM|].
    destruct (ahctx_ok m z) as (m1 & H1 & R1 & P1 & C1).
    { intros fi Ha. right.
      destruct (m_run _ _ HM _ _ Ha) as (x' & Hx' & Efi).
      destruct (i_tab _ Hi _ _ Heqo) as (y & Hy & Hky).
      destruct (m_canc _ _ HM _ Heqr) as [Hmem Hq].
      assert (x' = x) by congruence. assert (y = x) by congruence. subst x' y.
      destruct (nonneg_key_is_call _ _ _ Hi Hx ltac:(lia)) as [N1 N2].
      subst fi. unfold req_info. rewrite N1. simpl. rewrite N2, Hky. exact Hmem. }
    simpl in H1. rewrite H1. exists m1. split; [reflexivity|].
    eapply MInv_frame; [exact HM | hs_ext_tac | simpl; intros; rewrite ?R1, ?P1 in *; auto; try discriminate ..].
  - (* RHandlerRet *)
    eexists; split; [reflexivity|].
    eapply MInv_frame; [exact HM | hs_ext_tac | simpl; intros; auto ..].
    left. eapply assocz_filter; eassumption.
  - (* REndRv, entry found: it is the ending handler's own entry *)
    assert (E : ctx_event (handlers st) z = []).
    { destruct (ctx_event_cases (handlers st) z) as [E|[E (x & Hx & Hpx & Hcx)]]; [exact E|]. exfalso.
      destruct (i_tab _ Hi _ _ Heqo0) as (y & Hy & Hky). assert (y = x) by congruence; subst y.
      assert (h = z) by (eapply (i_keys _ Hi); try eassumption; congruence).
      subst. congruence. }
    rewrite E; simpl. eexists; split; [reflexivity|].
    eapply MInv_frame; [exact HM | | simpl; intros; auto ..].
    eapply hs_ext_trans; apply hs_ext_hupdate; intros; reflexivity.
  - (* RTaskLoopExit *)
    rewrite rev_involutive.
    assert (Hs : stopped st = true) by (destruct (stopped st); [reflexivity | discriminate]).
    destruct (ahctx_closing_run (map snd (tasks st)) (handlers st) m (m_close _ _ HM Hs)) as (m1 & H1 & R1 & P1 & C1).
    exists m1. split; [exact H1|].
    change (fold_left (fun acc h => hupdate h h_set_ctx acc)) with cancel_all.
    eapply MInv_frame; [exact HM | hs_ext_tac | simpl; intros; rewrite ?R1, ?P1 in *; auto ..].
Qed.

Lemma mon_run : forall sk ls st,
    sk_notify_key_unique sk = true -> sk_cancel_negative_ignored sk = true -> run (rstep sk) rinit ls = Some st ->
    Inv st /\ exists m, mon st = Some m /\ MInv st m.
Proof.
  intros sk ls st Hu Hc H.
  eapply (invariant_run _ _ (rstep sk) (fun s => Inv s /\ exists m, mon s = Some m /\ MInv s m)); [| |exact H].
  - intros s l s' [Hi (m & Hm & HM)] Hs. split; [eapply Inv_step; eauto|].
    eapply MInv_step; eauto.
  - split; [exact Inv_init|]. exists h0. split; [reflexivity|].
    constructor; simpl; intros; discriminate.
Qed.

(* C09, first half *)
Theorem recv_c09_only_own : forall sk ls st,
    sk_notify_key_unique sk = true -> sk_cancel_negative_ignored sk = true ->
    run (rstep sk) rinit ls = Some st -> c09_only_own (rtrace st) = true.
Proof.
  intros sk ls st Hu Hc H. destruct (mon_run _ _ _ Hu Hc H) as [_ (m & Hm & _)].
  unfold c09_only_own, accepts. unfold mon in Hm. rewrite Hm. reflexivity.
Qed.

(* without the guard a cancellation frame naming -1 cancels the first notification's handler: nobody cancelled it *)
Definition unguarded_skeleton : skeleton :=
  mkSk true true true  true true true  true true
       true true true  true true true  true true true
       true true true true
       true true
       true true true true
       true true true true
       true true
       false.

Theorem recv_negative_cancel_refuted : exists sk ls st,
    sk_notify_key_unique sk = true /\ sk_cancel_negative_ignored sk = false /\
    run (rstep sk) rinit ls = Some st /\ c09_only_own (rtrace st) = false.
Proof.
  exists unguarded_skeleton, [RInNotify; RBeginRv; RInCancel (-1); RCancelRv].
  eexists. split; [reflexivity|]. split; [reflexivity|].
  split; [vm_compute; reflexivity | vm_compute; reflexivity].
Qed.

Print Assumptions recv_c09_only_own.
Print Assumptions recv_close_cancels_all.
Print Assumptions recv_taskloop_exits_only_after_stop.
Print Assumptions recv_no_goroutine_stuck.
Print Assumptions recv_c09_shared_key_refuted.
Print Assumptions recv_negative_cancel_refuted.
Print Assumptions recv_shared_key_close_refuted.
Print Assumptions recv_taskend_bare_parks_forever.
