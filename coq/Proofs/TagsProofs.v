(* Lemmas about Model/Tags.v *)
From Coq Require Import ZifyBool Lia.
From FMP Require Import Base.Bytes Model.Msgpack Model.Tags.
Open Scope Z_scope.

(* ---------- bytes_eqb ---------- *)
Lemma bytes_eqb_eq : forall a b, bytes_eqb a b = true <-> a = b.
Proof.
  induction a as [|x a IH]; destruct b as [|y b]; simpl; split; intro H; try reflexivity; try discriminate.
  - apply andb_true_iff in H. destruct H as [H1 H2]. apply N.eqb_eq in H1. apply IH in H2. subst. reflexivity.
  - inversion H; subst. rewrite N.eqb_refl. simpl. apply IH. reflexivity.
Qed.

Lemma bytes_eqb_refl : forall a, bytes_eqb a a = true.
Proof. intro a. apply bytes_eqb_eq. reflexivity. Qed.

(* ---------- tagmap facts ---------- *)
Lemma tm_get_remove_neq : forall k k' m, bytes_eqb k k' = false -> tm_get k (tm_remove k' m) = tm_get k m.
Proof.
  intros k k' m Hne. induction m as [|[k1 v1] r IH]; simpl; [reflexivity|].
  destruct (bytes_eqb k' k1) eqn:E1; simpl.
  - apply bytes_eqb_eq in E1. subst k1. rewrite Hne. exact IH.
  - destruct (bytes_eqb k k1); [reflexivity|exact IH].
Qed.

Lemma tm_get_set : forall k k' v m,
    tm_get k (tm_set k' v m) = if bytes_eqb k k' then Some v else tm_get k m.
Proof.
  intros. unfold tm_set. simpl. destruct (bytes_eqb k k') eqn:E; [reflexivity|].
  apply tm_get_remove_neq. exact E.
Qed.

Lemma fold_set_get : forall l cur k,
    tm_get k (fold_right (fun p acc => tm_set (fst p) (snd p) acc) cur l) =
    match tm_get k l with Some v => Some v | None => tm_get k cur end.
Proof.
  induction l as [|[k1 v1] r IH]; intros; [reflexivity|].
  cbn [fold_right fst snd]. rewrite tm_get_set. cbn [tm_get]. destruct (bytes_eqb k k1); [reflexivity|]. apply IH.
Qed.

Theorem merge_get : forall cur add k,
    tm_get k (tm_merge cur add) = match tm_get k (rev add) with Some v => Some v | None => tm_get k cur end.
Proof. intros. unfold tm_merge. apply fold_set_get. Qed.

(* ---------- zfind / zset ---------- *)
Lemma zfind_filter_neq : forall {A} k k' (l : list (Z * A)), k <> k' ->
    zfind k (filter (fun p => negb (fst p =? k')) l) = zfind k l.
Proof.
  intros A k k' l Hne. induction l as [|[k1 v1] r IH]; simpl; [reflexivity|].
  destruct (k1 =? k') eqn:E1; simpl.
  - assert (k =? k1 = false) as -> by lia. exact IH.
  - destruct (k =? k1); [reflexivity|exact IH].
Qed.

Lemma zfind_zset : forall {A} k k' (v : A) l,
    zfind k (zset k' v l) = if k =? k' then Some v else zfind k l.
Proof.
  intros. unfold zset. simpl. destruct (k =? k') eqn:E; [reflexivity|].
  apply zfind_filter_neq. lia.
Qed.

Opaque zset.
Opaque tm_set.
Opaque tm_merge.

Lemma existsb_eqb_In: forall m l, existsb (fun x => x =? m) l = true -> In m l.
Proof.
  intros m l H. apply existsb_exists in H. destruct H as [x [Hin Hx]].
  assert (x = m) by lia. subst. exact Hin.
Qed.

(* ---------- invariants ---------- *)
Definition good : tcfg := mkTcfg true true.

Definition th_wf (h : theap) : Prop :=
  (forall m t, zfind m (maps h) = Some t -> m < next_map h) /\
  (forall c o, zfind c (ctxs h) = Some o -> c < next_ctx h) /\
  (forall c m, map_of_ctx h c = Some m -> exists t, zfind m (maps h) = Some t) /\
  (forall m, In m (client_maps h) -> m < next_map h).

Definition private (h : theap) : Prop := forall c m, map_of_ctx h c = Some m -> ~ In m (client_maps h).

Definition moc (cs : list (Z * option Z)) (c : Z) : option Z :=
  match zfind c cs with Some (Some m) => Some m | _ => None end.

Lemma map_of_ctx_moc : forall h c, map_of_ctx h c = moc (ctxs h) c.
Proof. reflexivity. Qed.

Lemma moc_cons : forall c c' o cs, moc ((c', o) :: cs) c = if c =? c' then o else moc cs c.
Proof. intros. unfold moc. simpl. destruct (c =? c'); [destruct o|]; reflexivity. Qed.

Lemma moc_some_find : forall cs c m, moc cs c = Some m -> zfind c cs = Some (Some m).
Proof. unfold moc. intros cs c m H. destruct (zfind c cs) as [[x|]|]; inversion H; reflexivity. Qed.

(* adding a fresh map at the front *)
Lemma wf_fresh_map : forall ms cs nm nc cl t cl',
    th_wf (mkTH ms cs nm nc cl) ->
    (forall m, In m cl' -> m < nm + 1) ->
    th_wf (mkTH ((nm, t) :: ms) cs (nm + 1) nc cl').
Proof.
  intros ms cs nm nc cl t cl' (W1 & W2 & W3 & W4) Hcl. unfold th_wf in *; simpl in *.
  repeat split.
  - intros m t0. destruct (m =? nm) eqn:E; intro H; [lia|]. apply W1 in H. lia.
  - exact W2.
  - intros c m H. rewrite map_of_ctx_moc in *. simpl in *.
    destruct (W3 c m H) as [t0 Ht0]. specialize (W1 _ _ Ht0).
    assert (m =? nm = false) as -> by lia. eauto.
  - exact Hcl.
Qed.

Lemma step_inv : forall h o, th_wf h -> private h ->
    th_wf (fst (tstep good h o)) /\ private (fst (tstep good h o)).
Proof.
  intros [ms cs nm nc cl] o W P. pose proof W as (W1 & W2 & W3 & W4).
  unfold private in P. simpl in *.
  assert (PM : forall c m, moc cs c = Some m -> m < nm).
  { intros c m H. destruct (W3 c m H) as [t Ht]. eapply W1; eauto. }
  assert (FRESHM : forall t cl', (forall m, In m cl' -> m < nm + 1) ->
            th_wf (mkTH ((nm, t) :: ms) cs (nm + 1) nc cl')).
  { intros. eapply wf_fresh_map; eauto. }
  assert (ADD : forall t,
            th_wf (mkTH ((nm, t) :: ms) ((nc, Some nm) :: cs) (nm + 1) (nc + 1) cl) /\
            private (mkTH ((nm, t) :: ms) ((nc, Some nm) :: cs) (nm + 1) (nc + 1) cl)).
  { intro t. split.
    - unfold th_wf; simpl. repeat split.
      + intros m t0. destruct (m =? nm) eqn:E; intro H; [lia|]. apply W1 in H. lia.
      + intros c o0. destruct (c =? nc) eqn:E; intro H; [lia|]. apply W2 in H. lia.
      + intros c m. rewrite map_of_ctx_moc. simpl. rewrite moc_cons.
        destruct (c =? nc) eqn:E; intro H.
        * inversion H; subst. rewrite Z.eqb_refl. eauto.
        * specialize (PM _ _ H). assert (m =? nm = false) as -> by lia. apply (W3 c m H).
      + intros m H. apply W4 in H. lia.
    - unfold private; simpl. intros c m. rewrite map_of_ctx_moc. simpl. rewrite moc_cons.
      destruct (c =? nc) eqn:E; intro H.
      + inversion H; subst. intro Hin. apply W4 in Hin. lia.
      + apply (P c m H). }
  destruct o as [m | c m | c | m k v | c]; simpl.
  - (* TNewMap *)
    split.
    + apply FRESHM. intros x [Hx|Hx]; [lia|]. apply W4 in Hx. lia.
    + unfold private; simpl. intros c x H [Hx|Hx].
      * subst. apply PM in H. lia.
      * exact (P c x H Hx).
  - (* TAdd *)
    destruct (zfind m ms) as [addm|]; simpl; [|split; [exact W|exact P]].
    rewrite map_of_ctx_moc; simpl.
    destruct (moc cs c) as [cur|]; simpl; apply ADD.
  - (* TRead *)
    rewrite map_of_ctx_moc; simpl.
    destruct (moc cs c) as [mid|]; simpl; [|split; [exact W|exact P]].
    split.
    + apply FRESHM. intros x [Hx|Hx]; [lia|]. apply W4 in Hx. lia.
    + unfold private; simpl. intros c0 x H [Hx|Hx].
      * subst. apply PM in H. lia.
      * exact (P c0 x H Hx).
  - (* TMutate *)
    destruct (existsb (fun x => x =? m) cl) eqn:Ex; simpl; [|split; [exact W|exact P]].
    destruct (zfind m ms) as [t|] eqn:Hm; simpl; [|split; [exact W|exact P]].
    split; [|exact P].
    unfold th_wf; simpl. repeat split.
    + intros m0 t0. rewrite zfind_zset. destruct (m0 =? m) eqn:E; intro H.
      * assert (m0 = m) by lia. subst. eapply W1; eauto.
      * eapply W1; eauto.
    + exact W2.
    + intros c0 m0 H. rewrite zfind_zset. destruct (m0 =? m); [eauto|]. apply (W3 c0 m0 H).
    + exact W4.
  - (* TDerive *)
    destruct (zfind c cs) as [o0|] eqn:Hc; simpl; [|split; [exact W|exact P]].
    assert (PAR : forall m, o0 = Some m -> moc cs c = Some m).
    { intros m ->. unfold moc. rewrite Hc. reflexivity. }
    split.
    + unfold th_wf; simpl. repeat split.
      * exact W1.
      * intros c0 o1. destruct (c0 =? nc) eqn:E; intro H; [lia|]. apply W2 in H. lia.
      * intros c0 m0. rewrite map_of_ctx_moc. simpl. rewrite moc_cons.
        destruct (c0 =? nc) eqn:E; intro H.
        -- apply PAR in H. apply (W3 c m0 H).
        -- apply (W3 c0 m0 H).
      * exact W4.
    + unfold private; simpl. intros c0 m0. rewrite map_of_ctx_moc. simpl. rewrite moc_cons.
      destruct (c0 =? nc) eqn:E; intro H.
      * apply PAR in H. apply (P c m0 H).
      * apply (P c0 m0 H).
Qed.

Lemma wf0 : th_wf th0 /\ private th0.
Proof.
  split.
  - unfold th_wf; simpl. repeat split.
    + intros; discriminate.
    + intros c o. destruct (c =? 0) eqn:E; intro H; [lia|discriminate].
    + intros c m. rewrite map_of_ctx_moc; simpl. rewrite moc_cons. destruct (c =? 0); discriminate.
    + intros m [].
  - unfold private; simpl. intros c m. rewrite map_of_ctx_moc; simpl. rewrite moc_cons.
    destruct (c =? 0); discriminate.
Qed.

Lemma run_inv : forall ops h, th_wf h -> private h ->
    th_wf (trun good h ops) /\ private (trun good h ops).
Proof.
  induction ops as [|o r IH]; intros h W P; simpl; [split; assumption|].
  destruct (step_inv h o W P) as [W' P']. apply IH; assumption.
Qed.

Theorem reach_wf_private : forall ops, th_wf (trun good th0 ops) /\ private (trun good th0 ops).
Proof. intro ops. destruct wf0. apply run_inv; assumption. Qed.

(* ---------- old contexts unchanged ---------- *)
Lemma step_old_unchanged : forall h o c, th_wf h -> private h ->
    (exists x, zfind c (ctxs h) = Some x) -> tags_of (fst (tstep good h o)) c = tags_of h c.
Proof.
  intros [ms cs nm nc cl] o c (W1 & W2 & W3 & W4) P [x Hx]. unfold private in P. simpl in *.
  assert (PM : forall c m, moc cs c = Some m -> m < nm).
  { intros c0 m H. destruct (W3 c0 m H) as [t Ht]. eapply W1; eauto. }
  assert (Hc : c < nc) by (eapply W2; eauto).
  assert (FRESHM : forall t cl', tags_of (mkTH ((nm, t) :: ms) cs (nm + 1) nc cl') c = tags_of (mkTH ms cs nm nc cl) c).
  { intros. unfold tags_of. rewrite !map_of_ctx_moc. simpl.
    destruct (moc cs c) as [m0|] eqn:E; [|reflexivity].
    apply PM in E. assert (m0 =? nm = false) as -> by lia. reflexivity. }
  assert (ADD : forall t, tags_of (mkTH ((nm, t) :: ms) ((nc, Some nm) :: cs) (nm + 1) (nc + 1) cl) c
                          = tags_of (mkTH ms cs nm nc cl) c).
  { intros. unfold tags_of. rewrite !map_of_ctx_moc. simpl. rewrite moc_cons.
    assert (c =? nc = false) as -> by lia.
    destruct (moc cs c) as [m0|] eqn:E; [|reflexivity].
    apply PM in E. assert (m0 =? nm = false) as -> by lia. reflexivity. }
  destruct o as [m | c0 m | c0 | m k v | c0]; simpl.
  - apply FRESHM.
  - destruct (zfind m ms) as [addm|]; simpl; [|reflexivity].
    rewrite map_of_ctx_moc; simpl.
    destruct (moc cs c0) as [cur|]; simpl; apply ADD.
  - rewrite map_of_ctx_moc; simpl.
    destruct (moc cs c0) as [mid|]; simpl; [|reflexivity]. apply FRESHM.
  - destruct (existsb (fun x => x =? m) cl) eqn:Ex; simpl; [|reflexivity].
    destruct (zfind m ms) as [t|] eqn:Hm; simpl; [|reflexivity].
    unfold tags_of. rewrite !map_of_ctx_moc. simpl.
    destruct (moc cs c) as [m0|] eqn:E; [|reflexivity].
    rewrite zfind_zset. apply existsb_eqb_In in Ex.
    destruct (m0 =? m) eqn:E2; [|reflexivity].
    assert (m0 = m) by lia. subst. exfalso. exact (P c m E Ex).
  - destruct (zfind c0 cs) as [o0|]; simpl; [|reflexivity].
    unfold tags_of. rewrite !map_of_ctx_moc. simpl. rewrite moc_cons.
    assert (c =? nc = false) as -> by lia. reflexivity.
Qed.

Theorem old_contexts_unchanged : forall ops o c,
    let h := trun good th0 ops in
    (exists x, zfind c (ctxs h) = Some x) -> tags_of (fst (tstep good h o)) c = tags_of h c.
Proof.
  intros ops o c h H. destruct (reach_wf_private ops) as [W P].
  apply step_old_unchanged; assumption.
Qed.

(* ---------- add extends ---------- *)
Theorem add_extends : forall ops c m addm,
    let h := trun good th0 ops in
    (exists x, zfind c (ctxs h) = Some x) -> zfind m (maps h) = Some addm ->
    exists c', snd (tstep good h (TAdd c m)) = Some c' /\ c' = next_ctx h /\
               tags_of (fst (tstep good h (TAdd c m))) c' =
               Some (tm_merge (match tags_of h c with Some t => t | None => [] end) addm).
Proof.
  intros ops c m addm h _ Hm. destruct (reach_wf_private ops) as [W _]. fold h in W.
  destruct W as (W1 & W2 & W3 & W4).
  exists (next_ctx h). unfold tags_of at 2. simpl. rewrite Hm.
  destruct (map_of_ctx h c) as [cur|] eqn:E; simpl.
  - repeat split. unfold tags_of. rewrite map_of_ctx_moc. simpl. rewrite moc_cons, Z.eqb_refl.
    rewrite Z.eqb_refl. reflexivity.
  - repeat split. unfold tags_of. rewrite map_of_ctx_moc. simpl. rewrite moc_cons, Z.eqb_refl.
    rewrite Z.eqb_refl. reflexivity.
Qed.


(* ---------- whatever happens later: a context keeps its tags for ever ---------- *)
Lemma step_ctx_kept : forall h o c, (exists x, zfind c (ctxs h) = Some x) -> c < next_ctx h ->
    (exists x, zfind c (ctxs (fst (tstep good h o))) = Some x).
Proof.
  intros [ms cs nm nc cl] o c [x Hx] Hlt. simpl in *.
  destruct o as [m | c0 m | c0 | m k v | c0]; simpl.
  - eauto.
  - destruct (zfind m ms) as [addm|]; simpl; [|eauto].
    destruct (map_of_ctx _ c0) as [cur|]; simpl; assert (c =? nc = false) as -> by lia; eauto.
  - destruct (map_of_ctx _ c0) as [mid|]; simpl; eauto.
  - destruct (existsb (fun x => x =? m) cl); simpl; [|eauto].
    destruct (zfind m ms); simpl; eauto.
  - destruct (zfind c0 cs) as [o0|]; simpl; [|eauto].
    assert (c =? nc = false) as -> by lia. eauto.
Qed.

Lemma run_old_unchanged : forall ops h c, th_wf h -> private h ->
    (exists x, zfind c (ctxs h) = Some x) -> tags_of (trun good h ops) c = tags_of h c.
Proof.
  induction ops as [|o r IH]; intros h c W P Hc; simpl; [reflexivity|].
  destruct (step_inv h o W P) as [W' P'].
  rewrite IH; [apply step_old_unchanged; assumption|assumption|assumption|].
  apply step_ctx_kept; [assumption|]. destruct Hc as [x Hx]. destruct W as (_ & W2 & _). eapply W2; eauto.
Qed.

Lemma trun_app : forall cfg a b h, trun cfg h (a ++ b) = trun cfg (trun cfg h a) b.
Proof. induction a as [|o r IH]; intros b h; simpl; [reflexivity|apply IH]. Qed.

(* calls made from one context that already carries tags (a session), each adding its own: the derived context shows
   the session's tags extended by its own, and goes on showing exactly that whatever is derived, read or mutated
   afterwards - siblings, later additions to the session, writes to the map that was passed in *)
Theorem sibling_tags_for_ever : forall ops c m addm later,
    let h := trun good th0 ops in
    (exists x, zfind c (ctxs h) = Some x) -> zfind m (maps h) = Some addm ->
    tags_of (trun good th0 (ops ++ TAdd c m :: later)) (next_ctx h) =
      Some (tm_merge (match tags_of h c with Some t => t | None => [] end) addm)
    /\ tags_of (trun good th0 (ops ++ TAdd c m :: later)) c = tags_of h c.
Proof.
  intros ops c m addm later h Hc Hm.
  destruct (add_extends ops c m addm Hc Hm) as (c' & _ & -> & Hnew). fold h in Hnew.
  rewrite trun_app. fold h. cbn [trun].
  destruct (reach_wf_private ops) as [W P]. fold h in W, P.
  destruct (step_inv h (TAdd c m) W P) as [W' P'].
  split.
  - rewrite run_old_unchanged; [exact Hnew|assumption|assumption|].
    unfold tags_of in Hnew. destruct (map_of_ctx _ (next_ctx h)) eqn:E; [|discriminate].
    unfold map_of_ctx in E. destruct (zfind (next_ctx h) _) eqn:E2; [eauto|discriminate].
  - rewrite run_old_unchanged; [apply step_old_unchanged; assumption|assumption|assumption|].
    apply step_ctx_kept; [assumption|]. destruct Hc as [x Hx]. destruct W as (_ & W2 & _). eapply W2; eauto.
Qed.

(* any other derivation (a value, a deadline, a cancel function, the fire-now marker) shows its parent's tags *)
Theorem derive_keeps_tags : forall ops c,
    let h := trun good th0 ops in
    (exists x, zfind c (ctxs h) = Some x) ->
    snd (tstep good h (TDerive c)) = Some (next_ctx h) /\
    tags_of (fst (tstep good h (TDerive c))) (next_ctx h) = tags_of h c.
Proof.
  intros ops c h [x Hx]. simpl. rewrite Hx. simpl. split; [reflexivity|].
  unfold tags_of. rewrite !map_of_ctx_moc. simpl. rewrite moc_cons, Z.eqb_refl.
  unfold moc. rewrite Hx. destruct x; reflexivity.
Qed.

(* ---------- read is a copy ---------- *)
Theorem read_is_a_copy : forall ops c t,
    let h := trun good th0 ops in
    tags_of h c = Some t ->
    exists m, snd (tstep good h (TRead c)) = Some m /\ zfind m (maps (fst (tstep good h (TRead c)))) = Some t /\
              map_of_ctx h c <> Some m.
Proof.
  intros ops c t h Ht. destruct (reach_wf_private ops) as [W _]. fold h in W.
  destruct W as (W1 & W2 & W3 & W4).
  unfold tags_of in Ht. simpl.
  destruct (map_of_ctx h c) as [mid|] eqn:E; [|discriminate]. simpl.
  exists (next_map h). rewrite Ht. simpl. rewrite Z.eqb_refl. repeat split.
  intro H. inversion H; subst. apply W1 in Ht. lia.
Qed.

(* ---------- refutations ---------- *)
Definition kA : bytes := [97%N].
Definition kB : bytes := [98%N].

Theorem add_in_place_refuted : exists ops o c,
    let h := trun (mkTcfg true false) th0 ops in
    (exists x, zfind c (ctxs h) = Some x) /\ tags_of (fst (tstep (mkTcfg true false) h o)) c <> tags_of h c.
Proof.
  (* map 0 = {a:nil}; ctx1 = Add(ctx0, map0) (no parent map: fresh map 1); map 2 = {b:nil};
     then Add(ctx1, map2) extends map 1 in place: ctx1 now sees b as well *)
  exists [TNewMap [(kA, VNil)]; TAdd 0 0; TNewMap [(kB, VNil)]], (TAdd 1 2), 1.
  vm_compute. split; [eexists; reflexivity|discriminate].
Qed.

Theorem read_aliases_refuted : exists ops o c,
    let h := trun (mkTcfg false true) th0 ops in
    (exists x, zfind c (ctxs h) = Some x) /\ tags_of (fst (tstep (mkTcfg false true) h o)) c <> tags_of h c.
Proof.
  (* ctx1 carries {a:nil} in map 1; the client reads it out (aliasing map 1) and then writes into it *)
  exists [TNewMap [(kA, VNil)]; TAdd 0 0; TRead 1], (TMutate 1 kB VNil), 1.
  vm_compute. split; [eexists; reflexivity|discriminate].
Qed.

Transparent zset tm_set tm_merge.

Print Assumptions reach_wf_private.
Print Assumptions old_contexts_unchanged.
Print Assumptions add_extends.
Print Assumptions read_is_a_copy.
Print Assumptions add_in_place_refuted.
Print Assumptions read_aliases_refuted.
Print Assumptions merge_get.
