(* Lemmas about Model/Compress.v and the compressed paths of Model/Frame.v *)
From Coq Require Import ZifyBool Lia.
From FMP Require Import Base.Bytes Base.Lts Model.Generated Model.Msgpack Model.Frame Model.Compress
     Proofs.MsgpackProofs Proofs.FrameProofs.
Open Scope Z_scope.

(* ------------------------------------------------------------------ *)
(* which compression types have a compressor *)
Lemma has_compressor_cases : forall c, has_compressor c = true <-> (c = 1 \/ c = 2).
Proof.
  intros c. unfold has_compressor, compression_gzip, compression_msgpackzip.
  destruct (Z.eqb_spec c 1); destruct (Z.eqb_spec c 2); cbn [orb]; split; intros H;
    try discriminate; try reflexivity; try lia.
Qed.

Theorem unknown_is_none : forall c, (c <> compression_gzip /\ c <> compression_msgpackzip) <-> compressor_for c = None.
Proof.
  intros c. unfold compressor_for, compression_gzip, compression_msgpackzip.
  destruct (Z.eqb_spec c 1); [|destruct (Z.eqb_spec c 2)]; split; intros H;
    try discriminate; try reflexivity; try (destruct H; congruence); try (split; assumption).
Qed.

Theorem has_compressor_iff : forall c, has_compressor c = true <-> compressor_for c <> None.
Proof.
  intros c. unfold has_compressor, compressor_for, compression_gzip, compression_msgpackzip.
  destruct (Z.eqb_spec c 1); [|destruct (Z.eqb_spec c 2)]; cbn [orb]; split; intros H;
    try discriminate; try reflexivity; try congruence.
Qed.

(* ------------------------------------------------------------------ *)
(* bin headers are accepted by dec_string *)
Lemma dec_string_bin_canon : forall s rest, (len s < two32)%N ->
  dec_string (enc_bin_hdr (len s) ++ s ++ rest) = DOk s rest.
Proof.
  intros s rest H. unfold two32 in H.
  assert (T := take_app s rest).
  unfold enc_bin_hdr.
  destruct (N.ltb_spec (len s) 256).
  - rewrite <- (be_bytes_1 (len s)) by lia.
    assert (D : dec 1 ((0xc4%N :: be_bytes 1 (len s)) ++ s ++ rest) = DOk (VBin s) rest).
    { apply (dec_bin_w 0 0xc4%N 1); [reflexivity|rewrite pow256_1; lia|assumption]. }
    cbn [app] in *. unfold dec_string. rewrite D. reflexivity.
  - destruct (N.ltb_spec (len s) 65536).
    + assert (D : dec 1 ((0xc5%N :: be_bytes 2 (len s)) ++ s ++ rest) = DOk (VBin s) rest).
      { apply (dec_bin_w 0 0xc5%N 2); [reflexivity|rewrite pow256_2; lia|assumption]. }
      cbn [app] in *. unfold dec_string. rewrite D. reflexivity.
    + assert (D : dec 1 ((0xc6%N :: be_bytes 4 (len s)) ++ s ++ rest) = DOk (VBin s) rest).
      { apply (dec_bin_w 0 0xc6%N 4); [reflexivity|rewrite pow256_4; lia|assumption]. }
      cbn [app] in *. unfold dec_string. rewrite D. reflexivity.
Qed.

(* the compressed argument, once the oracle and the inner decoding are known *)
Lemma dec_compressed_ok : forall e payload plain v r0 rest k,
  payload <> [] -> (len payload < two32)%N ->
  assoc_bytes payload (inflated e) = Some (Some plain) ->
  decode plain = DOk v r0 ->
  dec_compressed e (enc (VBin payload) ++ rest) k = k v rest.
Proof.
  intros e payload plain v r0 rest k NE L A D.
  unfold dec_compressed. cbn [enc]. rewrite <- app_assoc, dec_string_bin_canon by assumption.
  rewrite lift_ok. cbv beta.
  destruct payload as [|b pl]; [congruence|].
  rewrite A, D. reflexivity.
Qed.

(* ------------------------------------------------------------------ *)
(* the canonical tag map is decoded by dec_tags *)
Lemma enc_nonempty : forall v, wf_val v = true -> (1 <= length (enc v))%nat.
Proof.
  intros v W. destruct (canon_good v W) as [G _]. assert (S := sz_pos v). lia.
Qed.

Lemma enc_str_nilkey : forall s rest, wf_val (VStr s) = true ->
  nilkey (enc_str_hdr (len s) ++ rest) = false.
Proof.
  intros s rest W. cbn [wf_val] in W. apply andb_prop in W. destruct W as [_ W2].
  apply N.ltb_lt in W2.
  destruct (str_hdr_spec _ _ (enc_str_hdr_in _ W2)) as [b [h' [E [B1 _]]]]. rewrite E. cbn [app nilkey].
  destruct (N.eqb_spec b 192); [contradiction|reflexivity].
Qed.

Lemma tag_pairs_canon : forall l,
  forallb str_key l = true ->
  forallb (fun kv => wf_val (fst kv) && wf_val (snd kv)) l = true ->
  forall rest f, (length l <= f)%nat ->
  dec_tag_pairs f (len l) (flat_map (fun kv => enc (fst kv) ++ enc (snd kv)) l ++ rest) = DOk l rest.
Proof.
  induction l as [|[a b] l IH]; intros HK HW rest f Hf.
  - rewrite len_nil. apply dec_tag_pairs_zero.
  - cbn [forallb] in HK, HW. apply andb_prop in HK. destruct HK as [Ka Kl].
    apply andb_prop in HW. destruct HW as [Wab Wl]. cbn [fst snd] in Wab.
    apply andb_prop in Wab. destruct Wab as [Wa Wb].
    unfold str_key in Ka. cbn [fst] in Ka. destruct a as [| | |s| | | |]; try discriminate.
    destruct f as [|f]; [cbn [length] in Hf; lia|].
    rewrite dec_tag_pairs_eq, len_cons.
    destruct (N.eqb_spec (N.succ (len l)) 0) as [E|_]; [lia|].
    cbn [flat_map fst snd]. cbn [enc]. rewrite <- !app_assoc.
    assert (Wa' := Wa). cbn [wf_val] in Wa'. apply andb_prop in Wa'. destruct Wa' as [B1 B2].
    apply N.ltb_lt in B2.
    rewrite dec_string_canon by assumption.
    rewrite enc_str_nilkey by assumption.
    rewrite mp_roundtrip_canon by assumption.
    replace (N.succ (len l) - 1)%N with (len l) by lia.
    rewrite IH; [reflexivity|assumption|assumption|cbn [length] in Hf; lia].
Qed.

Lemma canon_pairs_length : forall l,
  forallb (fun kv => wf_val (fst kv) && wf_val (snd kv)) l = true ->
  (length l <= length (flat_map (fun kv => enc (fst kv) ++ enc (snd kv)) l))%nat.
Proof.
  induction l as [|[a b] l IH]; intros HW; [cbn [length]; lia|].
  cbn [forallb] in HW. apply andb_prop in HW. destruct HW as [Wab Wl]. cbn [fst snd] in Wab.
  apply andb_prop in Wab. destruct Wab as [Wa Wb].
  cbn [flat_map fst snd]. rewrite !app_length. cbn [length].
  assert (A := enc_nonempty a Wa). specialize (IH Wl). lia.
Qed.

Lemma dec_tags_canon : forall t n k,
  tags_ok t = true -> forallb wf_val (opt_tags t) = true ->
  n = Z.of_N (len (opt_tags t)) ->
  dec_tags n (flat_map enc (opt_tags t)) k = k t.
Proof.
  intros t n k HT HW HN. rewrite dec_tags_eq. destruct t as [v|].
  - cbn [opt_tags] in *. rewrite len_cons, len_nil in HN.
    destruct (Z.leb_spec n 0); [lia|].
    cbn [forallb] in HW. apply andb_prop in HW. destruct HW as [HW _].
    destruct v as [| | | | | | |l]; try discriminate. cbn [tags_ok] in HT.
    cbn [wf_val] in HW. apply andb_prop in HW. destruct HW as [W1 W2]. apply N.ltb_lt in W1.
    cbn [flat_map]. rewrite enc_map_eq, <- app_assoc.
    destruct (tag_map_header_alt (len l) (enc_map_hdr (len l))
                (flat_map (fun kv => enc (fst kv) ++ enc (snd kv)) l ++ []) (enc_map_hdr_in _ W1))
      as [N1 N2].
    rewrite N1, N2.
    rewrite tag_pairs_canon; [reflexivity|exact HT|exact W2|].
    rewrite app_length. assert (A := canon_pairs_length l W2). lia.
  - cbn [opt_tags] in HN. rewrite len_nil in HN.
    destruct (Z.leb_spec n 0); [reflexivity|lia].
Qed.

(* a canonical frame: prefix then body *)
Lemma canon_frame_step : forall e max content rest,
  (0 < len content)%N -> (Z.of_N (len content) <= max) -> (max <= 2147483647) ->
  next_frame e max (enc_int (Z.of_N (len content)) ++ content ++ rest) = (body_outcome e content, rest).
Proof.
  intros e max content rest H0 H1 H2.
  apply (frame_step e max (Z.of_N (len content))); try lia.
  apply enc_int_in_opts. unfold two63z, two64z. lia.
Qed.

(* ------------------------------------------------------------------ *)
Section Transparent.
  (* the codec of one algorithm: any pair of functions with the round-trip law; comp never yields the empty string *)
  Variable comp : bytes -> bytes.
  Variable decomp : bytes -> option bytes.
  Hypothesis comp_decomp : forall x, decomp (comp x) = Some x.
  Hypothesis comp_nonempty : forall x, comp x <> [].
  Hypothesis comp_bytes : forall x, bytes_ok x = true -> bytes_ok (comp x) = true /\ (len (comp x) < two32)%N.

  Lemma compressed_field : forall e v rest k,
    wf_val v = true ->
    assoc_bytes (comp (enc v)) (inflated e) = Some (decomp (comp (enc v))) ->
    dec_compressed e (enc (VBin (comp (enc v))) ++ rest) k = k v rest.
  Proof.
    intros e v rest k W OR. rewrite comp_decomp in OR.
    destruct (comp_bytes (enc v) (enc_bytes_ok v W)) as [_ L].
    apply (dec_compressed_ok e (comp (enc v)) (enc v) v []); try assumption.
    - apply comp_nonempty.
    - rewrite <- (app_nil_r (enc v)). now apply mp_roundtrip_canon.
  Qed.

  Theorem compressed_call_transparent : forall e max q ct me a t rest,
      has_compressor ct = true -> wf_seq q = true -> wf_val (VStr me) = true -> wf_val a = true ->
      tags_ok t = true -> forallb wf_val (opt_tags t) = true ->
      find_method e me = None ->
      assoc_bytes (comp (enc a)) (inflated e) = Some (decomp (comp (enc a))) ->
      let m := MCallC q ct me (VBin (comp (enc a))) t in
      (Z.of_N (len (spec_bytes m)) <= max)%Z -> (max <= 2147483647)%Z ->
      next_frame e max (enc_int (Z.of_N (len (spec_bytes m))) ++ spec_bytes m ++ rest) = (OCallC q ct me a t, rest).
  Proof.
    intros e max q ct me a t rest HC Wq Wme Wa Tt Wt FM OR m HMax HM.
    assert (L : (0 < len (spec_bytes m))%N).
    { subst m. cbn [spec_bytes app]. rewrite len_cons. lia. }
    rewrite canon_frame_step by assumption. f_equal.
    subst m. cbn [spec_bytes]. rewrite <- enc_int_4. cbn [app body_outcome].
    assert (T := len_opt_tags t).
    destruct (N.ltb_spec (144 + 5 + len (opt_tags t)) 145); [lia|].
    destruct (N.ltb_spec 159 (144 + 5 + len (opt_tags t))); [lia|].
    cbn [orb].
    replace (144 + 5 + len (opt_tags t) - 144)%N with (5 + len (opt_tags t))%N by lia.
    apply wf_seq_range in Wq.
    apply has_compressor_cases in HC.
    assert (HC' : has_compressor ct = true) by now apply has_compressor_cases.
    assert (Wme' := Wme). cbn [wf_val] in Wme'. apply andb_prop in Wme'. destruct Wme' as [B1 B2].
    apply N.ltb_lt in B2.
    unfold decode_content.
    rewrite dec_int64_canon by (unfold two63z, two64z; lia).
    rewrite wrap64_small by (unfold two63z; lia). lift_step. zeq. cbv iota.
    match goal with |- context [Z.ltb ?x ?y] =>
      destruct (Z.ltb_spec x y) as [X|_]; [unfold minlen_call_compressed in X; lia|] end.
    rewrite dec_int64_canon by (unfold two63z, two64z in *; lia).
    rewrite wrap64_small by lia. lift_step.
    rewrite dec_int64_canon by (unfold two63z, two64z; lia).
    rewrite wrap64_small by (unfold two63z; lia). lift_step.
    rewrite <- app_assoc.
    rewrite dec_string_canon by assumption. lift_step.
    rewrite FM, HC'.
    rewrite compressed_field by assumption.
    apply dec_tags_canon; try assumption. unfold minlen_call_compressed. lia.
  Qed.

  Theorem compressed_reply_transparent : forall e max q ct er r rest,
      has_compressor ct = true -> wf_seq q = true -> wf_val er = true -> wf_val r = true ->
      assoc_z q (pending e) = Some (mkCI ct true true) ->
      assoc_bytes (comp (enc r)) (inflated e) = Some (decomp (comp (enc r))) ->
      let m := MResp q er (VBin (comp (enc r))) in
      (Z.of_N (len (spec_bytes m)) <= max)%Z -> (max <= 2147483647)%Z ->
      next_frame e max (enc_int (Z.of_N (len (spec_bytes m))) ++ spec_bytes m ++ rest) = (OResp q er r, rest).
  Proof.
    intros e max q ct er r rest HC Wq We Wr AZ OR m HMax HM.
    assert (L : (0 < len (spec_bytes m))%N).
    { subst m. cbn [spec_bytes app]. rewrite len_cons. lia. }
    rewrite canon_frame_step by assumption. f_equal.
    subst m. cbn [spec_bytes]. rewrite <- enc_int_1. cbn [app body_outcome].
    destruct (N.ltb_spec 148 145); [lia|].
    destruct (N.ltb_spec 159 148); [lia|].
    cbn [orb].
    replace (148 - 144)%N with 4%N by lia.
    apply wf_seq_range in Wq.
    unfold decode_content.
    rewrite dec_int64_canon by (unfold two63z, two64z; lia).
    rewrite wrap64_small by (unfold two63z; lia). lift_step. zeq. cbv iota.
    match goal with |- context [Z.ltb ?x ?y] =>
      destruct (Z.ltb_spec x y) as [X|_]; [unfold minlen_response in X; lia|] end.
    rewrite dec_int64_canon by (unfold two63z, two64z in *; lia).
    rewrite wrap64_small by lia. lift_step.
    rewrite AZ. cbv zeta. cbn [ci_unwrap ci_has_res ci_ctype].
    rewrite mp_roundtrip_canon by assumption. lift_step.
    cbn [negb]. rewrite HC.
    rewrite <- (app_nil_r (enc (VBin (comp (enc r))))).
    rewrite compressed_field by assumption. reflexivity.
  Qed.
End Transparent.

(* ------------------------------------------------------------------ *)
(* the reader pool *)
Lemma ufind_filter_neq : forall u u' l, u <> u' ->
  ufind u' (filter (fun p => negb (fst p =? u)) l) = ufind u' l.
Proof.
  intros u u' l N. induction l as [|[k v] l IH]; [reflexivity|].
  cbn [filter ufind fst].
  destruct (Z.eqb_spec k u) as [E|E]; cbn [negb].
  - destruct (Z.eqb_spec k u'); [congruence|]. exact IH.
  - cbn [ufind]. destruct (k =? u'); [reflexivity|exact IH].
Qed.

Lemma ufind_uset : forall u u' v l,
  ufind u' (uset u v l) = if u =? u' then Some v else ufind u' l.
Proof.
  intros u u' v l. unfold uset. cbn [ufind].
  destruct (Z.eqb_spec u u') as [E|E]; [reflexivity|]. now apply ufind_filter_neq.
Qed.

Lemma remove_nth_In : forall A (x : A) i l, In x (remove_nth i l) -> In x l.
Proof.
  intros A x i. induction i as [|i IH]; intros [|y l] H; cbn [remove_nth] in H; try contradiction.
  - now right.
  - destruct H as [H|H]; [now left|right; now apply IH].
Qed.

Lemma ufind_pinit : forall u s inputs,
  ufind u (map (fun p : Z * Z => (fst p, UStart (snd p))) inputs) = Some s ->
  exists inp, s = UStart inp /\ ifind u inputs = Some inp.
Proof.
  intros u s inputs. induction inputs as [|[k v] l IH]; cbn [map ufind ifind fst snd]; [discriminate|].
  destruct (k =? u).
  - intros H. inversion H. now exists v.
  - exact IH.
Qed.

Definition ugood (wellformed : Z -> bool) (inputs : list (Z * Z)) (u : Z) (s : upc) : Prop :=
  match s with
  | UStart inp => ifind u inputs = Some inp
  | UGot r inp => r <> RBroken /\ ifind u inputs = Some inp
  | UReset r inp => r = RReady inp /\ wellformed inp = true /\ ifind u inputs = Some inp
  | URead r inp out => out = Some inp /\ wellformed inp = true /\ ifind u inputs = Some inp
  | UDone out ok =>
      exists inp, ifind u inputs = Some inp /\
        (if wellformed inp then ok = true /\ out = Some inp else ok = false)
  end.

Definition pinv (wellformed : Z -> bool) (inputs : list (Z * Z)) (st : pstate) : Prop :=
  (forall r, In r (pool st) -> r <> RBroken) /\
  (forall u s, ufind u (users st) = Some s -> ugood wellformed inputs u s).

Lemma pinv_uset : forall wf inputs (us : list (Z * upc)) u v,
  (forall u' s, ufind u' us = Some s -> ugood wf inputs u' s) ->
  ugood wf inputs u v ->
  forall u' s, ufind u' (uset u v us) = Some s -> ugood wf inputs u' s.
Proof.
  intros wf inputs us u v HU G u' s. rewrite ufind_uset.
  destruct (Z.eqb_spec u u') as [E|E].
  - intros X. inversion X. subst. exact G.
  - apply HU.
Qed.

Lemma pinv_step : forall wf inputs s l s',
  pinv wf inputs s -> pstep wf false s l = Some s' -> pinv wf inputs s'.
Proof.
  intros wf inputs s l s' [HP HU] H. destruct l as [u i|u|u|u|u]; unfold pstep in H.
  - destruct (ufind u (users s)) as [[inp|r0 inp|r0 inp|r0 inp out|out ok]|] eqn:EU; try discriminate.
    destruct (nth_error (pool s) i) as [r|] eqn:EN; try discriminate.
    inversion H; subst s'; clear H. split; cbn [pool users].
    + intros r0 Hr. apply HP. eapply remove_nth_In; eauto.
    + apply pinv_uset; [exact HU|]. cbn [ugood]. split.
      * apply HP. eapply nth_error_In; eauto.
      * exact (HU _ _ EU).
  - destruct (ufind u (users s)) as [[inp|r0 inp|r0 inp|r0 inp out|out ok]|] eqn:EU; try discriminate.
    inversion H; subst s'; clear H. split; cbn [pool users]; [exact HP|].
    apply pinv_uset; [exact HU|]. cbn [ugood]. split; [discriminate|exact (HU _ _ EU)].
  - destruct (ufind u (users s)) as [[inp|r0 inp|r0 inp|r0 inp out|out ok]|] eqn:EU; try discriminate.
    destruct (HU _ _ EU) as [NB IF].
    destruct (wf inp) eqn:W; inversion H; subst s'; clear H; (split; cbn [pool users]; [exact HP|]);
      (apply pinv_uset; [exact HU|]); cbn [ugood].
    + split; [|split; assumption]. destruct r0; try reflexivity. congruence.
    + exists inp. split; [assumption|]. rewrite W. reflexivity.
  - destruct (ufind u (users s)) as [[inp|r0 inp|r0 inp|r0 inp out|out ok]|] eqn:EU; try discriminate.
    destruct (HU _ _ EU) as [RR [W IF]]. subst r0.
    inversion H; subst s'; clear H. split; cbn [pool users]; [exact HP|].
    apply pinv_uset; [exact HU|]. cbn [ugood]. rewrite Z.eqb_refl. repeat split; assumption.
  - destruct (ufind u (users s)) as [[inp|r0 inp|r0 inp|r0 inp out|out ok]|] eqn:EU; try discriminate.
    destruct (HU _ _ EU) as [OO [W IF]]. subst out.
    inversion H; subst s'; clear H. split; cbn [pool users].
    + intros r [<-|Hr]; [discriminate|now apply HP].
    + apply pinv_uset; [exact HU|]. cbn [ugood]. exists inp. split; [assumption|]. rewrite W. now split.
Qed.

Theorem pool_independent : forall wellformed inputs pool0 ls st,
    (forall r, In r pool0 -> r <> RBroken) ->
    NoDup (map fst inputs) ->
    run (pstep wellformed false) (pinit inputs pool0) ls = Some st ->
    results_ok wellformed inputs st /\ (forall r, In r (pool st) -> r <> RBroken).
Proof.
  intros wf inputs pool0 ls st HP _ HR.
  assert (I : pinv wf inputs st).
  { apply (invariant_run pstate plabel (pstep wf false) (pinv wf inputs) (pinv_step wf inputs)
             ls (pinit inputs pool0) st); [|exact HR].
    split; cbn [pinit pool users]; [exact HP|].
    intros u s H. apply ufind_pinit in H. destruct H as [inp [-> IF]]. exact IF. }
  destruct I as [IP IU]. split; [|exact IP].
  intros u out ok H. exact (IU _ _ H).
Qed.

(* putting a reader back after its Reset failed breaks it: a witness *)
Theorem pool_put_after_failed_reset_refuted : exists wellformed inputs ls st,
    NoDup (map fst inputs) /\ run (pstep wellformed true) (pinit inputs []) ls = Some st /\ ~ results_ok wellformed inputs st.
Proof.
  exists (fun z => z =? 1), [(0, 0); (1, 1)],
         [PGetNew 0; PReset 0; PGetPooled 1 0; PReset 1; PRead 1; PCloseAndPut 1].
  eexists. split; [|split].
  - cbn [map fst]. repeat constructor; cbn [In]; intuition discriminate.
  - vm_compute. reflexivity.
  - intros H. specialize (H 1 None true eq_refl). destruct H as [inp [IF C]].
    vm_compute in IF. inversion IF; subst inp. cbn in C. destruct C as [_ C]. discriminate.
Qed.

(* ------------------------------------------------------------------ *)
Print Assumptions unknown_is_none.
Print Assumptions has_compressor_iff.
Print Assumptions compressed_call_transparent.
Print Assumptions compressed_reply_transparent.
Print Assumptions pool_independent.
Print Assumptions pool_put_after_failed_reset_refuted.
