//go:build verif

package rpc

import (
	"bytes"
	"compress/gzip"
	"io"
	"runtime"
	"strings"
	"testing"
	"time"

	"github.com/keybase/go-codec/codec"
	"github.com/keybase/msgpackzip"
)

// vInflateEvents: for every written frame that carries a compressed payload (a call-compressed argument or a
// response result), emit inflated/<payload>/<plain> so that the model can decode the frame completely.
// The payload is located with the generic decoder and inflated with the standard library / msgpackzip directly,
// not through the package's pooled compressors.
func vInflateEvents(evs []string) []string {
	var extra []string
	for _, e := range evs {
		if !strings.HasPrefix(e, "write/") && !strings.HasPrefix(e, "feed/") {
			continue
		}
		f := strings.Split(e, "/")
		b := vUnhex(f[1])
		h := &codec.MsgpackHandle{WriteExt: true, RawToString: true}
		dec := codec.NewDecoderBytes(b, h)
		var l int
		if dec.Decode(&l) != nil {
			continue
		}
		var arr []interface{}
		if dec.Decode(&arr) != nil || len(arr) < 4 {
			continue
		}
		var payload []byte
		var ctype int64 = -1
		if t, ok := arr[0].(int64); ok && t == 4 && len(arr) >= 5 {
			payload, _ = arr[4].([]byte)
			switch c := arr[2].(type) {
			case int64:
				ctype = c
			case uint64:
				ctype = int64(c)
			}
		} else if ok && t == 1 {
			payload, _ = arr[3].([]byte)
		}
		if len(payload) == 0 {
			continue
		}
		var plain []byte
		okInfl := false
		if ctype == 1 || ctype == -1 {
			if r, err := gzip.NewReader(bytes.NewReader(payload)); err == nil {
				if p, err := io.ReadAll(r); err == nil {
					plain, okInfl = p, true
				}
			}
		}
		if !okInfl && (ctype == 2 || ctype == -1) {
			if p, err := msgpackzip.Inflate(payload); err == nil {
				plain, okInfl = p, true
			}
		}
		if okInfl {
			extra = append(extra, "inflated/"+vHex(payload)+"/"+vHexS(string(plain)))
		}
	}
	return append(evs, extra...)
}

// vInflateStream: the same oracle for a byte stream that is FED to the decoder: every complete frame whose content is a
// compressed call is located with the generic decoder and its payload inflated with the standard library / msgpackzip
// directly; "<payload>:<plain>" or "<payload>:!" when the library refuses it.
func vInflateStream(stream []byte) string {
	var out []string
	h := &codec.MsgpackHandle{WriteExt: true, RawToString: true}
	for len(stream) > 0 && len(out) < 64 {
		dec := codec.NewDecoderBytes(stream, h)
		var l int
		if dec.Decode(&l) != nil || l <= 0 || l > len(stream) {
			break
		}
		used := dec.NumBytesRead()
		if used+l > len(stream) {
			break
		}
		content := stream[used : used+l]
		stream = stream[used+l:]
		var arr []interface{}
		if codec.NewDecoderBytes(content, h).Decode(&arr) != nil || len(arr) < 5 {
			continue
		}
		t, ok := arr[0].(int64)
		if !ok || t != 4 {
			continue
		}
		var payload []byte
		switch pv := arr[4].(type) {
		case []byte:
			payload = pv
		case string: // a str where bin is expected is accepted as the byte string it spells
			payload = []byte(pv)
		}
		if len(payload) == 0 {
			continue
		}
		var ctype int64 = -1
		switch c := arr[2].(type) {
		case int64:
			ctype = c
		case uint64:
			ctype = int64(c)
		}
		var plain []byte
		okInfl := false
		if ctype == 1 {
			if r, err := gzip.NewReader(bytes.NewReader(payload)); err == nil {
				if p, err := io.ReadAll(r); err == nil {
					plain, okInfl = p, true
				}
			}
		} else if ctype == 2 {
			if p, err := msgpackzip.Inflate(payload); err == nil {
				plain, okInfl = p, true
			}
		} else {
			continue
		}
		if okInfl {
			pl := vHexS(string(plain))
			if pl == "" {
				pl = "-"
			}
			out = append(out, vHex(payload)+":"+pl)
		} else {
			out = append(out, vHex(payload)+":!")
		}
	}
	if len(out) == 0 {
		return "-"
	}
	return strings.Join(out, ",")
}

func vScenarioCases(t *testing.T, withDecode bool) {
	cases := vReadCases(t)
	out := vOpenOut(t)
	defer out.close()
	for _, c := range cases {
		c := c
		switch c.kind {
		case "dec":
			if withDecode {
				vGuard(out, c.kind, c.id, func() {
					var m0, m1 runtime.MemStats
					runtime.ReadMemStats(&m0)
					outs, consumed, maxAsk := vRunDecode(c)
					runtime.ReadMemStats(&m1)
					out.printf("dec %s outs=%s consumed=%s maxask=%d alloc=%d inflated=%s errh=%s", c.id, strings.Join(outs, "|"), strings.Join(consumed, ","), maxAsk, m1.TotalAlloc-m0.TotalAlloc, vInflateStream(vUnhex(c.get("stream"))), strings.Join(vErrTexts, ","))
				})
			}
		case "cc":
			vGuard(out, c.kind, c.id, func() { out.printf("cc %s %s", c.id, vRunCC(c)) })
		case "e2en":
			vGuard(out, c.kind, c.id, func() { out.printf("e2en %s %s", c.id, vRunE2ENotify(c)) })
		case "e2ec":
			vGuard(out, c.kind, c.id, func() { out.printf("e2ec %s %s", c.id, vRunE2ECancel(c)) })
		case "e2eb":
			vGuard(out, c.kind, c.id, func() { out.printf("e2eb %s %s", c.id, vRunE2EBurst(c)) })
		case "scn", "enc":
			vGuard(out, c.kind, c.id, func() {
				t0 := time.Now()
				evs := vInflateEvents(vRunScenario(c))
				out.printf("%s %s ms=%d ev=%s", c.kind, c.id, time.Since(t0).Milliseconds(), strings.Join(evs, ";"))
			})
		}
		out.flush()
	}
}

func TestVerifC02(t *testing.T) { vScenarioCases(t, true) }
func TestVerifScn(t *testing.T) { vScenarioCases(t, true) }
func TestVerifC05(t *testing.T) { vScenarioCases(t, true) }
