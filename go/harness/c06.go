//go:build verif

package rpc

import (
	"bytes"
	"net"
	"strconv"
	"strings"
	"sync"
	"testing"
	"time"

	"golang.org/x/net/context"

	"github.com/keybase/go-codec/codec"
)

// TestVerifC06: (scn) compressed calls through the engine; (comp) Compress/Decompress round trips with optional
// corruption of the compressed bytes; (pool) many goroutines sharing the pooled gzip state, with failing inputs mixed in.
func TestVerifC06(t *testing.T) {
	cases := vReadCases(t)
	out := vOpenOut(t)
	defer out.close()
	for _, c := range cases {
		c := c
		switch c.kind {
		case "scn":
			vGuard(out, c.kind, c.id, func() {
				evs := vInflateEvents(vRunScenario(c))
				out.printf("scn %s ev=%s", c.id, strings.Join(evs, ";"))
			})
		case "e2e":
			vGuard(out, c.kind, c.id, func() { out.printf("e2e %s %s", c.id, vRunE2E(c)) })
		case "comp":
			vGuard(out, c.kind, c.id, func() {
				ct, _ := strconv.Atoi(c.get("ctype"))
				comp := CompressionType(ct).NewCompressor()
				if comp == nil {
					out.printf("comp %s res=nocompressor", c.id)
					return
				}
				data := vUnhex(c.get("data"))
				z, err := comp.Compress(data)
				if err != nil {
					out.printf("comp %s res=compress-error", c.id)
					return
				}
				if then := c.get("then"); then != "" {
					// a second Compress before the first result is used
					_, _ = comp.Compress(vUnhex(then))
				}
				z = append([]byte(nil), z...)
				if spec := c.get("corrupt"); spec != "" && spec != "-" {
					for _, cs := range strings.Split(spec, ",") {
						f := strings.Split(cs, ":")
						pos, _ := strconv.Atoi(f[0])
						mask, _ := strconv.Atoi(f[1])
						if len(z) > 0 {
							if pos < 0 { // counted from the end: -1 is the last byte (the gzip trailer is the last 8)
								pos = len(z) - 1 - ((-pos - 1) % len(z))
							}
							z[pos%len(z)] ^= byte(mask)
						}
					}
				}
				if c.get("truncate") != "" {
					n, _ := strconv.Atoi(c.get("truncate"))
					if n < len(z) {
						z = z[:n]
					}
				}
				d, err := comp.Decompress(z)
				if err != nil {
					out.printf("comp %s res=err zlen=%d", c.id, len(z))
					return
				}
				same := "0"
				if bytes.Equal(d, data) {
					same = "1"
				}
				out.printf("comp %s res=ok same=%s zlen=%d", c.id, same, len(z))
			})
		case "pool":
			vGuard(out, c.kind, c.id, func() {
				workers, _ := strconv.Atoi(c.get("workers"))
				rounds, _ := strconv.Atoi(c.get("rounds"))
				ct, _ := strconv.Atoi(c.get("ctype"))
				seed, _ := strconv.Atoi(c.get("seed"))
				var wg sync.WaitGroup
				var mu sync.Mutex
				bad := 0
				panics := 0
				for w := 0; w < workers; w++ {
					w := w
					wg.Add(1)
					go func() {
						defer wg.Done()
						defer func() {
							if r := recover(); r != nil {
								mu.Lock()
								panics++
								mu.Unlock()
							}
						}()
						comp := CompressionType(ct).NewCompressor()
						x := uint32(seed*7919 + w*104729 + 1)
						for i := 0; i < rounds; i++ {
							x = x*1664525 + 1013904223
							n := int(x>>8) % 600
							data := make([]byte, n)
							for j := range data {
								x = x*1664525 + 1013904223
								if w%2 == 0 {
									data[j] = byte(x >> 24)
								} else {
									data[j] = byte('a' + (x>>24)%3)
								}
							}
							if ct == 2 {
								// msgpackzip works on msgpack data: wrap the bytes in a small msgpack value
								var enc []byte
								_ = codec.NewEncoderBytes(&enc, newCodecMsgpackHandle()).Encode([]interface{}{int64(i), data, string(data[:len(data)/3])})
								data = enc
							}
							if i%5 == 3 {
								// a failing decompression between good ones
								_, _ = comp.Decompress(data)
								continue
							}
							z, err := comp.Compress(data)
							if err != nil {
								mu.Lock()
								bad++
								mu.Unlock()
								continue
							}
							// the compressed bytes belong to the caller: another Compress in between must not disturb them
							var z2 []byte
							if i%2 == 0 {
								z2, _ = comp.Compress(data[:len(data)/2])
							}
							d, err := comp.Decompress(z)
							if err != nil || !bytes.Equal(d, data) {
								mu.Lock()
								bad++
								mu.Unlock()
							}
							if z2 != nil {
								if d2, err := comp.Decompress(z2); err != nil || !bytes.Equal(d2, data[:len(data)/2]) {
									mu.Lock()
									bad++
									mu.Unlock()
								}
							}
						}
					}()
				}
				wg.Wait()
				out.printf("pool %s bad=%d panics=%d total=%d", c.id, bad, panics, workers*rounds)
			})
		}
		out.flush()
	}
}

// ---------------------------------------------------------------- both ends are the package: Call versus CallCompressed

type vE2EErr struct{ s string }

func (e vE2EErr) Error() string { return e.s }

// a buffered duplex link (net.Pipe is unbuffered: a reply written while the peer is itself writing would deadlock)
func vTCPPair() (net.Conn, net.Conn, error) {
	ln, err := net.Listen("tcp", "127.0.0.1:0")
	if err != nil {
		return nil, nil, err
	}
	defer ln.Close()
	acc := make(chan net.Conn, 1)
	go func() { c, _ := ln.Accept(); acc <- c }()
	a, err := net.Dial("tcp", ln.Addr().String())
	if err != nil {
		return nil, nil, err
	}
	b := <-acc
	if b == nil {
		a.Close()
		return nil, nil, errVRetriableDial
	}
	return a, b, nil
}

func vRunE2E(c vCase) string {
	a, b, err := vTCPPair()
	if err != nil {
		return "setup=" + strings.ReplaceAll(err.Error(), " ", "_")
	}
	lf := NewSimpleLogFactory(vQuietOutput{}, vQuietOpts{})
	cx := NewTransport(a, lf, nil, nil, 1<<20)
	sx := NewTransport(b, lf, nil, nil, 1<<20)
	defer cx.Close()
	defer sx.Close()
	var hmu sync.Mutex
	var hargs []string
	resV, errS := c.get("res"), c.get("err")
	srv := NewServer(sx, func(e error) interface{} {
		if e == nil {
			return nil
		}
		return e.Error()
	})
	_ = srv.Register(Protocol{Name: "p", Methods: map[string]ServeHandlerDescription{
		"m": {
			MakeArg: func() interface{} { var v interface{}; return &v },
			Handler: func(ctx context.Context, arg interface{}) (interface{}, error) {
				hmu.Lock()
				hargs = append(hargs, vPrint(*(arg.(*interface{}))))
				hmu.Unlock()
				var r interface{}
				if resV != "-" && resV != "" {
					r = vParse(resV)
				}
				if errS != "-" && errS != "" {
					return r, vE2EErr{errS}
				}
				return r, nil
			},
		}}})
	srv.Run()
	cli := NewClient(cx, vStringUnwrapper{}, nil)
	method := "p.m"
	if c.get("method") == "missing" {
		method = "p.nothere"
	} else if c.get("method") == "noproto" {
		method = "q.m"
	}
	ct, _ := strconv.Atoi(c.get("ctype"))
	var arg interface{}
	if av := c.get("arg"); av != "-" && av != "" {
		arg = vParse(av)
	}
	one := func(compressed bool) string {
		var res interface{}
		var e error
		ctx, cancel := context.WithTimeout(context.Background(), 3*time.Second)
		defer cancel()
		if compressed {
			e = cli.CallCompressed(ctx, method, arg, &res, CompressionType(ct), 0)
		} else {
			e = cli.Call(ctx, method, arg, &res, 0)
		}
		es := "-"
		if e != nil {
			es = vHexS(e.Error())
		}
		return es + "~" + vPrint(res)
	}
	plain := one(false)
	comp := one(true)
	follow := one(false)
	hmu.Lock()
	ha := strings.Join(hargs, "~")
	hmu.Unlock()
	return "plain=" + plain + " comp=" + comp + " followup=" + follow + " hargs=" + ha
}

// errors travel as strings
type vStringUnwrapper struct{}

func (vStringUnwrapper) MakeArg() interface{} { var s string; return &s }
func (vStringUnwrapper) UnwrapError(arg interface{}) (appError error, dispatchError error) {
	if sp, ok := arg.(*string); ok && sp != nil && *sp != "" {
		return vE2EErr{*sp}, nil
	}
	return nil, nil
}
