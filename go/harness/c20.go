//go:build verif

package rpc

import (
	"errors"
	"strconv"
	"strings"
	"sync"
	"testing"
	"time"

	"golang.org/x/net/context"
)

type vListStorage struct {
	mu   sync.Mutex
	puts []int64
	fail bool          // stores the record, then reports an error (a storage whose acknowledgement got lost)
	slow time.Duration // every Put takes this long
}

func (s *vListStorage) Put(_ context.Context, _ string, r InstrumentationRecord) error {
	if s.slow > 0 {
		time.Sleep(s.slow)
	}
	s.mu.Lock()
	s.puts = append(s.puts, r.Size)
	s.mu.Unlock()
	if s.fail {
		return errors.New("verif: storage error after storing")
	}
	return nil
}

// TestVerifC20: scenarios through the engine, and NetworkInstrumenter driven directly by operation lists
func TestVerifC20(t *testing.T) {
	cases := vReadCases(t)
	out := vOpenOut(t)
	defer out.close()
	for _, c := range cases {
		c := c
		switch c.kind {
		case "scn":
			vGuard(out, c.kind, c.id, func() {
				evs := vInflateEvents(vRunScenario(c))
				out.printf("scn %s ev=%s", c.id, strings.Join(evs, ";"))
			})
		case "inst":
			vGuard(out, c.kind, c.id, func() {
				st := &vListStorage{}
				switch c.get("storage") {
				case "errs":
					st.fail = true
				case "slow":
					st.slow = 3 * time.Millisecond
				}
				in := NewNetworkInstrumenter(st, "Call x")
				var refused []string
				if ops := c.get("ops"); c.get("conc") == "1" && ops != "-" && ops != "" {
					// every finishing operation on a goroutine of its own, all at once
					var wg sync.WaitGroup
					var rmu sync.Mutex
					for _, o := range strings.Split(ops, ",") {
						o := o
						if o[0] == 'i' {
							n, _ := strconv.ParseInt(o[1:], 10, 64)
							in.IncrementSize(n)
							continue
						}
						wg.Add(1)
						go func() {
							defer wg.Done()
							var err error
							if o[0] == 'f' {
								err = in.Finish(context.Background())
							} else {
								n, _ := strconv.ParseInt(o[1:], 10, 64)
								err = in.RecordAndFinish(context.Background(), n)
							}
							rmu.Lock()
							if err != nil {
								refused = append(refused, "1")
							} else {
								refused = append(refused, "0")
							}
							rmu.Unlock()
						}()
					}
					wg.Wait()
				} else if ops != "-" && ops != "" {
					for _, o := range strings.Split(ops, ",") {
						switch o[0] {
						case 'i':
							n, _ := strconv.ParseInt(o[1:], 10, 64)
							in.IncrementSize(n)
						case 'f':
							if in.Finish(context.Background()) != nil {
								refused = append(refused, "1")
							} else {
								refused = append(refused, "0")
							}
						case 'r':
							n, _ := strconv.ParseInt(o[1:], 10, 64)
							if in.RecordAndFinish(context.Background(), n) != nil {
								refused = append(refused, "1")
							} else {
								refused = append(refused, "0")
							}
						}
					}
				}
				var ps []string
				for _, p := range st.puts {
					ps = append(ps, strconv.FormatInt(p, 10))
				}
				out.printf("inst %s puts=%s refused=%s", c.id, strings.Join(ps, ","), strings.Join(refused, ","))
			})
		}
		out.flush()
	}
}
