//go:build verif

package rpc

import (
	"strconv"
	"strings"
	"sync"
	"testing"

	"golang.org/x/net/context"
)

type vListStorage struct {
	mu   sync.Mutex
	puts []int64
}

func (s *vListStorage) Put(_ context.Context, _ string, r InstrumentationRecord) error {
	s.mu.Lock()
	s.puts = append(s.puts, r.Size)
	s.mu.Unlock()
	return nil
}

// TestVerifC20: scenarios through the engine, and NetworkInstrumenter driven directly by operation lists
func TestVerifC20(t *testing.T) {
	cases := vReadCases(t)
	out := vOpenOut(t)
	defer out.close()
	for _, c := range cases {
		c := c
		switch c.kind {
		case "scn":
			vGuard(out, c.kind, c.id, func() {
				evs := vInflateEvents(vRunScenario(c))
				out.printf("scn %s ev=%s", c.id, strings.Join(evs, ";"))
			})
		case "inst":
			vGuard(out, c.kind, c.id, func() {
				st := &vListStorage{}
				in := NewNetworkInstrumenter(st, "Call x")
				var refused []string
				if ops := c.get("ops"); ops != "-" && ops != "" {
					for _, o := range strings.Split(ops, ",") {
						switch o[0] {
						case 'i':
							n, _ := strconv.ParseInt(o[1:], 10, 64)
							in.IncrementSize(n)
						case 'f':
							if in.Finish(context.Background()) != nil {
								refused = append(refused, "1")
							} else {
								refused = append(refused, "0")
							}
						case 'r':
							n, _ := strconv.ParseInt(o[1:], 10, 64)
							if in.RecordAndFinish(context.Background(), n) != nil {
								refused = append(refused, "1")
							} else {
								refused = append(refused, "0")
							}
						}
					}
				}
				var ps []string
				for _, p := range st.puts {
					ps = append(ps, strconv.FormatInt(p, 10))
				}
				out.printf("inst %s puts=%s refused=%s", c.id, strings.Join(ps, ","), strings.Join(refused, ","))
			})
		}
		out.flush()
	}
}
