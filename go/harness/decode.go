//go:build verif

package rpc

// White-box decode harness: newPacketizer over a chunking reader, NextFrame until a fatal error,
// outcomes printed in the canonical form the model prints.  Serves C02 (decode side), C04, C05.

import (
	"crypto/sha1"
	"errors"
	"fmt"
	"io"
	"net"
	"os"
	"runtime"
	"strconv"
	"strings"
	"sync/atomic"
	"testing"

	"github.com/keybase/go-codec/codec"
	"golang.org/x/net/context"
)

// chunkReader delivers a fixed byte stream in scripted read sizes, then ends with a scripted error.
type chunkReader struct {
	data      []byte
	pos       int
	chunks    []int // sizes; when exhausted: mode decides
	ci        int
	mode      string // "rest": one read for the remainder; "one": 1 byte per read
	endErr    error
	delivered int64
	maxAsk    int // largest len(p) the library ever passed (allocation pressure probe)
}

func (c *chunkReader) Read(p []byte) (int, error) {
	if len(p) > c.maxAsk {
		c.maxAsk = len(p)
	}
	if c.pos >= len(c.data) {
		return 0, c.endErr
	}
	n := len(c.data) - c.pos
	if c.ci < len(c.chunks) {
		if c.chunks[c.ci] < n {
			n = c.chunks[c.ci]
		}
		c.ci++
	} else if c.mode == "one" {
		n = 1
	}
	if n > len(p) {
		n = len(p)
	}
	if n == 0 {
		n = 1
	}
	copy(p, c.data[c.pos:c.pos+n])
	c.pos += n
	atomic.AddInt64(&c.delivered, int64(n))
	return n, nil
}

type vErrOther struct{}

func (vErrOther) Error() string { return "verif: injected read error" }

func vEndErr(s string) error {
	switch s {
	case "op":
		return &net.OpError{Op: "read", Net: "sim", Err: errors.New("use of closed network connection")}
	case "optimeout": // what a net.Conn returns when its read deadline expires
		return &net.OpError{Op: "read", Net: "sim", Err: os.ErrDeadlineExceeded}
	case "deadline": // net.Pipe's bare deadline error
		return os.ErrDeadlineExceeded
	case "other":
		return vErrOther{}
	default:
		return io.EOF
	}
}

// generic unwrapper: the error field is decoded as a plain value
type vUnwrapper struct{}
type vValueError struct{ v interface{} }

func (e vValueError) Error() string { return "verr:" + vPrint(e.v) }

func (vUnwrapper) MakeArg() interface{} { return new(interface{}) }
func (vUnwrapper) UnwrapError(arg interface{}) (error, error) {
	p := arg.(*interface{})
	if *p == nil {
		return nil, nil
	}
	return vValueError{*p}, nil
}

func vProtocols(spec string) *protocolHandler {
	h := newProtocolHandler(nil)
	if spec == "" || spec == "-" {
		return h
	}
	for _, ps := range strings.Split(spec, ";") {
		i := strings.IndexByte(ps, ':')
		name := string(vUnhex(ps[:i]))
		methods := map[string]ServeHandlerDescription{}
		if ps[i+1:] != "" {
			for _, m := range strings.Split(ps[i+1:], "+") {
				mk := func() interface{} { return new(interface{}) }
				if name == "ty" {
					// protocol "ty": handlers that take TYPED arguments, as real users of the package do
					mk = vTypedArg(string(vUnhex(m)))
				}
				methods[string(vUnhex(m))] = ServeHandlerDescription{
					MakeArg: mk,
					Handler: func(context.Context, interface{}) (interface{}, error) { return nil, nil },
				}
			}
		}
		_ = h.registerProtocol(Protocol{Name: name, Methods: methods})
	}
	return h
}

type vTypedStruct struct {
	A int
	B string
	C []byte
	D []int
}

// the argument type a method of protocol "ty" decodes into
func vTypedArg(method string) func() interface{} {
	switch method {
	case "raw":
		return func() interface{} { return new(codec.Raw) }
	case "st":
		return func() interface{} { return new(vTypedStruct) }
	case "sl":
		return func() interface{} { return new([]int) }
	case "str":
		return func() interface{} { return new(string) }
	case "i":
		return func() interface{} { return new(int64) }
	case "mp":
		return func() interface{} { return new(map[string]interface{}) }
	case "bs":
		return func() interface{} { return new([]byte) }
	}
	return func() interface{} { return new(interface{}) }
}

// pending=seq:ctype:hasres:unwrap,...
func vPending(spec string) (*callContainer, map[SeqNumber]*interface{}) {
	cc := newCallContainer()
	results := map[SeqNumber]*interface{}{}
	if spec == "" || spec == "-" {
		return cc, results
	}
	for _, cs := range strings.Split(spec, ",") {
		f := strings.Split(cs, ":")
		seq, _ := strconv.ParseInt(f[0], 10, 64)
		ct, _ := strconv.ParseInt(f[1], 10, 64)
		var res interface{}
		var rp *interface{}
		if f[2] == "1" {
			rp = new(interface{})
			res = rp
		}
		var u ErrorUnwrapper
		if f[3] == "1" {
			u = vUnwrapper{}
		}
		c := cc.NewCall(context.Background(), "pending.method", nil, res, CompressionType(ct), u,
			NewNetworkInstrumenter(NewDummyInstrumentationStorage(), "x"))
		c.seqid = SeqNumber(seq)
		cc.AddCall(c)
		results[SeqNumber(seq)] = rp
	}
	return cc, results
}

func vTagsOf(ctx context.Context) string {
	t, ok := TagsFromContext(ctx)
	if !ok {
		return "-"
	}
	return vPrint(t)
}

func vNFKind(err error) string {
	switch err.(type) {
	case ProtocolNotFoundError:
		return "protocol"
	case MethodNotFoundError:
		return "method"
	}
	return ""
}

// vOutcome prints what NextFrame returned in the model's vocabulary.
func vOutcome(msg rpcMessage, err error, results map[SeqNumber]*interface{}) string {
	if err != nil {
		switch e := err.(type) {
		case PacketizerError:
			if strings.Contains(e.msg, "wrong message structure prefix") {
				return "err:pkthdr"
			}
			return "err:pktlen"
		case DecodeError:
			inner := e.err
			switch ie := inner.(type) {
			case CallNotFoundError:
				return fmt.Sprintf("respnf(i:%d)", ie.seqno)
			case MethodNotFoundError, ProtocolNotFoundError:
				k := vNFKind(inner)
				switch m := msg.(type) {
				case *rpcCallMessage:
					return fmt.Sprintf("callnf(i:%d,%s,%s,f)", m.seqno, vPrint(m.name), k)
				case *rpcCallCompressedMessage:
					return fmt.Sprintf("callnf(i:%d,%s,%s,t)", m.seqno, vPrint(m.name), k)
				case *rpcNotifyMessage:
					return fmt.Sprintf("notifynf(%s,%s)", vPrint(m.name), k)
				}
				return "err:nf-without-message"
			}
			return "err:decode"
		}
		if err == io.EOF {
			return "err:eof"
		}
		if err == io.ErrUnexpectedEOF {
			return "err:ueof"
		}
		if _, ok := err.(vErrOther); ok {
			return "err:injected"
		}
		if _, ok := err.(*net.OpError); ok {
			return "err:op"
		}
		// go-codec wraps the reader's error into its own text
		if strings.Contains(err.Error(), "verif: injected read error") {
			return "err:injected"
		}
		if strings.Contains(err.Error(), "use of closed network connection") {
			return "err:op"
		}
		return "err:prefix"
	}
	switch m := msg.(type) {
	case *rpcCallMessage:
		return fmt.Sprintf("call(i:%d,%s,%s,%s)", m.seqno, vPrint(m.name), vPrint(m.arg), vTagsOf(m.Context()))
	case *rpcCallCompressedMessage:
		return fmt.Sprintf("callc(i:%d,i:%d,%s,%s,%s)", m.seqno, m.ctype, vPrint(m.name), vPrint(m.arg), vTagsOf(m.Context()))
	case *rpcNotifyMessage:
		return fmt.Sprintf("notify(%s,%s,%s)", vPrint(m.name), vPrint(m.arg), vTagsOf(m.Context()))
	case *rpcCancelMessage:
		return fmt.Sprintf("cancel(i:%d,%s)", m.seqno, vPrint(m.name))
	case *rpcResponseMessage:
		ev := "s:"
		if re := m.ResponseErr(); re != nil {
			if ve, ok := re.(vValueError); ok {
				ev = vPrint(ve.v)
			} else {
				ev = vPrint(re.Error())
			}
		} else if m.c != nil && m.c.errorUnwrapper != nil {
			ev = "n"
		}
		res := "n"
		if rp := results[m.c.seqid]; rp != nil {
			res = vPrint(*rp)
		}
		return fmt.Sprintf("resp(i:%d,%s,%s)", m.c.seqid, ev, res)
	case nil:
		return "err:nil-message"
	}
	return "err:unknown-message"
}

func vInts(s string) []int {
	if s == "" || s == "-" {
		return nil
	}
	var res []int
	for _, f := range strings.Split(s, ",") {
		n, _ := strconv.Atoi(f)
		res = append(res, n)
	}
	return res
}

type vNullLog struct{ LogInterface }

// vRunDecode runs the frame reader over one scripted stream.
// vErrTexts: the exact text of the error each NextFrame returned (hashed), for the chunking-independence predicate
var vErrTexts []string

func vRunDecode(c vCase) (outs []string, consumed []string, maxAsk int) {
	vErrTexts = nil
	max, _ := strconv.ParseInt(c.get("max"), 10, 32)
	if max == 0 {
		max = 1 << 20
	}
	cc, results := vPending(c.get("pending"))
	cr := &chunkReader{data: vUnhex(c.get("stream")), chunks: vInts(c.get("chunks")), mode: c.get("mode"), endErr: vEndErr(c.get("end"))}
	log := NewSimpleLogFactory(vQuietOutput{}, vQuietOpts{}).NewLog(nil)
	p := newPacketizer(int32(max), cr, vProtocols(c.get("protocols")), cc, log, NewDummyInstrumentationStorage())
	limit := 64
	for i := 0; i < limit; i++ {
		msg, err := p.NextFrame()
		o := vOutcome(msg, err, results)
		outs = append(outs, o)
		if err != nil {
			h := sha1.Sum([]byte(err.Error()))
			vErrTexts = append(vErrTexts, vHex(h[:6]))
		} else {
			vErrTexts = append(vErrTexts, "-")
		}
		consumed = append(consumed, strconv.FormatInt(atomic.LoadInt64(&cr.delivered)-int64(p.reader.reader.Buffered()), 10))
		// refresh the result slots so that a later response for the same seq starts clean
		if rm, ok := msg.(*rpcResponseMessage); ok && rm.c != nil && err == nil {
			if rp := results[rm.c.seqid]; rp != nil {
				*rp = nil
			}
		}
		if !shouldContinue(err) {
			break
		}
	}
	return outs, consumed, cr.maxAsk
}

type vQuietOutput struct{}

func (vQuietOutput) Error(string, ...interface{})                      {}
func (vQuietOutput) Warning(string, ...interface{})                    {}
func (vQuietOutput) Info(string, ...interface{})                       {}
func (vQuietOutput) Debug(string, ...interface{})                      {}
func (vQuietOutput) Profile(string, ...interface{})                    {}
func (o vQuietOutput) CloneWithAddedDepth(int) LogOutputWithDepthAdder { return o }

type vQuietOpts struct{}

func (vQuietOpts) ShowAddress() bool    { return false }
func (vQuietOpts) ShowArg() bool        { return false }
func (vQuietOpts) ShowResult() bool     { return false }
func (vQuietOpts) Profile() bool        { return false }
func (vQuietOpts) FrameTrace() bool     { return false }
func (vQuietOpts) ClientTrace() bool    { return false }
func (vQuietOpts) ServerTrace() bool    { return false }
func (vQuietOpts) TransportStart() bool { return false }

func vDecodeCases(t *testing.T) {
	cases := vReadCases(t)
	out := vOpenOut(t)
	defer out.close()
	for _, c := range cases {
		c := c
		if c.kind != "dec" {
			continue
		}
		vGuard(out, c.kind, c.id, func() {
			// bytes allocated while decoding this stream (cases run one after the other; the delta also counts the harness'
			// own small allocations)
			var m0, m1 runtime.MemStats
			runtime.ReadMemStats(&m0)
			outs, consumed, maxAsk := vRunDecode(c)
			runtime.ReadMemStats(&m1)
			out.printf("dec %s outs=%s consumed=%s maxask=%d alloc=%d inflated=%s errh=%s", c.id, strings.Join(outs, "|"), strings.Join(consumed, ","), maxAsk, m1.TotalAlloc-m0.TotalAlloc, vInflateStream(vUnhex(c.get("stream"))), strings.Join(vErrTexts, ","))
		})
	}
}

func TestVerifC04(t *testing.T) { vDecodeCases(t) }
