//go:build verif

package rpc

import (
	"strings"
	"sync"
	"testing"
)

func vDecGroups(s string) [][]string {
	if s == "" {
		return nil
	}
	var res [][]string
	for _, g := range strings.Split(s, ";") {
		var grp []string
		if g != "" {
			for _, a := range strings.Split(g, ",") {
				grp = append(grp, string(vUnhex(a)))
			}
		}
		res = append(res, grp)
	}
	return res
}

func TestVerifC18(t *testing.T) {
	cases := vReadCases(t)
	out := vOpenOut(t)
	defer out.close()
	for _, c := range cases {
		c := c
		vGuard(out, c.kind, c.id, func() { verifC18Case(c, out) })
	}
}

func verifC18Case(c vCase, out *vOut) {
	{
		switch c.kind {
		case "remote":
			gs := vDecGroups(c.get("groups"))
			// alias=i:j : group j is the very same slice as group i (the caller reuses one slice); twice=1 : the remote under
			// test is the SECOND one constructed from the caller's slices; the model sees the values the caller wrote
			if a := c.get("alias"); a != "" {
				f := strings.Split(a, ":")
				i, j := int(f[0][0]-'0'), int(f[1][0]-'0')
				if i < len(gs) && j < len(gs) {
					gs[j] = gs[i]
				}
			}
			if c.get("twice") == "1" {
				_, _ = NewPrioritizedRoundRobinRemote(gs)
			}
			r, err := NewPrioritizedRoundRobinRemote(gs)
			if err != nil {
				out.printf("remote %s res=err", c.id)
				return
			}
			if c.get("scribble") == "1" {
				// the caller goes on using its slices after construction
				for _, g := range gs {
					for k := range g {
						g[k] = "scribbled:1"
					}
				}
			}
			str := r.String()
			rt := "err"
			if r2, err := ParsePrioritizedRoundRobinRemote(str); err == nil {
				rt = vHex([]byte(r2.String()))
			}
			var outs []string
			for _, op := range c.get("ops") {
				switch op {
				case 'G':
					outs = append(outs, vHexS(r.GetAddress()))
				case 'P':
					outs = append(outs, vHexS(r.Peek()))
				default:
					r.Reset()
					outs = append(outs, "-")
				}
			}
			out.printf("remote %s res=ok str=%s rt=%s outs=%s", c.id, vHex([]byte(str)), rt, strings.Join(outs, ","))
		case "parse": // parse p<k> s=<hex>: the raw text a user writes, straight into the parser
			r, err := ParsePrioritizedRoundRobinRemote(string(vUnhex(c.get("s"))))
			if err != nil {
				out.printf("parse %s res=err", c.id)
				return
			}
			// what it hands out over one full rotation, and what it prints
			seen := map[string]int{}
			var outs []string
			first := r.GetAddress()
			outs = append(outs, vHexS(first))
			seen[first]++
			for i := 0; i < 64; i++ {
				if r.Peek() == first && len(outs) > 0 && i > 0 {
					break
				}
				a := r.GetAddress()
				if a == first {
					break
				}
				outs = append(outs, vHexS(a))
			}
			out.printf("parse %s res=ok str=%s outs=%s", c.id, vHex([]byte(r.String())), strings.Join(outs, ","))
		case "conc":
			r, err := NewPrioritizedRoundRobinRemote(vDecGroups(c.get("groups")))
			if err != nil {
				out.printf("conc %s res=err", c.id)
				return
			}
			total := 0
			for _, g := range r.(*prioritizedRoundRobinRemote).addresses {
				total += len(g)
			}
			var cycles, workers int
			for _, ch := range c.get("cycles") {
				cycles = cycles*10 + int(ch-'0')
			}
			for _, ch := range c.get("workers") {
				workers = workers*10 + int(ch-'0')
			}
			n := total * cycles
			var mu sync.Mutex
			var outs []string
			var wg sync.WaitGroup
			tickets := make(chan struct{}, n)
			for i := 0; i < n; i++ {
				tickets <- struct{}{}
			}
			close(tickets)
			for w := 0; w < workers; w++ {
				wg.Add(1)
				go func() {
					defer wg.Done()
					for range tickets {
						_ = r.Peek()
						a := r.GetAddress()
						mu.Lock()
						outs = append(outs, vHexS(a))
						mu.Unlock()
					}
				}()
			}
			wg.Wait()
			out.printf("conc %s res=ok outs=%s", c.id, strings.Join(outs, ","))
		case "uri":
			s := string(vUnhex(c.get("s")))
			u, err := ParseFMPURI(s)
			if err != nil {
				out.printf("uri %s ok=0", c.id)
				return
			}
			tls := "0"
			if u.UseTLS() {
				tls = "1"
			}
			str := u.String()
			line := "uri " + c.id + " ok=1 scheme=" + vHex([]byte(u.Scheme)) + " hostport=" + vHex([]byte(u.HostPort)) +
				" host=" + vHex([]byte(u.Host)) + " tls=" + tls + " str=" + vHex([]byte(str))
			if u2, err := ParseFMPURI(str); err == nil {
				line += " ok2=1 scheme2=" + vHex([]byte(u2.Scheme)) + " hostport2=" + vHex([]byte(u2.HostPort)) + " host2=" + vHex([]byte(u2.Host))
			} else {
				line += " ok2=0"
			}
			out.printf("%s", line)
		}
	}
}
