//go:build verif

package rpc

// Scenario engine: one transport under test on an in-memory connection whose far end is the harness itself.
// A script of operations is executed by a director; everything observable through objects a user of the
// library can supply (net.Conn, LogFactory, handlers, contexts, ErrorUnwrapper, SendNotifier,
// NetworkInstrumenterStorage) is recorded as an ordered event list.

import (
	"bytes"
	"compress/gzip"
	"errors"
	"fmt"
	"io"
	"net"
	"runtime"
	"sort"
	"strconv"
	"strings"
	"sync"
	"sync/atomic"
	"time"

	"github.com/keybase/go-codec/codec"
	"github.com/keybase/msgpackzip"
	"golang.org/x/net/context"
)

// ---------------------------------------------------------------- event log

type vEvents struct {
	mu   sync.Mutex
	list []string
	n    int64
}

func (e *vEvents) add(format string, a ...interface{}) {
	s := fmt.Sprintf(format, a...)
	e.mu.Lock()
	e.list = append(e.list, s)
	e.mu.Unlock()
	atomic.AddInt64(&e.n, 1)
}

func (e *vEvents) snapshot() []string {
	e.mu.Lock()
	defer e.mu.Unlock()
	return append([]string(nil), e.list...)
}

func (e *vEvents) count(prefix string) int {
	e.mu.Lock()
	defer e.mu.Unlock()
	c := 0
	for _, s := range e.list {
		if strings.HasPrefix(s, prefix) {
			c++
		}
	}
	return c
}

// ---------------------------------------------------------------- simulated connection

type simAddr struct{}

func (simAddr) Network() string { return "sim" }
func (simAddr) String() string  { return "sim" }

type simConn struct {
	ev   *vEvents
	mu   sync.Mutex
	cond *sync.Cond

	rq       [][]byte // queued pieces for Read
	rerr     error    // returned once rq is empty (nil = block)
	consumed int
	fed      int

	writes    [][]byte
	wstall    bool
	wallow    int // writes let through while stalled (stepw)
	wtemp     int // this many coming writes fail with a Temporary() error, 0 bytes taken
	wfail     error
	wfailAt   int // fail once this many bytes were written in total (-1 = never)
	wtotal    int
	closed    bool
	closeCnt  int
	inWrite   int
	onClose   func()
	closeHold chan struct{} // when non-nil Close() blocks on it after marking closed
}

func newSimConn(ev *vEvents) *simConn {
	c := &simConn{ev: ev, wfailAt: -1}
	c.cond = sync.NewCond(&c.mu)
	return c
}

func (c *simConn) feed(b []byte, sizes []int) {
	c.mu.Lock()
	pos := 0
	for _, n := range sizes {
		if pos >= len(b) {
			break
		}
		if n <= 0 || n > len(b)-pos {
			n = len(b) - pos
		}
		c.rq = append(c.rq, append([]byte(nil), b[pos:pos+n]...))
		pos += n
	}
	if pos < len(b) {
		c.rq = append(c.rq, append([]byte(nil), b[pos:]...))
	}
	c.fed += len(b)
	c.cond.Broadcast()
	c.mu.Unlock()
}

func (c *simConn) setReadErr(err error) {
	c.mu.Lock()
	c.rerr = err
	c.cond.Broadcast()
	c.mu.Unlock()
}

func (c *simConn) Read(p []byte) (int, error) {
	c.mu.Lock()
	defer c.mu.Unlock()
	for {
		if c.closed {
			return 0, &net.OpError{Op: "read", Net: "sim", Err: errors.New("use of closed network connection")}
		}
		if len(c.rq) > 0 {
			n := copy(p, c.rq[0])
			if n == len(c.rq[0]) {
				c.rq = c.rq[1:]
			} else {
				c.rq[0] = c.rq[0][n:]
			}
			c.consumed += n
			c.cond.Broadcast()
			return n, nil
		}
		if c.rerr != nil {
			return 0, c.rerr
		}
		c.cond.Wait()
	}
}

func (c *simConn) Write(p []byte) (int, error) {
	c.mu.Lock()
	defer c.mu.Unlock()
	c.inWrite++
	c.cond.Broadcast()
	defer func() { c.inWrite-- }()
	for c.wstall && c.wallow == 0 && !c.closed {
		c.cond.Wait()
	}
	if c.wstall && c.wallow > 0 {
		c.wallow--
	}
	if c.closed {
		return 0, &net.OpError{Op: "write", Net: "sim", Err: errors.New("use of closed network connection")}
	}
	if c.wtemp > 0 {
		// a write the connection refuses without taking a byte, with an error that calls itself temporary
		c.wtemp--
		c.ev.add("writefail/%s", vHex(p))
		return 0, vTempErr{}
	}
	if c.wfail != nil && c.wfailAt >= 0 && c.wtotal+len(p) > c.wfailAt {
		n := c.wfailAt - c.wtotal
		if n < 0 {
			n = 0
		}
		if n > 0 {
			c.writes = append(c.writes, append([]byte(nil), p[:n]...))
			c.ev.add("write/%s/partial", vHex(p[:n]))
		}
		c.wtotal += n
		c.wfailAt = c.wtotal
		c.ev.add("writefail/%s", vHex(p))
		return n, c.wfail
	}
	c.writes = append(c.writes, append([]byte(nil), p...))
	c.wtotal += len(p)
	c.ev.add("write/%s", vHex(p))
	c.cond.Broadcast()
	return len(p), nil
}

func (c *simConn) Close() error {
	c.mu.Lock()
	c.closeCnt++
	first := !c.closed
	c.closed = true
	hold := c.closeHold
	c.cond.Broadcast()
	c.mu.Unlock()
	if first {
		c.ev.add("connclose")
	}
	if hold != nil && first {
		<-hold
	}
	return nil
}

func (c *simConn) LocalAddr() net.Addr                { return simAddr{} }
func (c *simConn) RemoteAddr() net.Addr               { return simAddr{} }
func (c *simConn) SetDeadline(t time.Time) error      { return nil }
func (c *simConn) SetReadDeadline(t time.Time) error  { return nil }
func (c *simConn) SetWriteDeadline(t time.Time) error { return nil }

func (c *simConn) numWrites() int {
	c.mu.Lock()
	defer c.mu.Unlock()
	return len(c.writes)
}

func (c *simConn) allConsumed() bool {
	c.mu.Lock()
	defer c.mu.Unlock()
	return c.consumed == c.fed
}

// ---------------------------------------------------------------- hooked log

type vHooks struct {
	mu    sync.Mutex
	parks map[string]*vPark // hook name -> park plan
}

type vPark struct {
	nth     int // park at the nth occurrence (1-based); 0 = every
	seen    int
	gate    chan struct{}
	arrived chan struct{}
	once    sync.Once
}

func (h *vHooks) hit(name string) {
	h.mu.Lock()
	p := h.parks[name]
	var gate chan struct{}
	if p != nil {
		p.seen++
		if p.nth == 0 || p.seen == p.nth {
			gate = p.gate
			p.once.Do(func() { close(p.arrived) })
		}
	}
	h.mu.Unlock()
	if gate != nil {
		select {
		case <-gate:
		case <-time.After(10 * time.Second):
		}
	}
}

type vLog struct {
	ev *vEvents
	h  *vHooks
}

type vProfiler struct{}

func (vProfiler) Stop() {}

func (l *vLog) TransportStart() {}
func (l *vLog) TransportError(err error) {
	l.ev.add("log/TransportError/%s", vErrClass(err))
	l.h.hit("TransportError")
}
func (l *vLog) FrameRead(b []byte) { l.h.hit("FrameRead") }
func (l *vLog) ClientCall(q SeqNumber, m string, a interface{}) {
	l.ev.add("log/ClientCall/%d", q)
	l.h.hit("ClientCall")
}
func (l *vLog) ServerCall(q SeqNumber, m string, err error, a interface{}) {
	l.ev.add("log/ServerCall/%d/%s/%s", q, vHexS(m), vErrClass(err))
	l.h.hit("ServerCall")
}
func (l *vLog) ServerReply(q SeqNumber, m string, err error, r interface{}) {
	l.ev.add("log/ServerReply/%d", q)
	l.h.hit("ServerReply")
}
func (l *vLog) ClientCallCompressed(q SeqNumber, m string, a interface{}, c CompressionType) {
	l.ev.add("log/ClientCall/%d", q)
	l.h.hit("ClientCall")
}
func (l *vLog) ServerCallCompressed(q SeqNumber, m string, err error, a interface{}, c CompressionType) {
	l.ev.add("log/ServerCall/%d/%s/%s", q, vHexS(m), vErrClass(err))
	l.h.hit("ServerCall")
}
func (l *vLog) ServerReplyCompressed(q SeqNumber, m string, err error, r interface{}, c CompressionType) {
	l.ev.add("log/ServerReply/%d", q)
	l.h.hit("ServerReply")
}
func (l *vLog) ClientNotify(m string, a interface{}) {
	l.ev.add("log/ClientNotify/%s", vHexS(m))
	l.h.hit("ClientNotify")
}
func (l *vLog) ServerNotifyCall(m string, err error, a interface{}) {
	l.ev.add("log/ServerNotifyCall/%s/%s", vHexS(m), vErrClass(err))
	l.h.hit("ServerNotifyCall")
}
func (l *vLog) ServerNotifyComplete(m string, err error) {
	l.ev.add("log/ServerNotifyComplete/%s", vHexS(m))
	l.h.hit("ServerNotifyComplete")
}
func (l *vLog) ClientCancel(q SeqNumber, m string, err error) {
	l.ev.add("log/ClientCancel/%d", q)
	l.h.hit("ClientCancel")
}
func (l *vLog) ServerCancelCall(q SeqNumber, m string) {
	l.ev.add("log/ServerCancelCall/%d/%s", q, vHexS(m))
	l.h.hit("ServerCancelCall")
}
func (l *vLog) ClientReply(q SeqNumber, m string, err error, r interface{}) {
	l.ev.add("log/ClientReply/%d", q)
	l.h.hit("ClientReply")
}
func (l *vLog) StartProfiler(format string, args ...interface{}) Profiler {
	l.h.hit("StartProfiler")
	return vProfiler{}
}
func (l *vLog) UnexpectedReply(q SeqNumber) {
	l.ev.add("log/UnexpectedReply/%d", q)
	l.h.hit("UnexpectedReply")
}
func (l *vLog) Warning(format string, args ...interface{}) {}
func (l *vLog) Info(format string, args ...interface{})    {}

type vLogFactory struct{ l *vLog }

func (f vLogFactory) NewLog(net.Addr) LogInterface { return f.l }

// error classes shared with the model
func vErrClass(err error) string {
	if err == nil {
		return "nil"
	}
	switch e := err.(type) {
	case PacketizerError:
		return "packetizer"
	case DecodeError:
		switch e.err.(type) {
		case CallNotFoundError:
			return "call-not-found"
		case MethodNotFoundError:
			return "method-not-found"
		case ProtocolNotFoundError:
			return "protocol-not-found"
		}
		return "decode"
	case CallNotFoundError:
		return "call-not-found"
	case MethodNotFoundError:
		return "method-not-found"
	case ProtocolNotFoundError:
		return "protocol-not-found"
	case vValueError:
		return "app:" + vPrint(e.v)
	case vErrOther:
		return "injected"
	case *net.OpError:
		return "op"
	}
	switch err {
	case io.EOF:
		return "eof"
	case io.ErrUnexpectedEOF:
		return "ueof"
	case context.Canceled:
		return "ctx-canceled"
	case context.DeadlineExceeded:
		return "ctx-deadline"
	}
	msg := err.Error()
	if strings.Contains(msg, "verif: injected read error") {
		return "injected"
	}
	if strings.Contains(msg, "use of closed network connection") {
		return "op"
	}
	if strings.HasPrefix(msg, "msgpack decode error") || strings.Contains(msg, "int64 overflow") || strings.Contains(msg, "overflow") {
		return "codec"
	}
	if strings.HasPrefix(msg, "frame length too big") {
		return "too-big"
	}
	if msg == "verif: injected write error" || msg == "verif: injected temporary write error" {
		return "write-injected"
	}
	return "app:" + vPrint(msg)
}

type vWriteErr struct{}

// vTempErr: a net.Error that calls itself temporary (EAGAIN-like)
type vTempErr struct{}

func (vTempErr) Error() string   { return "verif: injected temporary write error" }
func (vTempErr) Temporary() bool { return true }
func (vTempErr) Timeout() bool   { return false }

func (vWriteErr) Error() string { return "verif: injected write error" }

// ---------------------------------------------------------------- instrumentation storage

type vRecStorage struct {
	ev *vEvents
}

func (s *vRecStorage) Put(ctx context.Context, tag string, r InstrumentationRecord) error {
	s.ev.add("record/%s/%d", vHexS(tag), r.Size)
	return nil
}

// ---------------------------------------------------------------- the engine

type vCallState struct {
	id     string
	cancel context.CancelFunc
	done   chan struct{}
	res    *interface{}
	snap   string        // result buffer at return
	print  func() string // how to print the result buffer now (typed results); nil = vPrint(*res)
}

type vHandlerState struct {
	id      int
	release chan [2]string // res text, err text ("-" = nil)
	ctx     context.Context
	done    chan struct{}
}

type vEngine struct {
	lastInner context.Context // the caller's own context built by the last ctxFor (before the spying wrapper)
	ev        *vEvents
	conn      *simConn
	hooks     *vHooks
	xp        Transporter
	tr        *transport
	cli       *Client
	srv       *Server
	calls     map[string]*vCallState
	hmu       sync.Mutex
	handlers  []*vHandlerState
	timeouts  int
	tagKeys   map[interface{}]string
	tornDown  int32
	baseG     int // goroutines of the library alive before this engine existed (leaked by earlier cases)
	baseDump  map[string]int
	session   context.Context // when set, every call's context is derived from this one (a context that already carries tags)
}

type vCtxKey string

func newEngine(c vCase) *vEngine {
	e := &vEngine{ev: &vEvents{}, hooks: &vHooks{parks: map[string]*vPark{}}, calls: map[string]*vCallState{}}
	e.baseG = vLibGoroutines()
	e.baseDump = vLibGoroutineSigs()
	e.conn = newSimConn(e.ev)
	max, _ := strconv.ParseInt(c.get("max"), 10, 32)
	if max == 0 {
		max = 1 << 20
	}
	var wef WrapErrorFunc
	if c.get("wef") == "1" {
		wef = func(err error) interface{} {
			if err == nil {
				return nil
			}
			if ve, ok := err.(vValueError); ok {
				return ve.v
			}
			return err.Error()
		}
	}
	log := &vLog{ev: e.ev, h: e.hooks}
	e.xp = NewTransport(e.conn, vLogFactory{log}, &vRecStorage{e.ev}, wef, int32(max))
	e.tr = e.xp.(*transport)
	var u ErrorUnwrapper
	if c.get("unwrap") != "0" {
		u = vHookUnwrapper{e.hooks}
	}
	var tf LogTagsFromContext
	if spec := c.get("tagkeys"); spec != "" && spec != "-" {
		// tagkeys=<ctxkey>:<tagname>,...  (hex)
		e.tagKeys = map[interface{}]string{}
		for _, kvs := range strings.Split(spec, ",") {
			f := strings.Split(kvs, ":")
			e.tagKeys[vCtxKey(vUnhex(f[0]))] = string(vUnhex(f[1]))
		}
		tf = func(ctx context.Context) (map[interface{}]string, bool) { return e.tagKeys, true }
	}
	sn := func(q SeqNumber) { e.ev.add("sn/%d", q); e.hooks.hit("SendNotifier") }
	e.cli = NewClientWithSendNotifier(e.xp, u, tf, sn)
	e.srv = NewServer(e.xp, wef)
	if spec := c.get("protocols"); spec != "" && spec != "-" {
		for _, ps := range strings.Split(spec, ";") {
			e.registerSpec(ps)
		}
	}
	return e
}

// registerSpec registers one protocol, <name hex>:<method hex>+<method hex>...
func (e *vEngine) registerSpec(ps string) {
	i := strings.IndexByte(ps, ':')
	name := string(vUnhex(ps[:i]))
	methods := map[string]ServeHandlerDescription{}
	if ps[i+1:] != "" {
		for _, m := range strings.Split(ps[i+1:], "+") {
			mname := string(vUnhex(m))
			full := makeMethodName(name, mname)
			methods[mname] = ServeHandlerDescription{
				MakeArg: func() interface{} { e.hooks.hit("MakeArg"); return new(interface{}) },
				Handler: func(ctx context.Context, arg interface{}) (interface{}, error) { return e.handle(ctx, full, arg) },
			}
		}
	}
	if err := e.srv.Register(Protocol{Name: name, Methods: methods}); err != nil {
		e.ev.add("register-error/%s", vHexS(name))
	} else {
		e.ev.add("registered/%s", ps)
	}
}

func (e *vEngine) handle(ctx context.Context, method string, arg interface{}) (interface{}, error) {
	e.hmu.Lock()
	h := &vHandlerState{id: len(e.handlers), release: make(chan [2]string, 1), ctx: ctx, done: make(chan struct{})}
	e.handlers = append(e.handlers, h)
	e.hmu.Unlock()
	e.ev.add("hstart/%d/%s/%s/%s", h.id, vHexS(method), vPrint(arg), vTagsOf(ctx))
	go func() {
		select {
		case <-ctx.Done():
			e.ev.add("hctx/%d", h.id)
		case <-h.done:
		}
	}()
	r := <-h.release
	if r[0] == "!close" {
		// Close the transport from inside the handler, then wait for the script to release us again
		e.ev.add("close-begin")
		e.xp.Close()
		e.ev.add("close-end")
		r = <-h.release
	}
	close(h.done)
	e.ev.add("hret/%d", h.id)
	var res interface{}
	if r[0] != "-" {
		res = vParse(r[0])
	}
	var err error
	switch r[1] {
	case "-":
	case "!canceled": // application errors that happen to BE well-known sentinels: the handler's own business, still an answer
		err = context.Canceled
	case "!deadline":
		err = context.DeadlineExceeded
	case "!eof":
		err = io.EOF
	default:
		err = vValueError{vParse(r[1])}
	}
	return res, err
}

func (e *vEngine) handler(i int) *vHandlerState {
	e.hmu.Lock()
	defer e.hmu.Unlock()
	if i < len(e.handlers) {
		return e.handlers[i]
	}
	return nil
}

func (e *vEngine) numHandlers() int {
	e.hmu.Lock()
	defer e.hmu.Unlock()
	return len(e.handlers)
}

// waitFor polls a condition driven by library progress; on timeout the event is recorded
func (e *vEngine) waitFor(what string, cond func() bool) bool {
	deadline := time.Now().Add(5 * time.Second)
	for i := 0; ; i++ {
		if cond() {
			return true
		}
		if time.Now().After(deadline) {
			e.timeouts++
			e.ev.add("timeout/%s", what)
			return false
		}
		if i < 200 {
			runtime.Gosched()
		} else {
			time.Sleep(50 * time.Microsecond)
		}
	}
}

// settle: the event counter and the connection queues are stable for a short while
func (e *vEngine) settle() {
	last := atomic.LoadInt64(&e.ev.n)
	stable := 0
	for i := 0; i < 20000 && stable < 40; i++ {
		runtime.Gosched()
		if i%8 == 7 {
			time.Sleep(20 * time.Microsecond)
		}
		n := atomic.LoadInt64(&e.ev.n)
		if n == last && (e.conn.allConsumed() || !e.xp.IsConnected()) {
			stable++
		} else {
			stable = 0
			last = n
		}
	}
}

func (e *vEngine) ctxFor(spec string) (context.Context, context.CancelFunc) {
	// spec: tags text or "-" ; context values for tagkeys are attached as key=value pairs "k:v" after '~'
	ctx := context.Background()
	if e.session != nil {
		ctx = e.session
	}
	parts := strings.SplitN(spec, "~", 3)
	if len(parts) >= 2 && parts[1] != "" {
		for _, kvs := range strings.Split(parts[1], "+") {
			f := strings.SplitN(kvs, ":", 2)
			ctx = context.WithValue(ctx, vCtxKey(vUnhex(f[0])), vParse(f[1]))
		}
	}
	if t := vTags(parts[0]); t != nil {
		ctx = AddRPCTagsToContext(ctx, t)
	}
	if len(parts) == 3 && parts[2] == "fn" {
		// the caller marks the context "fire now" (as a Connection user does) after attaching its tags
		ctx = WithFireNow(ctx)
	}
	// the caller's context is the caller's: reading its tags is a point at which a script can hold the calling goroutine
	// (hook "CtxTags"), like the log and unwrapper callbacks
	e.lastInner = ctx
	return context.WithCancel(&vEngSpyCtx{Context: ctx, h: e.hooks})
}

type vEngSpyCtx struct {
	context.Context
	h *vHooks
}

func (c *vEngSpyCtx) Value(key interface{}) interface{} {
	if k, ok := key.(CtxRPCKey); ok && k == CtxRPCTagsKey {
		c.h.hit("CtxTags")
	}
	return c.Context.Value(key)
}

func (e *vEngine) op(f []string) {
	switch f[0] {
	case "call": // call/<cid>/<meth hex>/<arg>/<ctype>/<tagspec>/<timeout ms>
		cs := &vCallState{id: f[1], done: make(chan struct{}), res: new(interface{})}
		ctx, cancel := e.ctxFor(f[5])
		inner, tagsBefore := e.lastInner, vTagsOf(e.lastInner)
		cs.cancel = cancel
		e.calls[f[1]] = cs
		ct, _ := strconv.Atoi(f[4])
		to, _ := strconv.Atoi(f[6])
		meth := string(vUnhex(f[2]))
		arg := vParse(f[3])
		before := e.conn.numWrites()
		e.ev.add("callstart/%s", f[1])
		go func() {
			var err error
			if ct == 0 {
				err = e.cli.Call(ctx, meth, arg, cs.res, time.Duration(to)*time.Millisecond)
			} else {
				err = e.cli.CallCompressed(ctx, meth, arg, cs.res, CompressionType(ct), time.Duration(to)*time.Millisecond)
			}
			cs.snap = vPrint(*cs.res)
			// the caller's own context must show the same tags after the call as before it (contexts are never mutated)
			e.ev.add("ctxtags/%s/%s/%s", f[1], tagsBefore, vTagsOf(inner))
			e.ev.add("ret/%s/%s/%s", f[1], vErrClass(err), cs.snap)
			close(cs.done)
		}()
		if len(f) > 7 && f[7] == "nowait" {
			return
		}
		e.waitFor("call-written-or-returned", func() bool {
			select {
			case <-cs.done:
				return true
			default:
			}
			return e.conn.numWrites() > before && e.ev.count("log/ClientCall/") > 0
		})
	case "calltyped": // calltyped/<cid>/<meth hex>/<arg>: the result is decoded into a struct {A int; B int}
		cs := &vCallState{id: f[1], done: make(chan struct{}), res: new(interface{})}
		ctx, cancel := e.ctxFor("-")
		cs.cancel = cancel
		e.calls[f[1]] = cs
		meth := string(vUnhex(f[2]))
		arg := vParse(f[3])
		before := e.conn.numWrites()
		e.ev.add("callstart/%s", f[1])
		go func() {
			var typed struct {
				A int
				B int
			}
			err := e.cli.Call(ctx, meth, arg, &typed, 0)
			*cs.res = []interface{}{int64(typed.A), int64(typed.B)}
			cs.snap = vPrint(*cs.res)
			e.ev.add("ret/%s/%s/%s", f[1], vErrClass(err), cs.snap)
			close(cs.done)
		}()
		e.waitFor("call-written-or-returned", func() bool {
			select {
			case <-cs.done:
				return true
			default:
			}
			return e.conn.numWrites() > before
		})
	case "callslice": // callslice/<cid>/<meth hex>/<arg>: the result is decoded into a []string the caller goes on holding
		cs := &vCallState{id: f[1], done: make(chan struct{}), res: new(interface{})}
		ctx, cancel := e.ctxFor("-")
		cs.cancel = cancel
		e.calls[f[1]] = cs
		meth := string(vUnhex(f[2]))
		arg := vParse(f[3])
		before := e.conn.numWrites()
		var list []string
		cs.print = func() string {
			var l []interface{}
			for _, x := range list {
				l = append(l, x)
			}
			return vPrint(l)
		}
		e.ev.add("callstart/%s", f[1])
		go func() {
			err := e.cli.Call(ctx, meth, arg, &list, 0)
			cs.snap = cs.print()
			e.ev.add("ret/%s/%s/%s", f[1], vErrClass(err), cs.snap)
			close(cs.done)
		}()
		e.waitFor("call-written-or-returned", func() bool {
			select {
			case <-cs.done:
				return true
			default:
			}
			return e.conn.numWrites() > before
		})
	case "notify": // notify/<cid>/<meth>/<arg>/<tagspec>/<timeout ms>
		cs := &vCallState{id: f[1], done: make(chan struct{})}
		ctx, cancel := e.ctxFor(f[4])
		inner, tagsBefore := e.lastInner, vTagsOf(e.lastInner)
		cs.cancel = cancel
		e.calls[f[1]] = cs
		to, _ := strconv.Atoi(f[5])
		meth := string(vUnhex(f[2]))
		arg := vParse(f[3])
		e.ev.add("callstart/%s", f[1])
		go func() {
			err := e.cli.Notify(ctx, meth, arg, time.Duration(to)*time.Millisecond)
			e.ev.add("ctxtags/%s/%s/%s", f[1], tagsBefore, vTagsOf(inner))
			e.ev.add("ret/%s/%s/n", f[1], vErrClass(err))
			close(cs.done)
		}()
		if len(f) > 6 && f[6] == "nowait" {
			return
		}
		e.waitFor("notify-returned", func() bool {
			select {
			case <-cs.done:
				return true
			default:
				return false
			}
		})
	case "cancel": // cancel/<cid>
		if cs := e.calls[f[1]]; cs != nil {
			e.ev.add("cancel/%s", f[1])
			cs.cancel()
			if len(f) > 2 && f[2] == "nowait" {
				return
			}
			e.waitFor("cancel-returned/"+f[1], func() bool {
				select {
				case <-cs.done:
					return true
				default:
					return false
				}
			})
		}
	case "await": // await/<cid>
		if cs := e.calls[f[1]]; cs != nil {
			e.waitFor("await/"+f[1], func() bool {
				select {
				case <-cs.done:
					return true
				default:
					return false
				}
			})
		}
	case "run":
		e.srv.Run()
	case "feed": // feed/<hex>[/<chunk sizes>]
		var sizes []int
		if len(f) > 2 {
			sizes = vInts(f[2])
		}
		e.ev.add("feed/%s", f[1])
		e.conn.feed(vUnhex(f[1]), sizes)
		e.srv.Run()
		e.waitFor("feed-consumed", func() bool { return e.conn.allConsumed() || !e.xp.IsConnected() })
	case "feedcallc": // feedcallc/<seq>/<ctype>/<meth hex>/<arg>[/<tags>]: a compressed call from the peer
		seq, _ := strconv.ParseInt(f[1], 10, 64)
		ct, _ := strconv.Atoi(f[2])
		h := &codec.MsgpackHandle{WriteExt: true, RawToString: true}
		var v interface{} = vParse(f[4])
		if ct == 1 || ct == 2 {
			var plain []byte
			_ = codec.NewEncoderBytes(&plain, h).Encode(v)
			if ct == 1 {
				var buf bytes.Buffer
				zw := gzip.NewWriter(&buf)
				_, _ = zw.Write(plain)
				_ = zw.Close()
				v = buf.Bytes()
			} else if z, err := msgpackzip.Compress(plain); err == nil {
				v = z
			}
		}
		els := []interface{}{4, seq, ct, string(vUnhex(f[3])), v}
		if len(f) > 5 && f[5] != "-" {
			els = append(els, map[string]interface{}(vTags(f[5])))
		}
		var content, prefix []byte
		_ = codec.NewEncoderBytes(&content, h).Encode(els)
		_ = codec.NewEncoderBytes(&prefix, h).Encode(len(content))
		b := append(prefix, content...)
		e.ev.add("feed/%s", vHex(b))
		e.conn.feed(b, nil)
		e.srv.Run()
		e.waitFor("feed-consumed", func() bool { return e.conn.allConsumed() || !e.xp.IsConnected() })
	case "feednowait": // feednowait/<hex>
		e.ev.add("feed/%s", f[1])
		e.conn.feed(vUnhex(f[1]), nil)
		e.srv.Run()
	case "waitwrites": // waitwrites/<n>
		n, _ := strconv.Atoi(f[1])
		e.waitFor("writes>="+f[1], func() bool { return e.conn.numWrites() >= n })
	case "waithandlers":
		n, _ := strconv.Atoi(f[1])
		e.waitFor("handlers>="+f[1], func() bool { return e.numHandlers() >= n })
	case "waitev": // waitev/<prefix with / replaced by ~>/<count>
		p := strings.ReplaceAll(f[1], "~", "/")
		n, _ := strconv.Atoi(f[2])
		e.waitFor("ev:"+f[1], func() bool { return e.ev.count(p) >= n })
	case "waitdone":
		e.waitFor("done", func() bool {
			select {
			case <-e.srv.Done():
				return true
			default:
				return false
			}
		})
	case "finish": // finish/<hid>/<res|->/<err|->
		i, _ := strconv.Atoi(f[1])
		e.waitFor("handler-exists/"+f[1], func() bool { return e.handler(i) != nil })
		if h := e.handler(i); h != nil {
			select {
			case h.release <- [2]string{f[2], f[3]}:
			default:
			}
			if len(f) > 4 && f[4] == "nowait" {
				return
			}
			e.waitFor("hret/"+f[1], func() bool { return e.ev.count("hret/"+f[1]) > 0 })
		}
	case "finishall": // release every handler that exists and has not been released yet
		e.hmu.Lock()
		hs := append([]*vHandlerState(nil), e.handlers...)
		e.hmu.Unlock()
		for _, h := range hs {
			select {
			case h.release <- [2]string{"-", "-"}:
			default:
			}
		}
		e.waitFor("all-handlers-returned", func() bool { return e.ev.count("hret/") >= len(hs) })
	case "register": // register/<name hex>:<method hex>+...  : a protocol registered while the transport is already running
		e.registerSpec(f[1])
	case "close":
		e.ev.add("close-begin")
		done := make(chan struct{})
		go func() { e.xp.Close(); close(done) }()
		if len(f) > 1 && f[1] == "nowait" {
			return
		}
		e.waitFor("close-returns", func() bool {
			select {
			case <-done:
				return true
			default:
				return false
			}
		})
		e.ev.add("close-end")
	case "readerr": // readerr/<eof|op|other>
		e.ev.add("readerr/%s", f[1])
		e.conn.setReadErr(vEndErr(f[1]))
		e.srv.Run()
	case "writefail": // writefail/<after total bytes>
		n, _ := strconv.Atoi(f[1])
		e.conn.mu.Lock()
		e.conn.wfail = vWriteErr{}
		e.conn.wfailAt = e.conn.wtotal + n
		e.conn.mu.Unlock()
	case "writetemp": // writetemp/<n>: the next n writes are refused whole with a temporary error
		n, _ := strconv.Atoi(f[1])
		e.conn.mu.Lock()
		e.conn.wtemp = n
		e.conn.mu.Unlock()
	case "writeok":
		e.conn.mu.Lock()
		e.conn.wfail = nil
		e.conn.wfailAt = -1
		e.conn.mu.Unlock()
	case "stallw":
		e.conn.mu.Lock()
		e.conn.wstall = f[1] == "on"
		e.conn.cond.Broadcast()
		e.conn.mu.Unlock()
	case "stepw": // stepw/<n>: let n writes through while the connection stays stalled
		n, _ := strconv.Atoi(f[1])
		e.conn.mu.Lock()
		before := len(e.conn.writes)
		e.conn.wallow += n
		e.conn.cond.Broadcast()
		e.conn.mu.Unlock()
		e.waitFor("stepw", func() bool {
			e.conn.mu.Lock()
			defer e.conn.mu.Unlock()
			return len(e.conn.writes) >= before+n || e.conn.wallow == 0
		})
	case "session": // session/<tagspec>: calls made from now on derive their context from one that carries these tags
		if t := vTags(f[1]); t != nil {
			e.session = AddRPCTagsToContext(context.Background(), t)
		}
	case "waitinwrite":
		e.waitFor("inwrite", func() bool {
			e.conn.mu.Lock()
			defer e.conn.mu.Unlock()
			return e.conn.inWrite > 0
		})
	case "park": // park/<hook>/<nth>
		n, _ := strconv.Atoi(f[2])
		e.hooks.mu.Lock()
		e.hooks.parks[f[1]] = &vPark{nth: n, gate: make(chan struct{}), arrived: make(chan struct{})}
		e.hooks.mu.Unlock()
	case "waitpark": // waitpark/<hook>
		e.hooks.mu.Lock()
		p := e.hooks.parks[f[1]]
		e.hooks.mu.Unlock()
		if p != nil {
			e.waitFor("parked/"+f[1], func() bool {
				select {
				case <-p.arrived:
					return true
				default:
					return false
				}
			})
		}
	case "release": // release/<hook>
		e.hooks.mu.Lock()
		p := e.hooks.parks[f[1]]
		delete(e.hooks.parks, f[1])
		e.hooks.mu.Unlock()
		if p != nil {
			close(p.gate)
		}
	case "settle":
		e.settle()
		e.ev.add("settled")
	case "sample": // sample/<tag>
		e.settle()
		e.ev.add("sample/%s/%s", f[1], e.sample())
		if b := e.bufs(); b != "" {
			e.ev.add("bufs/%s", b)
		}
		if !e.xp.IsConnected() {
			if d := e.dumpDelta(); d != "" {
				e.ev.add("dump/%s", strings.ReplaceAll(strings.ReplaceAll(strings.ReplaceAll(d, "/", "|"), ";", ","), " ", "_"))
			}
		}
	case "replyto": // replyto/<nonce>: the peer answers our call c<nonce> (its seqno is taken from the write log)
		want := f[1]
		var seq int64 = -1
		e.waitFor("call-frame-on-wire/"+want, func() bool {
			e.conn.mu.Lock()
			ws := append([][]byte(nil), e.conn.writes...)
			e.conn.mu.Unlock()
			for _, w := range ws {
				if q, nn, ok := vCallFrameSeq(w); ok && nn == want {
					seq = q
					return true
				}
			}
			return false
		})
		if seq >= 0 {
			res := "-"
			if len(f) > 2 {
				res = f[2]
			}
			ct := 0
			if len(f) > 3 {
				ct, _ = strconv.Atoi(f[3])
			}
			e.feedResponseC(seq, want, res, ct)
		}
	case "replytonowait": // like replyto but only if the call frame is already on the wire
		e.conn.mu.Lock()
		ws := append([][]byte(nil), e.conn.writes...)
		e.conn.mu.Unlock()
		for _, w := range ws {
			if q, nn, ok := vCallFrameSeq(w); ok && nn == f[1] {
				e.feedResponse(q, f[1], "-")
				break
			}
		}
	case "closefromhandler": // the first running handler calls Close on the transport it is served by
		e.hmu.Lock()
		hs := append([]*vHandlerState(nil), e.handlers...)
		e.hmu.Unlock()
		if len(hs) == 0 {
			e.ev.add("close-begin")
			go e.xp.Close()
		} else {
			select {
			case hs[0].release <- [2]string{"!close", "-"}:
			default:
			}
		}
	case "closewait": // a Close issued now must return (also when others are in progress)
		done := make(chan struct{})
		go func() { e.xp.Close(); close(done) }()
		e.waitFor("close-returns", func() bool {
			select {
			case <-done:
				return true
			default:
				return false
			}
		})
	case "holdclose":
		e.conn.mu.Lock()
		e.conn.closeHold = make(chan struct{})
		e.conn.mu.Unlock()
	case "releaseclose":
		e.conn.mu.Lock()
		h := e.conn.closeHold
		e.conn.closeHold = nil
		e.conn.mu.Unlock()
		if h != nil {
			close(h)
		}
	case "observe": // observe/<tag>: the three lifecycle accessors, no settling
		e.ev.add("observe/%s/%s", f[1], e.observe())
	case "watch": // watch/on: three goroutines poll the accessors until teardown
		for i := 0; i < 3; i++ {
			go func() {
				var first error
				for !e.torn() {
					select {
					case <-e.srv.Done():
						err := e.srv.Err()
						if err == nil || e.xp.IsConnected() {
							e.ev.add("watch-violation/done-closed-but-err=%s-connected=%v", vErrClass(err), e.xp.IsConnected())
							return
						}
						if first == nil {
							first = err
						} else if vErrClass(first) != vErrClass(err) {
							e.ev.add("watch-violation/err-changed-%s-%s", vErrClass(first), vErrClass(err))
							return
						}
					default:
						if e.srv.Err() != nil {
							// may legitimately race with the close; re-check
							select {
							case <-e.srv.Done():
							default:
								e.ev.add("watch-violation/err-before-done")
								return
							}
						}
					}
					runtime.Gosched()
				}
			}()
		}
	case "setseq": // white-box: next seqno
		n, _ := strconv.ParseInt(f[1], 10, 64)
		e.tr.calls.seqMtx.Lock()
		e.tr.calls.seqid = SeqNumber(n)
		e.tr.calls.seqMtx.Unlock()
	case "sleep":
		n, _ := strconv.Atoi(f[1])
		time.Sleep(time.Duration(n) * time.Millisecond)
	}
}

// the unwrapper of the engine's client: generic error values, with park points inside reply decoding
// (after the pending call was looked up, before the result is decoded)
type vHookUnwrapper struct{ h *vHooks }

func (u vHookUnwrapper) MakeArg() interface{} { u.h.hit("UnwrapMakeArg"); return new(interface{}) }
func (u vHookUnwrapper) UnwrapError(arg interface{}) (error, error) {
	u.h.hit("UnwrapError")
	return vUnwrapper{}.UnwrapError(arg)
}

// bufs: for every returned call, does its result buffer still print as it did when the call returned?
func (e *vEngine) bufs() string {
	var parts []string
	ids := make([]string, 0, len(e.calls))
	for id := range e.calls {
		ids = append(ids, id)
	}
	sort.Strings(ids)
	for _, id := range ids {
		cs := e.calls[id]
		if cs.res == nil {
			continue
		}
		select {
		case <-cs.done:
			same := "1"
			now := ""
			if cs.print != nil {
				now = cs.print()
			} else {
				now = vPrint(*cs.res)
			}
			if now != cs.snap {
				same = "0"
			}
			parts = append(parts, id+"="+same)
		default:
		}
	}
	return strings.Join(parts, ",")
}

func (e *vEngine) torn() bool { return atomic.LoadInt32(&e.tornDown) != 0 }

func (e *vEngine) observe() string {
	done := "0"
	select {
	case <-e.srv.Done():
		done = "1"
	default:
	}
	err := vErrClass(e.srv.Err())
	conn := "0"
	if e.xp.IsConnected() {
		conn = "1"
	}
	return fmt.Sprintf("done=%s,connected=%s,err=%s", done, conn, err)
}

func (e *vEngine) sample() string {
	done := "0"
	select {
	case <-e.srv.Done():
		done = "1"
	default:
	}
	conn := "0"
	if e.xp.IsConnected() {
		conn = "1"
	}
	e.tr.calls.callsMtx.RLock()
	pending := len(e.tr.calls.calls)
	e.tr.calls.callsMtx.RUnlock()
	var hs []string
	e.hmu.Lock()
	for _, h := range e.handlers {
		st := "live"
		select {
		case <-h.ctx.Done():
			st = "cancelled"
		default:
		}
		select {
		case <-h.done:
			st += "+returned"
		default:
		}
		hs = append(hs, fmt.Sprintf("%d=%s", h.id, st))
	}
	e.hmu.Unlock()
	return fmt.Sprintf("done=%s,connected=%s,err=%s,pending=%d,goroutines=%d,handlers=%s", done, conn, vErrClass(e.srv.Err()), pending, vLibGoroutines()-e.baseG, strings.Join(hs, "+"))
}

// goroutines whose stack contains a frame of the library package (other than the harness itself)
func vLibGoroutines() int {
	buf := make([]byte, 1<<20)
	n := runtime.Stack(buf, true)
	cnt := 0
	for _, g := range strings.Split(string(buf[:n]), "\n\n") {
		lib := false
		for _, line := range strings.Split(g, "\n") {
			if strings.Contains(line, "go-framed-msgpack-rpc/rpc.") && !strings.Contains(line, "rpc.v") && !strings.Contains(line, "rpc.(*v") &&
				!strings.Contains(line, "rpc.TestVerif") && !strings.Contains(line, "rpc.newEngine") && !strings.Contains(line, "rpc.(*simConn)") {
				lib = true
			}
		}
		if lib {
			cnt++
		}
	}
	return cnt
}

// signatures (innermost library frames) of the library's goroutines, with multiplicities
func vLibGoroutineSigs() map[string]int {
	buf := make([]byte, 4<<20)
	n := runtime.Stack(buf, true)
	res := map[string]int{}
	for _, g := range strings.Split(string(buf[:n]), "\n\n") {
		lib := false
		var fn []string
		for _, l := range strings.Split(g, "\n") {
			if strings.Contains(l, "go-framed-msgpack-rpc/rpc.") && !strings.HasPrefix(l, "\t") && !strings.HasPrefix(l, "created by") {
				name := strings.TrimSpace(strings.SplitN(l, "(0x", 2)[0])
				name = name[strings.LastIndex(name, "/")+1:]
				if strings.HasPrefix(name, "rpc.v") || strings.HasPrefix(name, "rpc.(*v") || strings.HasPrefix(name, "rpc.TestVerif") ||
					strings.HasPrefix(name, "rpc.newEngine") || strings.HasPrefix(name, "rpc.(*simConn)") {
					continue
				}
				lib = true
				if len(fn) < 2 {
					fn = append(fn, strings.TrimSuffix(name, "(...)"))
				}
			}
		}
		if lib {
			res[strings.Join(fn, "<")]++
		}
	}
	return res
}

func (e *vEngine) dumpDelta() string {
	now := vLibGoroutineSigs()
	var res []string
	for k, n := range now {
		if d := n - e.baseDump[k]; d > 0 {
			res = append(res, fmt.Sprintf("%dx%s", d, k))
		}
	}
	sort.Strings(res)
	return strings.Join(res, "+")
}

func (e *vEngine) runScript(script string) {
	for _, op := range strings.Split(script, ";") {
		if op == "" {
			continue
		}
		e.op(strings.Split(op, "/"))
	}
}

// teardown: release everything so that nothing leaks into the next case
func (e *vEngine) teardown() {
	atomic.StoreInt32(&e.tornDown, 1)
	e.hooks.mu.Lock()
	for k, p := range e.hooks.parks {
		close(p.gate)
		delete(e.hooks.parks, k)
	}
	e.hooks.mu.Unlock()
	e.conn.mu.Lock()
	e.conn.wstall = false
	e.conn.cond.Broadcast()
	e.conn.mu.Unlock()
	for _, cs := range e.calls {
		cs.cancel()
	}
	done := make(chan struct{})
	go func() { e.xp.Close(); close(done) }()
	select {
	case <-done:
	case <-time.After(2 * time.Second):
	}
	e.hmu.Lock()
	for _, h := range e.handlers {
		select {
		case h.release <- [2]string{"-", "-"}:
		default:
		}
	}
	e.hmu.Unlock()
}

func vRunScenario(c vCase) []string {
	e := newEngine(c)
	e.runScript(c.get("script"))
	evs := e.ev.snapshot()
	e.teardown()
	return evs
}

// vCallFrameSeq: seqno and nonce (decimal text) of a call frame written by the library
func vCallFrameSeq(w []byte) (int64, string, bool) {
	h := &codec.MsgpackHandle{WriteExt: true, RawToString: true}
	dec := codec.NewDecoderBytes(w, h)
	var l int
	if dec.Decode(&l) != nil {
		return 0, "", false
	}
	var arr []interface{}
	if dec.Decode(&arr) != nil || len(arr) < 4 {
		return 0, "", false
	}
	toI := func(v interface{}) (int64, bool) {
		switch x := v.(type) {
		case int64:
			return x, true
		case uint64:
			return int64(x), true
		}
		return 0, false
	}
	t, ok := toI(arr[0])
	if !ok || (t != 0 && t != 4) {
		return 0, "", false
	}
	q, _ := toI(arr[1])
	arg := arr[3]
	if t == 4 && len(arr) >= 5 {
		arg = arr[4]
	}
	if z, ok := arg.([]byte); ok && t == 4 && len(z) > 0 {
		// compressed argument: inflate it (gzip, else msgpackzip) to find the nonce
		var plain []byte
		if r, err := gzip.NewReader(bytes.NewReader(z)); err == nil {
			plain, _ = io.ReadAll(r)
		}
		if plain == nil {
			plain, _ = msgpackzip.Inflate(z)
		}
		var v interface{}
		if plain != nil && codec.NewDecoderBytes(plain, h).Decode(&v) == nil {
			arg = v
		}
	}
	if a, ok := arg.([]interface{}); ok && len(a) > 0 {
		if n, ok := toI(a[0]); ok {
			return q, strconv.FormatInt(n, 10), true
		}
	}
	return q, "", true
}

func (e *vEngine) feedResponse(seq int64, nonce string, res string) {
	e.feedResponseC(seq, nonce, res, 0)
}

// feedResponseC: [1, seq, nil, a[i:nonce, b:]] (or the given result text) from the peer; for ctype gzip (1) /
// msgpackzip (2) the result travels as the compressed msgpack encoding, produced with compress/gzip / msgpackzip
// directly (not with the package's pooled compressors)
func (e *vEngine) feedResponseC(seq int64, nonce string, res string, ctype int) {
	var v interface{}
	if res == "-" {
		n, _ := strconv.ParseInt(nonce, 10, 64)
		v = []interface{}{n, []byte{}}
	} else {
		v = vParse(res)
	}
	h := &codec.MsgpackHandle{WriteExt: true, RawToString: true}
	var content, prefix []byte
	if ctype == 1 || ctype == 2 {
		var plain []byte
		_ = codec.NewEncoderBytes(&plain, h).Encode(v)
		if ctype == 1 {
			var buf bytes.Buffer
			zw := gzip.NewWriter(&buf)
			_, _ = zw.Write(plain)
			_ = zw.Close()
			v = buf.Bytes()
		} else {
			z, err := msgpackzip.Compress(plain)
			if err == nil {
				v = z
			}
		}
	}
	_ = codec.NewEncoderBytes(&content, h).Encode([]interface{}{1, seq, nil, v})
	_ = codec.NewEncoderBytes(&prefix, h).Encode(len(content))
	b := append(prefix, content...)
	e.ev.add("feed/%s", vHex(b))
	e.conn.feed(b, nil)
	e.srv.Run()
}
