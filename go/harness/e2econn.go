//go:build verif

package rpc

// A Connection over REAL transports (both ends are the package): the Connection's own GenericClient (every RPC goes through
// DoCommand) against a Server whose handler follows a script of (delay, outcome) per invocation.  Used by C12 (no write to the
// caller's result after the call returned), C08 and C15.

import (
	"fmt"
	"strconv"
	"strings"
	"sync"
	"sync/atomic"
	"time"

	"github.com/keybase/backoff"
	"golang.org/x/net/context"
)

type vRealCT struct {
	mu      sync.Mutex
	cur     Transporter
	staged  Transporter
	servers []Transporter
	mkSrv   func(Transporter)
}

func (t *vRealCT) Dial(ctx context.Context) (Transporter, error) {
	a, b, err := vTCPPair()
	if err != nil {
		return nil, err
	}
	lf := NewSimpleLogFactory(vQuietOutput{}, vQuietOpts{})
	sx := NewTransport(b, lf, nil, nil, 1<<20)
	t.mkSrv(sx)
	cx := NewTransport(a, lf, nil, nil, 1<<20)
	t.mu.Lock()
	if t.staged != nil {
		t.staged.Close()
	}
	t.staged = cx
	t.servers = append(t.servers, sx)
	t.mu.Unlock()
	return cx, nil
}
func (t *vRealCT) IsConnected() bool {
	t.mu.Lock()
	defer t.mu.Unlock()
	return t.cur != nil && t.cur.IsConnected()
}
func (t *vRealCT) Finalize() {
	t.mu.Lock()
	defer t.mu.Unlock()
	if t.cur != nil {
		t.cur.Close()
	}
	t.cur, t.staged = t.staged, nil
}
func (t *vRealCT) Close() {
	t.mu.Lock()
	defer t.mu.Unlock()
	if t.cur != nil {
		t.cur.Close()
	}
	if t.staged != nil {
		t.staged.Close()
	}
	for _, s := range t.servers {
		s.Close()
	}
}

type vCCHandler struct{}

func (vCCHandler) OnConnect(context.Context, *Connection, GenericClient, *Server) error { return nil }
func (vCCHandler) OnConnectError(error, time.Duration)                                  {}
func (vCCHandler) OnDoCommandError(error, time.Duration)                                {}
func (vCCHandler) OnDisconnected(context.Context, DisconnectStatus)                     {}
func (vCCHandler) ShouldRetry(name string, err error) bool {
	return err != nil && err.Error() == "throttle"
}
func (vCCHandler) ShouldRetryOnConnect(error) bool { return true }
func (vCCHandler) HandlerName() string             { return "verif-cc" }

// cc <id> timeout=<ms> backoff=<ms> cancelat=<ms|-> attempts=<delay>:<ok|throttle|apperr>,...
func vRunCC(c vCase) string {
	type att struct {
		delay time.Duration
		out   string
	}
	var atts []att
	for _, a := range strings.Split(c.get("attempts"), ",") {
		f := strings.Split(a, ":")
		d, _ := strconv.Atoi(f[0])
		atts = append(atts, att{time.Duration(d) * time.Millisecond, f[1]})
	}
	var inv int32
	var lastDone int64
	t0 := time.Now()
	ct := &vRealCT{}
	ct.mkSrv = func(sx Transporter) {
		srv := NewServer(sx, func(e error) interface{} {
			if e == nil {
				return nil
			}
			return e.Error()
		})
		_ = srv.Register(Protocol{Name: "p", Methods: map[string]ServeHandlerDescription{
			"m": {
				MakeArg: func() interface{} { var v interface{}; return &v },
				Handler: func(ctx context.Context, arg interface{}) (interface{}, error) {
					k := int(atomic.AddInt32(&inv, 1)) - 1
					a := att{0, "ok"}
					if k < len(atts) {
						a = atts[k]
					}
					time.Sleep(a.delay)
					atomic.StoreInt64(&lastDone, time.Since(t0).Milliseconds())
					switch a.out {
					case "throttle":
						return nil, vE2EErr{"throttle"}
					case "apperr":
						return nil, vE2EErr{"app-error"}
					}
					return fmt.Sprintf("result-of-attempt-%d", k), nil
				},
			}}})
		srv.Run()
	}
	atoi := func(k string) int { n, _ := strconv.Atoi(c.get(k)); return n }
	bo := time.Duration(atoi("backoff")) * time.Millisecond
	if bo == 0 {
		bo = time.Millisecond
	}
	conn := NewConnectionWithTransport(vCCHandler{}, ct, vStringUnwrapper{}, vQuietOutput{}, ConnectionOpts{
		ReconnectBackoff: func() backoff.BackOff { return &vZeroBackoff{} },
		CommandBackoff:   func() backoff.BackOff { return &vZeroBackoff{d: bo} },
	})
	defer conn.Shutdown()
	cli := conn.GetClient()
	ctx, cancel := context.WithCancel(context.Background())
	defer cancel()
	if ca := c.get("cancelat"); ca != "" && ca != "-" {
		d, _ := strconv.Atoi(ca)
		time.AfterFunc(time.Duration(d)*time.Millisecond, cancel)
	}
	var res interface{} = "initial"
	err := cli.Call(ctx, "p.m", []interface{}{1}, &res, time.Duration(atoi("timeout"))*time.Millisecond)
	retms := time.Since(t0).Milliseconds()
	atRet := vPrint(res)
	// let every handler invocation that was started finish, and its reply travel
	total := time.Duration(0)
	for _, a := range atts {
		total += a.delay
	}
	deadline := time.Now().Add(total + time.Duration(len(atts))*bo + 400*time.Millisecond)
	stable := 0
	lastInv := atomic.LoadInt32(&inv)
	for time.Now().Before(deadline) && stable < 150 {
		time.Sleep(2 * time.Millisecond)
		if n := atomic.LoadInt32(&inv); n != lastInv || atomic.LoadInt64(&lastDone) == 0 && n > 0 {
			lastInv, stable = n, 0
		} else {
			stable++
		}
	}
	time.Sleep(60 * time.Millisecond)
	after := vPrint(res)
	es := "-"
	if err != nil {
		es = vHexS(err.Error())
	}
	return fmt.Sprintf("err=%s retms=%d atret=%s after=%s invocations=%d lastdone=%d", es, retms, atRet, after, atomic.LoadInt32(&inv), atomic.LoadInt64(&lastDone))
}
