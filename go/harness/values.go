//go:build verif

package rpc

// Canonical text form of msgpack values shared by the Go harness, the OCaml driver and the Python generator:
//   n  t  f  i:<decimal>  s:<hex>  b:<hex>  d:<16 hex digits>  a[v,v,...]  m{k=v,k=v,...}
// Map entries are printed sorted by the printed key; integers print the same whatever Go type held them.

import (
	"encoding/hex"
	"fmt"
	"math"
	"sort"
	"strconv"
	"strings"
)

func vPrint(v interface{}) string {
	switch x := v.(type) {
	case nil:
		return "n"
	case bool:
		if x {
			return "t"
		}
		return "f"
	case int:
		return "i:" + strconv.FormatInt(int64(x), 10)
	case int8:
		return "i:" + strconv.FormatInt(int64(x), 10)
	case int16:
		return "i:" + strconv.FormatInt(int64(x), 10)
	case int32:
		return "i:" + strconv.FormatInt(int64(x), 10)
	case int64:
		return "i:" + strconv.FormatInt(x, 10)
	case uint:
		return "i:" + strconv.FormatUint(uint64(x), 10)
	case uint8:
		return "i:" + strconv.FormatUint(uint64(x), 10)
	case uint16:
		return "i:" + strconv.FormatUint(uint64(x), 10)
	case uint32:
		return "i:" + strconv.FormatUint(uint64(x), 10)
	case uint64:
		return "i:" + strconv.FormatUint(x, 10)
	case SeqNumber:
		return "i:" + strconv.FormatInt(int64(x), 10)
	case MethodType:
		return "i:" + strconv.FormatInt(int64(x), 10)
	case CompressionType:
		return "i:" + strconv.FormatInt(int64(x), 10)
	case float64:
		return fmt.Sprintf("d:%016x", math.Float64bits(x))
	case float32:
		return fmt.Sprintf("d32:%08x", math.Float32bits(x))
	case string:
		return "s:" + hex.EncodeToString([]byte(x))
	case []byte:
		if x == nil {
			return "n"
		}
		return "b:" + hex.EncodeToString(x)
	case []interface{}:
		parts := make([]string, len(x))
		for i, e := range x {
			parts[i] = vPrint(e)
		}
		return "a[" + strings.Join(parts, ",") + "]"
	case map[interface{}]interface{}:
		parts := make([]string, 0, len(x))
		for k, e := range x {
			parts = append(parts, vPrint(k)+"="+vPrint(e))
		}
		sort.Strings(parts)
		return "m{" + strings.Join(parts, ",") + "}"
	case map[string]interface{}:
		parts := make([]string, 0, len(x))
		for k, e := range x {
			parts = append(parts, vPrint(k)+"="+vPrint(e))
		}
		sort.Strings(parts)
		return "m{" + strings.Join(parts, ",") + "}"
	case CtxRPCTags:
		return vPrint(map[string]interface{}(x))
	case *interface{}:
		if x == nil {
			return "n"
		}
		return vPrint(*x)
	case *string:
		if x == nil {
			return "n"
		}
		return vPrint(*x)
	case error:
		return "s:" + hex.EncodeToString([]byte(x.Error()))
	default:
		return "?" + strings.ReplaceAll(fmt.Sprintf("%T", v), " ", "_")
	}
}

type vParser struct {
	s string
	i int
}

func vParse(s string) interface{} {
	p := &vParser{s: s}
	v := p.value()
	if p.i != len(p.s) {
		panic("trailing garbage in value: " + s)
	}
	return v
}

func (p *vParser) until(stop string) string {
	j := p.i
	for j < len(p.s) && !strings.ContainsRune(stop, rune(p.s[j])) {
		j++
	}
	r := p.s[p.i:j]
	p.i = j
	return r
}

func (p *vParser) value() interface{} {
	if p.i >= len(p.s) {
		panic("empty value")
	}
	switch p.s[p.i] {
	case 'n':
		p.i++
		return nil
	case 't':
		p.i++
		return true
	case 'f':
		p.i++
		return false
	case 'i':
		p.i += 2
		t := p.until(",]}=")
		if n, err := strconv.ParseInt(t, 10, 64); err == nil {
			return n
		}
		u, err := strconv.ParseUint(t, 10, 64)
		if err != nil {
			panic("bad int " + t)
		}
		return u
	case 's':
		p.i += 2
		b, _ := hex.DecodeString(p.until(",]}="))
		return string(b)
	case 'b':
		p.i += 2
		b, _ := hex.DecodeString(p.until(",]}="))
		if b == nil {
			b = []byte{}
		}
		return b
	case 'd':
		p.i += 2
		u, _ := strconv.ParseUint(p.until(",]}="), 16, 64)
		return math.Float64frombits(u)
	case 'a':
		p.i += 2
		res := []interface{}{}
		for p.s[p.i] != ']' {
			res = append(res, p.value())
			if p.s[p.i] == ',' {
				p.i++
			}
		}
		p.i++
		return res
	case 'm':
		p.i += 2
		res := map[interface{}]interface{}{}
		for p.s[p.i] != '}' {
			k := p.value()
			p.i++ // '='
			res[k] = p.value()
			if p.s[p.i] == ',' {
				p.i++
			}
		}
		p.i++
		return res
	}
	panic("bad value text: " + p.s[p.i:])
}

// vTags converts a parsed m{...} with string keys into CtxRPCTags ("-" gives nil)
func vTags(s string) CtxRPCTags {
	if s == "" || s == "-" {
		return nil
	}
	m := vParse(s).(map[interface{}]interface{})
	t := make(CtxRPCTags)
	for k, v := range m {
		t[k.(string)] = v
	}
	return t
}
