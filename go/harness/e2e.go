//go:build verif

package rpc

// Both ends are the package: a caller cancels (or times out) a call at a chosen moment relative to its frame being written;
// the handler on the other transport must see its context cancelled.  Used by C08 and C09.

import (
	"fmt"
	"net"
	"sync"
	"sync/atomic"
	"time"

	"golang.org/x/net/context"
)

// a connection whose Write blocks while the gate is shut
type vGatedConn struct {
	net.Conn
	mu      sync.Mutex
	gate    chan struct{}
	entered int32
}

func (g *vGatedConn) Write(p []byte) (int, error) {
	atomic.AddInt32(&g.entered, 1)
	g.mu.Lock()
	gt := g.gate
	g.mu.Unlock()
	if gt != nil {
		<-gt
	}
	return g.Conn.Write(p)
}

func vRunE2ECancel(c vCase) string {
	a, b, err := vTCPPair()
	if err != nil {
		return "setup=" + err.Error()
	}
	gc := &vGatedConn{Conn: a}
	inflight := c.get("when") == "inflight"
	if inflight {
		gc.gate = make(chan struct{})
	}
	lf := NewSimpleLogFactory(vQuietOutput{}, vQuietOpts{})
	cx := NewTransport(gc, lf, nil, nil, 1<<20)
	sx := NewTransport(b, lf, nil, nil, 1<<20)
	defer cx.Close()
	defer sx.Close()
	started := make(chan struct{}, 8)
	var hctx int32 = -1
	srv := NewServer(sx, nil)
	_ = srv.Register(Protocol{Name: "p", Methods: map[string]ServeHandlerDescription{
		"m": {
			MakeArg: func() interface{} { var v interface{}; return &v },
			Handler: func(ctx context.Context, arg interface{}) (interface{}, error) {
				started <- struct{}{}
				select {
				case <-ctx.Done():
					atomic.StoreInt32(&hctx, 1)
				case <-time.After(2500 * time.Millisecond):
					atomic.StoreInt32(&hctx, 0)
				}
				return nil, nil
			},
		}}})
	srv.Run()
	cli := NewClient(cx, nil, nil)
	// extra traffic ahead of the call under test, so that it is not the first frame of the connection
	npre, _ := time.ParseDuration("0s")
	_ = npre
	ctx, cancel := context.WithCancel(context.Background())
	defer cancel()
	if c.get("how") == "deadline" {
		var c2 context.CancelFunc
		ctx, c2 = context.WithTimeout(ctx, 30*time.Millisecond)
		defer c2()
	}
	ret := make(chan error, 1)
	t0 := time.Now()
	go func() {
		var res interface{}
		ret <- cli.Call(ctx, "p.m", []interface{}{1}, &res, 0)
	}()
	hstarted := false
	if inflight {
		// wait until the writer goroutine is inside Write with the call frame
		for i := 0; i < 20000 && atomic.LoadInt32(&gc.entered) == 0; i++ {
			time.Sleep(100 * time.Microsecond)
		}
	} else {
		select {
		case <-started:
			hstarted = true
		case <-time.After(2 * time.Second):
		}
	}
	if c.get("how") != "deadline" {
		cancel()
	}
	var rerr error
	retd := false
	select {
	case rerr = <-ret:
		retd = true
	case <-time.After(3 * time.Second):
	}
	retms := time.Since(t0).Milliseconds()
	if inflight {
		gc.mu.Lock()
		close(gc.gate)
		gc.gate = nil
		gc.mu.Unlock()
		select {
		case <-started:
			hstarted = true
		case <-time.After(2 * time.Second):
		}
	}
	if hstarted {
		for i := 0; i < 30000 && atomic.LoadInt32(&hctx) < 0; i++ {
			time.Sleep(100 * time.Microsecond)
		}
	}
	cls := "none"
	if retd {
		switch rerr {
		case nil:
			cls = "ok"
		case context.Canceled, context.DeadlineExceeded:
			cls = "ctx"
		default:
			cls = "other"
		}
	}
	return fmt.Sprintf("ret=%s retms=%d hstarted=%v hctx=%d", cls, retms, hstarted, atomic.LoadInt32(&hctx))
}

// two notification handlers are running on the far transport; a later Notify is abandoned by its caller (cancel / deadline)
// while its frame is still being written; nobody cancelled the two running notifications: their contexts must stay live
func vRunE2ENotify(c vCase) string {
	a, b, err := vTCPPair()
	if err != nil {
		return "setup=" + err.Error()
	}
	gc := &vGatedConn{Conn: a}
	lf := NewSimpleLogFactory(vQuietOutput{}, vQuietOpts{})
	cx := NewTransport(gc, lf, nil, nil, 1<<20)
	sx := NewTransport(b, lf, nil, nil, 1<<20)
	defer cx.Close()
	defer sx.Close()
	started := make(chan int, 16)
	release := make(chan struct{})
	var cancelled int32
	var nstarted int32
	srv := NewServer(sx, nil)
	_ = srv.Register(Protocol{Name: "p", Methods: map[string]ServeHandlerDescription{
		"n": {
			MakeArg: func() interface{} { var v interface{}; return &v },
			Handler: func(ctx context.Context, arg interface{}) (interface{}, error) {
				k := int(atomic.AddInt32(&nstarted, 1))
				started <- k
				select {
				case <-ctx.Done():
					atomic.AddInt32(&cancelled, 1)
				case <-release:
				}
				return nil, nil
			},
		}}})
	srv.Run()
	cli := NewClient(cx, nil, nil)
	nrun := 2
	for i := 0; i < nrun; i++ {
		if err := cli.Notify(context.Background(), "p.n", []interface{}{i}, 0); err != nil {
			return "setup=notify-failed"
		}
	}
	for i := 0; i < nrun; i++ {
		select {
		case <-started:
		case <-time.After(2 * time.Second):
			return "setup=handlers-not-started"
		}
	}
	// shut the gate: the next frame's Write blocks
	gc.mu.Lock()
	gc.gate = make(chan struct{})
	gc.mu.Unlock()
	before := atomic.LoadInt32(&gc.entered)
	ctx, cancel := context.WithCancel(context.Background())
	defer cancel()
	if c.get("how") == "deadline" {
		var c2 context.CancelFunc
		ctx, c2 = context.WithTimeout(ctx, 30*time.Millisecond)
		defer c2()
	}
	ret := make(chan error, 1)
	go func() { ret <- cli.Notify(ctx, "p.n", []interface{}{99}, 0) }()
	for i := 0; i < 20000 && atomic.LoadInt32(&gc.entered) == before; i++ {
		time.Sleep(100 * time.Microsecond)
	}
	if c.get("how") != "deadline" {
		cancel()
	}
	rs := "none"
	select {
	case e := <-ret:
		if e == context.Canceled || e == context.DeadlineExceeded {
			rs = "ctx"
		} else if e == nil {
			rs = "ok"
		} else {
			rs = "other"
		}
	case <-time.After(3 * time.Second):
	}
	gc.mu.Lock()
	close(gc.gate)
	gc.gate = nil
	gc.mu.Unlock()
	// the abandoned notification may still arrive and start a third handler; give cancellations time to travel
	time.Sleep(250 * time.Millisecond)
	foreign := atomic.LoadInt32(&cancelled)
	close(release)
	return fmt.Sprintf("ret=%s foreign=%d started=%d", rs, foreign, atomic.LoadInt32(&nstarted))
}

// vRunE2EBurst: n calls are being served by the other transport; the peer then stops reading for a moment (the writer is stuck
// inside Write with an unrelated frame) and the caller gives up ALL of them at once (one shared parent context); when the peer
// reads again every one of the n handlers must see its context cancelled.
func vRunE2EBurst(c vCase) string {
	a, b, err := vTCPPair()
	if err != nil {
		return "setup=" + err.Error()
	}
	n := 80
	fmt.Sscanf(c.get("n"), "%d", &n)
	gc := &vGatedConn{Conn: a}
	lf := NewSimpleLogFactory(vQuietOutput{}, vQuietOpts{})
	cx := NewTransport(gc, lf, nil, nil, 1<<20)
	sx := NewTransport(b, lf, nil, nil, 1<<20)
	defer cx.Close()
	defer sx.Close()
	var started, cancelled int32
	srv := NewServer(sx, nil)
	_ = srv.Register(Protocol{Name: "p", Methods: map[string]ServeHandlerDescription{
		"m": {
			MakeArg: func() interface{} { var v interface{}; return &v },
			Handler: func(ctx context.Context, arg interface{}) (interface{}, error) {
				atomic.AddInt32(&started, 1)
				select {
				case <-ctx.Done():
					atomic.AddInt32(&cancelled, 1)
				case <-time.After(4 * time.Second):
				}
				return nil, nil
			},
		},
		"n": {
			MakeArg: func() interface{} { var v interface{}; return &v },
			Handler: func(ctx context.Context, arg interface{}) (interface{}, error) { return nil, nil },
		}}})
	srv.Run()
	cli := NewClient(cx, nil, nil)
	ctx, cancel := context.WithCancel(context.Background())
	defer cancel()
	ret := make(chan error, n)
	for i := 0; i < n; i++ {
		i := i
		go func() {
			var res interface{}
			ret <- cli.Call(ctx, "p.m", []interface{}{i}, &res, 0)
		}()
	}
	for i := 0; i < 30000 && atomic.LoadInt32(&started) < int32(n); i++ {
		time.Sleep(100 * time.Microsecond)
	}
	// the peer stops reading: shut the gate and occupy the writer with an unrelated notification
	gc.mu.Lock()
	gate := make(chan struct{})
	gc.gate = gate
	before := atomic.LoadInt32(&gc.entered)
	gc.mu.Unlock()
	go func() { _ = cli.Notify(context.Background(), "p.n", []interface{}{0}, 0) }()
	for i := 0; i < 20000 && atomic.LoadInt32(&gc.entered) == before; i++ {
		time.Sleep(100 * time.Microsecond)
	}
	t0 := time.Now()
	cancel()
	returned := 0
	deadline := time.After(3 * time.Second)
loop:
	for returned < n {
		select {
		case <-ret:
			returned++
		case <-deadline:
			break loop
		}
	}
	retms := time.Since(t0).Milliseconds()
	gc.mu.Lock()
	close(gate)
	gc.gate = nil
	gc.mu.Unlock()
	for i := 0; i < 30000 && atomic.LoadInt32(&cancelled) < int32(n); i++ {
		time.Sleep(100 * time.Microsecond)
	}
	return fmt.Sprintf("n=%d started=%d returned=%d retms=%d cancelled=%d", n, atomic.LoadInt32(&started), returned, retms, atomic.LoadInt32(&cancelled))
}
