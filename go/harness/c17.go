//go:build verif

package rpc

// C17: real TLS handshakes over in-memory pipes against certificates minted here; also the TLS connection transport's
// Dial / Finalize / Close sequences (C14).

import (
	"crypto/ecdsa"
	"crypto/elliptic"
	"crypto/rand"
	"crypto/tls"
	"crypto/x509"
	"crypto/x509/pkix"
	"encoding/pem"
	"errors"
	"fmt"
	"io"
	"math/big"
	"net"
	"strings"
	"sync"
	"testing"
	"time"

	"golang.org/x/net/context"
)

type vPKI struct {
	srvMu  sync.Mutex
	srvCfg map[string]*tls.Config // shared server configurations (one set of session-ticket keys each)
	caPEM  map[string][]byte
	caPool map[string]*x509.CertPool
	certs  map[string]tls.Certificate
}

var vPKIOnce sync.Once
var vThePKI *vPKI

func vMakePKI() *vPKI {
	vPKIOnce.Do(func() {
		p := &vPKI{caPEM: map[string][]byte{}, caPool: map[string]*x509.CertPool{}, certs: map[string]tls.Certificate{}}
		serial := int64(1)
		type ca struct {
			cert *x509.Certificate
			key  *ecdsa.PrivateKey
		}
		mkCA := func(name string) ca {
			key, _ := ecdsa.GenerateKey(elliptic.P256(), rand.Reader)
			serial++
			t := &x509.Certificate{SerialNumber: big.NewInt(serial), Subject: pkix.Name{CommonName: name},
				NotBefore: time.Now().Add(-24 * time.Hour), NotAfter: time.Now().Add(24 * time.Hour),
				IsCA: true, BasicConstraintsValid: true, KeyUsage: x509.KeyUsageCertSign | x509.KeyUsageDigitalSignature}
			der, err := x509.CreateCertificate(rand.Reader, t, t, &key.PublicKey, key)
			if err != nil {
				panic(err)
			}
			c, _ := x509.ParseCertificate(der)
			p.caPEM[name] = pem.EncodeToMemory(&pem.Block{Type: "CERTIFICATE", Bytes: der})
			pool := x509.NewCertPool()
			pool.AddCert(c)
			p.caPool[name] = pool
			return ca{c, key}
		}
		ca1, ca2 := mkCA("ca1"), mkCA("ca2")
		leaf := func(kind string, signer *ca, dns string, expired bool) {
			key, _ := ecdsa.GenerateKey(elliptic.P256(), rand.Reader)
			serial++
			t := &x509.Certificate{SerialNumber: big.NewInt(serial), Subject: pkix.Name{CommonName: dns}, DNSNames: []string{dns},
				NotBefore: time.Now().Add(-24 * time.Hour), NotAfter: time.Now().Add(24 * time.Hour),
				KeyUsage: x509.KeyUsageDigitalSignature, ExtKeyUsage: []x509.ExtKeyUsage{x509.ExtKeyUsageServerAuth}}
			if expired {
				t.NotBefore, t.NotAfter = time.Now().Add(-48*time.Hour), time.Now().Add(-time.Hour)
			}
			parent, pkey := t, key
			if signer != nil {
				parent, pkey = signer.cert, signer.key
			}
			der, err := x509.CreateCertificate(rand.Reader, t, parent, &key.PublicKey, pkey)
			if err != nil {
				panic(err)
			}
			p.certs[kind] = tls.Certificate{Certificate: [][]byte{der}, PrivateKey: key}
		}
		leaf("valid", &ca1, "srv.test", false)
		leaf("otherca", &ca2, "srv.test", false)
		leaf("othername", &ca1, "other.test", false)
		leaf("expired", &ca1, "srv.test", true)
		leaf("selfsigned", nil, "srv.test", false)
		leaf("expired-otherca", &ca2, "srv.test", true)
		leaf("othername-otherca", &ca2, "other.test", false)
		leaf("pairvalid", &ca1, "pair.test", false)
		vThePKI = p
	})
	return vThePKI
}

// a server configuration shared by every connection that uses it (so that session tickets issued on one are honoured on another)
func (p *vPKI) sharedServerConfig(certKind, scope string, max uint16) *tls.Config {
	p.srvMu.Lock()
	defer p.srvMu.Unlock()
	if p.srvCfg == nil {
		p.srvCfg = map[string]*tls.Config{}
	}
	key := fmt.Sprintf("%s/%s/%d", certKind, scope, max)
	if c, ok := p.srvCfg[key]; ok {
		return c
	}
	c := &tls.Config{Certificates: []tls.Certificate{p.certs[certKind]}, MaxVersion: max}
	p.srvCfg[key] = c
	return c
}

// two transports in one process dial the same host one after the other, each with its own constructor / roots, against a
// server that honours session tickets across connections: each dial must be judged on its own configuration
func vRunTLSPair(c vCase) string {
	p := vMakePKI()
	max := uint16(tls.VersionTLS13)
	if c.get("tlsmax") == "12" {
		max = tls.VersionTLS12
	}
	cfg := p.sharedServerConfig(c.get("cert"), c.id, max)
	done := make(chan string, 8)
	srv := func(conn net.Conn) {
		defer conn.Close()
		s := tls.Server(conn, cfg)
		_ = s.SetDeadline(time.Now().Add(3 * time.Second))
		if err := s.Handshake(); err != nil {
			done <- "handshake-error"
			return
		}
		if s.ConnectionState().DidResume {
			done <- "resumed"
		} else {
			done <- "handshaken"
		}
		_ = s.SetDeadline(time.Time{})
		_, _ = io.Copy(io.Discard, s)
	}
	var res []string
	for i := 1; i <= 2; i++ {
		cc := vCase{kind: "tls", id: c.id, kv: map[string]string{"host": c.get("host"), "timeout": c.get("timeout"),
			"ctor": c.get(fmt.Sprintf("ctor%d", i)), "roots": c.get(fmt.Sprintf("roots%d", i)), "name": c.get(fmt.Sprintf("name%d", i)), "skip": "0"}}
		d := &vScriptDialable{wrap: srv, tcp: true}
		ct, _ := vBuildTLS(cc, p, d)
		x, err := ct.Dial(context.Background())
		sv := "none"
		select {
		case sv = <-done:
		case <-time.After(300 * time.Millisecond):
		}
		if err == nil && ct.conn != nil {
			// let the client process the session tickets a TLS 1.3 server sends after the handshake
			_ = ct.conn.SetReadDeadline(time.Now().Add(40 * time.Millisecond))
			var b [1]byte
			_, _ = ct.conn.Read(b[:])
			_ = ct.conn.SetReadDeadline(time.Time{})
		}
		res = append(res, fmt.Sprintf("%s/%v/%s", vClassifyTLSErr(err), x != nil, sv))
		defer ct.Close()
		defer func() {
			d.mu.Lock()
			for _, k := range d.conns {
				k.Close()
			}
			d.mu.Unlock()
		}()
	}
	return "results=" + strings.Join(res, ",")
}

// what the far end of a dialed connection does
func vTLSServer(p *vPKI, certKind, behaviour string, done chan<- string) func(net.Conn) {
	return func(c net.Conn) {
		defer c.Close()
		switch behaviour {
		case "stall":
			time.Sleep(3 * time.Second)
			done <- "stalled"
		case "closemid":
			buf := make([]byte, 16)
			_, _ = io.ReadFull(c, buf)
			done <- "closed"
		case "garbage":
			buf := make([]byte, 16)
			_, _ = io.ReadFull(c, buf)
			_, _ = c.Write([]byte("this is not a TLS record at all, sorry......"))
			done <- "garbage"
		default:
			srv := tls.Server(c, &tls.Config{Certificates: []tls.Certificate{p.certs[certKind]}})
			_ = srv.SetDeadline(time.Now().Add(3 * time.Second))
			if err := srv.Handshake(); err != nil {
				done <- "handshake-error"
				return
			}
			done <- "handshaken"
			_ = srv.SetDeadline(time.Time{})
			_, _ = io.Copy(io.Discard, srv)
		}
	}
}

func vClassifyTLSErr(err error) string {
	if err == nil {
		return "ok"
	}
	var ua x509.UnknownAuthorityError
	var hn x509.HostnameError
	var inv x509.CertificateInvalidError
	switch {
	case errors.As(err, &ua):
		return "unknown-authority"
	case errors.As(err, &hn):
		return "wrong-name"
	case errors.As(err, &inv):
		if inv.Reason == x509.Expired {
			return "expired"
		}
		return fmt.Sprintf("invalid-%d", inv.Reason)
	}
	m := err.Error()
	switch {
	case m == "handshake timeout":
		return "timeout"
	case m == "Unable to load root certificates":
		return "bad-roots"
	case strings.Contains(m, "either ServerName or InsecureSkipVerify"):
		return "no-servername"
	case err == io.EOF || strings.Contains(m, "EOF") || strings.Contains(m, "closed pipe") || strings.Contains(m, "connection reset") || strings.Contains(m, "broken pipe") || strings.Contains(m, "first record does not look like a TLS handshake") || strings.Contains(m, "tls:"):
		return "broken"
	}
	return "other:" + strings.ReplaceAll(m, " ", "_")
}

func vBuildTLS(c vCase, p *vPKI, d Dialable) (*ConnectionTransportTLS, *tls.Config) {
	var remote Remote = NewFixedRemote(c.get("host") + ":443")
	if hs := c.get("hosts"); hs != "" {
		remote = &vSeqRemote{hosts: strings.Split(hs, ",")}
	}
	to, _ := time.ParseDuration(c.get("timeout") + "ms")
	opts := ConnectionOpts{DontConnectNow: true, HandshakeTimeout: to}
	lf := NewSimpleLogFactory(vQuietOutput{}, vQuietOpts{})
	h := &vConnEngine{ev: &vEvents{}, t0: time.Now(), cmds: map[string]*vCmd{}, goCmd: map[int64]vGoCmd{}}
	var conn *Connection
	var given *tls.Config
	switch c.get("ctor") {
	case "pem":
		conn = NewTLSConnection(remote, p.caPEM[c.get("roots")], nil, h, lf, nil, vQuietOutput{}, 1<<20, opts)
	case "pemdialable":
		conn = NewTLSConnectionWithDialable(remote, p.caPEM[c.get("roots")], nil, h, lf, nil, vQuietOutput{}, 1<<20, opts, d)
	case "pembad":
		conn = NewTLSConnection(remote, []byte("-----BEGIN CERTIFICATE-----\nnot base64 at all\n-----END CERTIFICATE-----\n"), nil, h, lf, nil, vQuietOutput{}, 1<<20, opts)
	case "pemempty":
		conn = NewTLSConnection(remote, []byte(""), nil, h, lf, nil, vQuietOutput{}, 1<<20, opts)
	case "pemblank":
		conn = NewTLSConnection(remote, []byte(" \n\n"), nil, h, lf, nil, vQuietOutput{}, 1<<20, opts)
	case "pemtext":
		conn = NewTLSConnectionWithDialable(remote, []byte("# no certificates configured\n"), nil, h, lf, nil, vQuietOutput{}, 1<<20, opts, d)
	case "config":
		given = &tls.Config{InsecureSkipVerify: c.get("skip") == "1"}
		if r := c.get("roots"); r != "" && r != "none" {
			given.RootCAs = p.caPool[r]
		}
		if n := c.get("name"); n != "" && n != "-" {
			given.ServerName = n
		}
		conn = NewTLSConnectionWithTLSConfig(remote, given, nil, h, lf, nil, vQuietOutput{}, 1<<20, opts)
	default:
		conn = NewTLSConnection(remote, nil, nil, h, lf, nil, vQuietOutput{}, 1<<20, opts)
	}
	ct := conn.transport.(*ConnectionTransportTLS)
	ct.dialable = d
	return ct, given
}

// a Remote that walks through a list of addresses, one per GetAddress call (as a failover remote does)
type vSeqRemote struct {
	mu    sync.Mutex
	hosts []string
	i     int
}

func (r *vSeqRemote) GetAddress() string {
	r.mu.Lock()
	defer r.mu.Unlock()
	h := r.hosts[r.i%len(r.hosts)]
	r.i++
	return h + ":443"
}
func (r *vSeqRemote) Peek() string   { return r.hosts[r.i%len(r.hosts)] + ":443" }
func (r *vSeqRemote) Reset()         {}
func (r *vSeqRemote) String() string { return strings.Join(r.hosts, ",") }

// several dials on one connection transport, each to the next address with its own server certificate / behaviour
func vRunTLSSeq(c vCase) string {
	p := vMakePKI()
	done := make(chan string, 16)
	steps := strings.Split(c.get("dials"), ",")
	var hosts []string
	for _, st := range steps {
		hosts = append(hosts, strings.Split(st, ":")[0])
	}
	c.kv["hosts"] = strings.Join(hosts, ",")
	d := &vScriptDialable{tcp: true}
	ct, _ := vBuildTLS(c, p, d)
	var res []string
	for _, st := range steps {
		f := strings.Split(st, ":")
		d.mu.Lock()
		d.wrap = vTLSServer(p, f[1], f[2], done)
		d.mu.Unlock()
		x, err := ct.Dial(context.Background())
		res = append(res, fmt.Sprintf("%s/%v", vClassifyTLSErr(err), x != nil))
		if len(f) > 3 && f[3] == "fin" && err == nil {
			ct.Finalize()
		}
		select {
		case <-done:
		case <-time.After(100 * time.Millisecond):
		}
	}
	ct.Close()
	d.mu.Lock()
	for _, cc := range d.conns {
		cc.Close()
	}
	d.mu.Unlock()
	return "results=" + strings.Join(res, ",")
}

func vRunTLS(c vCase) string {
	p := vMakePKI()
	done := make(chan string, 4)
	d := &vScriptDialable{wrap: vTLSServer(p, c.get("cert"), c.get("behaviour"), done), tcp: c.get("link") != "pipe"}
	ct, given := vBuildTLS(c, p, d)
	if given != nil && c.get("mutate") == "1" {
		// the caller changes its configuration after construction
		given.InsecureSkipVerify = true
		given.ServerName = "evil.test"
		given.RootCAs = nil
	}
	t0 := time.Now()
	type dr struct {
		x   Transporter
		err error
	}
	ch := make(chan dr, 1)
	go func() {
		// the caller's context: none, one that can only be cancelled, or one with a deadline much later than the handshake timeout
		dctx := context.Background()
		switch c.get("dialctx") {
		case "cancelonly":
			var cf context.CancelFunc
			dctx, cf = context.WithCancel(dctx)
			defer cf()
		case "laterdeadline":
			var cf context.CancelFunc
			dctx, cf = context.WithTimeout(dctx, time.Hour)
			defer cf()
		}
		x, err := ct.Dial(dctx)
		ch <- dr{x, err}
	}()
	var x Transporter
	var err error
	to, _ := time.ParseDuration(c.get("timeout") + "ms")
	select {
	case r := <-ch:
		x, err = r.x, r.err
	case <-time.After(to + 2*time.Second):
		// Dial is stuck: unblock it by closing what it dialed, and report
		d.mu.Lock()
		for _, cc := range d.conns {
			cc.Close()
		}
		d.mu.Unlock()
		return fmt.Sprintf("res=hang elapsed=%d transport=false staged=false server=none alias=n/a", time.Since(t0).Milliseconds())
	}
	el := time.Since(t0).Milliseconds()
	ct.mutex.Lock()
	staged := ct.stagedTransport != nil
	ct.mutex.Unlock()
	srv := "none"
	select {
	case srv = <-done:
	case <-time.After(200 * time.Millisecond):
	}
	alias := "n/a"
	if given != nil {
		alias = fmt.Sprint(ct.tlsConfig == given)
	}
	res := fmt.Sprintf("res=%s elapsed=%d transport=%v staged=%v server=%s alias=%s", vClassifyTLSErr(err), el, x != nil, staged, srv, alias)
	ct.Close()
	if x != nil {
		x.Close()
	}
	d.mu.Lock()
	for _, cc := range d.conns {
		cc.Close() // the package does not close the connection of a failed handshake
	}
	d.mu.Unlock()
	return res
}

func TestVerifC17(t *testing.T) {
	// loading the system root pool is done once per process and can take a few hundred ms on a loaded machine: do it before
	// any handshake is timed
	_, _ = x509.SystemCertPool()
	vMakePKI()
	cases := vReadCases(t)
	out := vOpenOut(t)
	defer out.close()
	var wg sync.WaitGroup
	sem := make(chan struct{}, 32)
	for _, c := range cases {
		c := c
		if c.kind == "tlspair" {
			// one after the other: a process-wide session cache would be keyed by host name
			vGuard(out, c.kind, c.id, func() { out.printf("tlspair %s %s", c.id, vRunTLSPair(c)) })
			continue
		}
		if c.kind == "tlsseq" {
			wg.Add(1)
			sem <- struct{}{}
			go func() {
				defer wg.Done()
				defer func() { <-sem }()
				vGuard(out, c.kind, c.id, func() { out.printf("tlsseq %s %s", c.id, vRunTLSSeq(c)) })
			}()
			continue
		}
		if c.kind != "tls" {
			continue
		}
		wg.Add(1)
		sem <- struct{}{}
		go func() {
			defer wg.Done()
			defer func() { <-sem }()
			vGuard(out, c.kind, c.id, func() { out.printf("tls %s %s", c.id, vRunTLS(c)) })
		}()
	}
	wg.Wait()
}

// the TLS connection transport for the Dial / Finalize / Close sequences of C14
func vMkTLSCTrans(d *vScriptDialable) ConnectionTransport {
	p := vMakePKI()
	done := make(chan string, 64)
	d.wrap = vTLSServer(p, "valid", "handshake", done)
	d.tcp = true
	go func() {
		for range done {
		}
	}()
	c := vCase{kind: "tls", id: "ct", kv: map[string]string{"host": "srv.test", "ctor": "pem", "roots": "ca1", "timeout": "2000"}}
	ct, _ := vBuildTLS(c, p, d)
	return ct
}
