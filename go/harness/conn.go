//go:build verif

package rpc

// Connection engine: a Connection driven by a scripted ConnectionTransport and ConnectionHandler.
// Serves C14, C15 and the connection-level part of C16.

import (
	"errors"
	"fmt"
	"io"
	"strconv"
	"strings"
	"sync"
	"sync/atomic"
	"testing"
	"time"

	"github.com/keybase/backoff"
	"golang.org/x/net/context"
)

// a Transporter that is nothing but a connected flag
type vFakeXp struct {
	id        int
	connected int32
	ce        *vConnEngine
	protos    []string
}

func (x *vFakeXp) IsConnected() bool { return atomic.LoadInt32(&x.connected) == 1 }
func (x *vFakeXp) registerProtocol(p Protocol) error {
	x.protos = append(x.protos, p.Name)
	x.ce.ev.add("register/%d/%s", x.id, vHexS(p.Name))
	return nil
}
func (x *vFakeXp) getDispatcher() (dispatcher, error) { return nil, io.EOF }
func (x *vFakeXp) getReceiver() (receiver, error)     { return nil, io.EOF }
func (x *vFakeXp) receiveFrames() <-chan struct{}     { return nil }
func (x *vFakeXp) done() <-chan struct{}              { return nil }
func (x *vFakeXp) err() error                         { return nil }
func (x *vFakeXp) Close() {
	if atomic.SwapInt32(&x.connected, 0) == 1 {
		x.ce.ev.add("xpclose/%d", x.id)
	}
}

var errVRetriableDial = errors.New("verif: dial failed (retriable)")
var errVFatalDial = errors.New("verif: dial failed (fatal)")
var errVOnConnect = errors.New("verif: OnConnect failed (retriable)")
var errVOnConnectFatal = errors.New("verif: OnConnect failed (fatal)")
var errVRetriableCmd = errors.New("verif: command failed (retriable)")
var errVOtherCmd = errors.New("verif: command failed (other)")

type vConnEngine struct {
	ev    *vEvents
	t0    time.Time
	mu    sync.Mutex
	dials []string // outcomes consumed by successive Dial calls: ok | fail | fatal | hang
	conns []string // outcomes consumed by successive OnConnect calls: ok | fail | fatal
	nd    int
	nc    int
	staged  *vFakeXp
	current *vFakeXp
	nxp     int
	inDial  int32
	hang    chan struct{}
	conn    *Connection
	cmds    map[string]*vCmd
	cmu     sync.Mutex
}

type vCmd struct {
	cancel context.CancelFunc
	done   chan struct{}
}

func (ce *vConnEngine) ms() int64 { return time.Since(ce.t0).Milliseconds() }

// --- ConnectionTransport
func (ce *vConnEngine) Dial(ctx context.Context) (Transporter, error) {
	n := atomic.AddInt32(&ce.inDial, 1)
	ce.mu.Lock()
	i := ce.nd
	ce.nd++
	out := "ok"
	if i < len(ce.dials) {
		out = ce.dials[i]
	}
	ce.mu.Unlock()
	ce.ev.add("dial-begin/%d/inprogress=%d/t=%d", i, n, ce.ms())
	defer atomic.AddInt32(&ce.inDial, -1)
	switch out {
	case "hang":
		select {
		case <-ce.hang:
		case <-ctx.Done():
		case <-time.After(8 * time.Second):
		}
		ce.ev.add("dial-end/%d/fail", i)
		return nil, errVRetriableDial
	case "fail":
		ce.ev.add("dial-end/%d/fail", i)
		return nil, errVRetriableDial
	case "fatal":
		ce.ev.add("dial-end/%d/fatal", i)
		return nil, errVFatalDial
	}
	ce.mu.Lock()
	ce.nxp++
	x := &vFakeXp{id: ce.nxp, connected: 1, ce: ce}
	if ce.staged != nil {
		ce.staged.Close()
	}
	ce.staged = x
	ce.mu.Unlock()
	ce.ev.add("dial-end/%d/ok/%d", i, x.id)
	return x, nil
}
func (ce *vConnEngine) IsConnected() bool {
	ce.mu.Lock()
	defer ce.mu.Unlock()
	return ce.current != nil && ce.current.IsConnected()
}
func (ce *vConnEngine) Finalize() {
	ce.mu.Lock()
	if ce.current != nil {
		ce.current.Close()
	}
	ce.current = ce.staged
	ce.staged = nil
	id := 0
	if ce.current != nil {
		id = ce.current.id
	}
	ce.mu.Unlock()
	ce.ev.add("finalize/%d", id)
}
func (ce *vConnEngine) Close() {
	ce.ev.add("ctclose")
	ce.mu.Lock()
	if ce.current != nil {
		ce.current.Close()
	}
	if ce.staged != nil {
		ce.staged.Close()
	}
	ce.mu.Unlock()
}

// --- ConnectionHandler
func (ce *vConnEngine) OnConnect(ctx context.Context, c *Connection, cli GenericClient, srv *Server) error {
	ce.mu.Lock()
	i := ce.nc
	ce.nc++
	out := "ok"
	if i < len(ce.conns) {
		out = ce.conns[i]
	}
	ce.mu.Unlock()
	ce.ev.add("onconnect/%d/%s", i, out)
	switch out {
	case "fail":
		return errVOnConnect
	case "fatal":
		return errVOnConnectFatal
	}
	return nil
}
func (ce *vConnEngine) OnConnectError(err error, d time.Duration) { ce.ev.add("onconnecterror") }
func (ce *vConnEngine) OnDoCommandError(err error, d time.Duration) {
	ce.ev.add("ondocommanderror")
}
func (ce *vConnEngine) OnDisconnected(ctx context.Context, st DisconnectStatus) {
	ce.ev.add("ondisconnected/%d/t=%d", st, ce.ms())
}
func (ce *vConnEngine) ShouldRetry(name string, err error) bool { return err == errVRetriableCmd }
func (ce *vConnEngine) ShouldRetryOnConnect(err error) bool {
	return err != errVFatalDial && err != errVOnConnectFatal
}
func (ce *vConnEngine) HandlerName() string { return "verif" }

type vZeroBackoff struct{ n int }

func (b *vZeroBackoff) NextBackOff() time.Duration { b.n++; return time.Millisecond }
func (b *vZeroBackoff) Reset()                     { b.n = 0 }

func vErrClassConn(err error) string {
	switch err {
	case nil:
		return "ok"
	case io.EOF:
		return "eof"
	case errVRetriableCmd:
		return "retriable"
	case errVOtherCmd:
		return "other"
	case errVFatalDial, errVOnConnectFatal:
		return "connect-fatal"
	case context.Canceled:
		return "ctx"
	case context.DeadlineExceeded:
		return "ctx"
	}
	return "unknown:" + strings.ReplaceAll(err.Error(), " ", "_")
}

func (ce *vConnEngine) waitFor(what string, cond func() bool) {
	deadline := time.Now().Add(5 * time.Second)
	for !cond() {
		if time.Now().After(deadline) {
			ce.ev.add("timeout/%s", what)
			return
		}
		time.Sleep(100 * time.Microsecond)
	}
}

func (ce *vConnEngine) settle() {
	last := atomic.LoadInt64(&ce.ev.n)
	stable := 0
	for i := 0; i < 4000 && stable < 30; i++ {
		time.Sleep(100 * time.Microsecond)
		n := atomic.LoadInt64(&ce.ev.n)
		if n == last {
			stable++
		} else {
			stable, last = 0, n
		}
	}
}

func vRunConn(c vCase) []string {
	ce := &vConnEngine{ev: &vEvents{}, t0: time.Now(), hang: make(chan struct{}), cmds: map[string]*vCmd{}}
	if s := c.get("dials"); s != "" && s != "-" {
		ce.dials = strings.Split(s, ",")
	}
	if s := c.get("conns"); s != "" && s != "-" {
		ce.conns = strings.Split(s, ",")
	}
	atoi := func(k string) int { n, _ := strconv.Atoi(c.get(k)); return n }
	opts := ConnectionOpts{
		DontConnectNow:      c.get("lazy") == "1",
		ReconnectBackoff:    func() backoff.BackOff { return &vZeroBackoff{} },
		CommandBackoff:      func() backoff.BackOff { return &vZeroBackoff{} },
		ForceInitialBackoff: c.get("forcebackoff") == "1",
		Protocols:           []Protocol{{Name: "vp", Methods: map[string]ServeHandlerDescription{}}},
	}
	if d := atoi("firstdelay"); d > 0 {
		opts.FirstConnectDelayDuration = time.Duration(d) * time.Millisecond
	}
	if w := atoi("window"); w > 0 || c.get("window") == "0" {
		opts.InitialReconnectBackoffWindow = func() time.Duration { return time.Duration(w) * time.Millisecond }
	}
	ce.ev.add("new/t=%d", ce.ms())
	ce.conn = NewConnectionWithTransport(ce, ce, nil, vQuietOutput{}, opts)
	for _, op := range strings.Split(c.get("script"), ";") {
		if op == "" {
			continue
		}
		f := strings.Split(op, "/")
		switch f[0] {
		case "cmd": // cmd/<id>/<outcome,outcome,...>/<firenow 0|1>[/nowait]
			id := f[1]
			outs := strings.Split(f[2], ",")
			ctx, cancel := context.WithCancel(context.Background())
			if f[3] == "1" {
				ctx = WithFireNow(ctx)
			}
			cm := &vCmd{cancel: cancel, done: make(chan struct{})}
			ce.cmu.Lock()
			ce.cmds[id] = cm
			ce.cmu.Unlock()
			ce.ev.add("cmdstart/%s/t=%d", id, ce.ms())
			go func() {
				k := 0
				err := ce.conn.DoCommand(ctx, "cmd"+id, 0, func(cli GenericClient) error {
					out := "ok"
					if k < len(outs) {
						out = outs[k]
					}
					conn := "0"
					if ce.IsConnected() {
						conn = "1"
					}
					ce.ev.add("exec/%s/%d/%s/client=%v/connected=%s", id, k, out, cli != nil, conn)
					k++
					switch out {
					case "eof":
						return io.EOF
					case "retriable":
						return errVRetriableCmd
					case "other":
						return errVOtherCmd
					}
					return nil
				})
				ce.ev.add("cmdret/%s/%s", id, vErrClassConn(err))
				close(cm.done)
			}()
			if len(f) > 4 && f[4] == "nowait" {
				continue
			}
			ce.waitFor("cmd-returns/"+id, func() bool {
				select {
				case <-cm.done:
					return true
				default:
					return false
				}
			})
		case "cancelcmd":
			ce.cmu.Lock()
			cm := ce.cmds[f[1]]
			ce.cmu.Unlock()
			if cm != nil {
				ce.ev.add("cancelcmd/%s", f[1])
				cm.cancel()
				ce.waitFor("cancelled-cmd-returns/"+f[1], func() bool {
					select {
					case <-cm.done:
						return true
					default:
						return false
					}
				})
			}
		case "awaitcmd":
			ce.cmu.Lock()
			cm := ce.cmds[f[1]]
			ce.cmu.Unlock()
			if cm != nil {
				ce.waitFor("cmd-returns/"+f[1], func() bool {
					select {
					case <-cm.done:
						return true
					default:
						return false
					}
				})
			}
		case "force": // force/<id>[/nowait]: ForceReconnect
			id := f[1]
			ctx, cancel := context.WithCancel(context.Background())
			cm := &vCmd{cancel: cancel, done: make(chan struct{})}
			ce.cmu.Lock()
			ce.cmds[id] = cm
			ce.cmu.Unlock()
			ce.ev.add("forcestart/%s", id)
			go func() {
				err := ce.conn.ForceReconnect(ctx)
				ce.ev.add("forceret/%s/%s", id, vErrClassConn(err))
				close(cm.done)
			}()
			if len(f) > 2 && f[2] == "nowait" {
				continue
			}
			ce.waitFor("force-returns/"+id, func() bool {
				select {
				case <-cm.done:
					return true
				default:
					return false
				}
			})
		case "disconnect": // the current transport dies
			ce.mu.Lock()
			x := ce.current
			ce.mu.Unlock()
			if x != nil {
				ce.ev.add("disconnect/%d", x.id)
				atomic.StoreInt32(&x.connected, 0)
			}
		case "shutdown":
			ce.ev.add("shutdown/t=%d", ce.ms())
			done := make(chan struct{})
			go func() { ce.conn.Shutdown(); close(done) }()
			ce.waitFor("shutdown-returns", func() bool {
				select {
				case <-done:
					return true
				default:
					return false
				}
			})
			ce.ev.add("shutdown-end")
		case "fastforward":
			ce.ev.add("fastforward/t=%d", ce.ms())
			ce.conn.FastForwardConnectDelayTimer()
		case "releasedial":
			select {
			case ce.hang <- struct{}{}:
			default:
			}
		case "waitdial": // waitdial/<n>: n dials have begun
			n, _ := strconv.Atoi(f[1])
			ce.waitFor("dials>="+f[1], func() bool { return ce.ev.count("dial-begin/") >= n })
		case "waitev":
			p := strings.ReplaceAll(f[1], "~", "/")
			n, _ := strconv.Atoi(f[2])
			ce.waitFor("ev:"+f[1], func() bool { return ce.ev.count(p) >= n })
		case "sleep":
			n, _ := strconv.Atoi(f[1])
			time.Sleep(time.Duration(n) * time.Millisecond)
		case "settle":
			ce.settle()
		case "isconnected":
			ce.ev.add("isconnected/%v", ce.conn.IsConnected())
		}
	}
	evs := ce.ev.snapshot()
	// teardown
	ce.cmu.Lock()
	for _, cm := range ce.cmds {
		cm.cancel()
	}
	ce.cmu.Unlock()
	go ce.conn.Shutdown()
	close(ce.hang)
	time.Sleep(2 * time.Millisecond)
	return evs
}

// white-box CancellableTimer scripts: ops start:<ms> | rstart:<window ms> | fire | wait | sleep:<ms> ; several threads
func vRunTimer(c vCase) string {
	var tm CancellableTimer
	t0 := time.Now()
	var mu sync.Mutex
	var log []string
	add := func(s string) { mu.Lock(); log = append(log, s); mu.Unlock() }
	threads := strings.Split(c.get("threads"), "|")
	var wg sync.WaitGroup
	for ti, th := range threads {
		ti, th := ti, th
		wg.Add(1)
		go func() {
			defer wg.Done()
			for oi, op := range strings.Split(th, ",") {
				f := strings.Split(op, ":")
				begin := time.Since(t0).Milliseconds()
				switch f[0] {
				case "start":
					n, _ := strconv.Atoi(f[1])
					tm.StartConstant(time.Duration(n) * time.Millisecond)
				case "rstart":
					n, _ := strconv.ParseInt(f[1], 10, 64)
					d := tm.StartRandom(time.Duration(n))
					add(fmt.Sprintf("%d.%d/rstart/%d/%d", ti, oi, n, int64(d)))
					continue
				case "fire":
					tm.FireNow()
				case "wait":
					tm.Wait()
				case "sleep":
					n, _ := strconv.Atoi(f[1])
					time.Sleep(time.Duration(n) * time.Millisecond)
				}
				add(fmt.Sprintf("%d.%d/%s/%d/%d", ti, oi, f[0], begin, time.Since(t0).Milliseconds()))
			}
		}()
	}
	done := make(chan struct{})
	go func() { wg.Wait(); close(done) }()
	select {
	case <-done:
	case <-time.After(8 * time.Second):
		add("timeout/threads-still-blocked")
	}
	mu.Lock()
	defer mu.Unlock()
	return strings.Join(log, ";")
}

func vConnCases(t *testing.T) {
	cases := vReadCases(t)
	out := vOpenOut(t)
	defer out.close()
	// timer cases take real time: run them concurrently
	var wg sync.WaitGroup
	sem := make(chan struct{}, 24)
	for _, c := range cases {
		c := c
		switch c.kind {
		case "conn":
			wg.Add(1)
			sem <- struct{}{}
			go func() {
				defer wg.Done()
				defer func() { <-sem }()
				vGuard(out, c.kind, c.id, func() {
					evs := vRunConn(c)
					out.printf("conn %s ev=%s", c.id, strings.Join(evs, ";"))
				})
			}()
		case "timer":
			wg.Add(1)
			sem <- struct{}{}
			go func() {
				defer wg.Done()
				defer func() { <-sem }()
				vGuard(out, c.kind, c.id, func() {
					out.printf("timer %s log=%s", c.id, vRunTimer(c))
				})
			}()
		}
	}
	wg.Wait()
}

func TestVerifC14(t *testing.T) { vConnCases(t) }
func TestVerifC15(t *testing.T) { vConnCases(t) }
func TestVerifC16(t *testing.T) { vConnCases(t) }
