//go:build verif

package rpc

// Connection engine: a Connection driven by a scripted ConnectionTransport and ConnectionHandler.
// Serves C14, C15 and the connection-level part of C16.

import (
	"bytes"
	"errors"
	"fmt"
	"io"
	"net"
	"os"
	"runtime"
	"strconv"
	"strings"
	"sync"
	"sync/atomic"
	"syscall"
	"testing"
	"time"

	"github.com/keybase/backoff"
	"golang.org/x/net/context"
)

// a Transporter that is nothing but a connected flag
type vFakeXp struct {
	id        int
	connected int32
	ce        *vConnEngine
	protos    []string
}

func (x *vFakeXp) IsConnected() bool { return atomic.LoadInt32(&x.connected) == 1 }
func (x *vFakeXp) registerProtocol(p Protocol) error {
	x.protos = append(x.protos, p.Name)
	x.ce.ev.add("register/%d/%s", x.id, vHexS(p.Name))
	return nil
}
func (x *vFakeXp) getDispatcher() (dispatcher, error) { return nil, io.EOF }
func (x *vFakeXp) getReceiver() (receiver, error)     { return nil, io.EOF }
func (x *vFakeXp) receiveFrames() <-chan struct{}     { return nil }
func (x *vFakeXp) done() <-chan struct{}              { return nil }
func (x *vFakeXp) err() error                         { return nil }
func (x *vFakeXp) Close() {
	if atomic.SwapInt32(&x.connected, 0) == 1 {
		x.ce.ev.add("xpclose/%d", x.id)
	}
}

var errVRetriableDial = errors.New("verif: dial failed (retriable)")
var errVFatalDial = errors.New("verif: dial failed (fatal)")
var errVOnConnect = errors.New("verif: OnConnect failed (retriable)")
var errVOnConnectFatal = errors.New("verif: OnConnect failed (fatal)")

type vRetriableErr struct{ id string }

func (e vRetriableErr) Error() string { return "verif: command " + e.id + " failed (retriable)" }

func vGoID() int64 {
	var buf [64]byte
	n := runtime.Stack(buf[:], false)
	f := bytes.Fields(buf[:n])
	if len(f) < 2 {
		return -1
	}
	id, _ := strconv.ParseInt(string(f[1]), 10, 64)
	return id
}

// a context that reports when the connection looks at its fire-now marker and when it starts to wait on it
type vSpyCtx struct {
	context.Context
	ce      *vConnEngine
	id      string
	firenow bool
}

func (c *vSpyCtx) Value(key interface{}) interface{} {
	if _, ok := key.(CtxFireNow); ok {
		if c.firenow {
			c.ce.ev.add("firenow/%s/t=%d", c.id, c.ce.ms())
			return true
		}
		return nil
	}
	return c.Context.Value(key)
}

// structured connection log: the messages that mark the connect delay and the start of a wait
type vConnLog struct{ ce *vConnEngine }

func (l vConnLog) Warning(string, ...LogField) {}
func (l vConnLog) Info(string, ...LogField)    {}
func (l vConnLog) Debug(format string, fields ...LogField) {
	if len(fields) == 0 || fields[0].Key != ConnectionLogMsgKey {
		return
	}
	msg, _ := fields[0].Value.(string)
	switch msg {
	case "initial connect backoff", "initial reconnect backoff":
		d := int64(-1)
		if len(fields) > 1 {
			if dd, ok := fields[1].Value.(time.Duration); ok {
				d = int64(dd)
			}
		}
		l.ce.ev.add("timerstart/d=%d/t=%d", d, l.ce.ms())
	case "initial connect backoff done", "initial reconnect backoff done":
		l.ce.ev.add("delaydone/t=%d", l.ce.ms())
	case "getReconnectChan":
		// logged inside waitForConnection's critical section (under the connection mutex) by a caller that is not
		// connected or forces a reconnect: the exact moment at which it joins or starts a sequence
		l.ce.wmu.Lock()
		w, ok := l.ce.goCmd[vGoID()]
		l.ce.wmu.Unlock()
		if ok && l.ce.conn != nil {
			st := 1
			if l.ce.conn.reconnectChan == nil {
				st = 9 // it starts the sequence itself
			}
			l.ce.ev.add("waiting/%s/firenow=%v/status=%d/t=%d", w.id, w.firenow && l.ce.delayConfigured, st, l.ce.ms())
		}
	}
}

var errVOtherCmd = errors.New("verif: command failed (other)")

// a command error that is NOT io.EOF but wraps it (errors.Is(err, io.EOF) holds, err == io.EOF does not): the property
// retries "if it fails with io.EOF"; any other outcome goes back to the caller unchanged
var errVOtherWrapsEOF = fmt.Errorf("verif: command failed (other): %w", io.EOF)

type vConnEngine struct {
	ev              *vEvents
	t0              time.Time
	mu              sync.Mutex
	dials           []string // outcomes consumed by successive Dial calls: ok | fail | fatal | hang
	conns           []string // outcomes consumed by successive OnConnect calls: ok | fail | fatal
	nd              int
	nc              int
	staged          *vFakeXp
	current         *vFakeXp
	nxp             int
	inDial          int32
	hang            chan struct{}
	conn            *Connection
	cmds            map[string]*vCmd
	cmu             sync.Mutex
	holdNext        int32
	holdConn        int32
	connHang        chan struct{}
	holdDisc        int32
	discHang        chan struct{}
	shutdownIn      string // callback from which the application calls Shutdown (case option shutdownin=)
	shutdownArmed   int32
	climu           sync.Mutex
	clients         []vCliState
	wmu             sync.Mutex
	goCmd           map[int64]vGoCmd
	delayConfigured bool
}

type vCliState struct {
	cli   GenericClient
	state string // pending | ok | failed
}

type vGoCmd struct {
	id      string
	firenow bool
}

type vCmd struct {
	cancel context.CancelFunc
	done   chan struct{}
}

func (ce *vConnEngine) ms() int64 { return time.Since(ce.t0).Milliseconds() }

// --- ConnectionTransport
func (ce *vConnEngine) Dial(ctx context.Context) (Transporter, error) {
	n := atomic.AddInt32(&ce.inDial, 1)
	ce.mu.Lock()
	i := ce.nd
	ce.nd++
	out := "ok"
	if i < len(ce.dials) {
		out = ce.dials[i]
	}
	ce.mu.Unlock()
	ce.ev.add("dial-begin/%d/inprogress=%d/t=%d", i, n, ce.ms())
	defer atomic.AddInt32(&ce.inDial, -1)
	if atomic.CompareAndSwapInt32(&ce.holdNext, 1, 0) {
		select {
		case <-ce.hang:
		case <-time.After(8 * time.Second):
			ce.ev.add("timeout/held-dial-never-released")
		}
	}
	switch out {
	case "hang":
		select {
		case <-ce.hang:
		case <-ctx.Done():
		case <-time.After(8 * time.Second):
		}
		ce.ev.add("dial-end/%d/fail", i)
		return nil, errVRetriableDial
	case "fail":
		ce.ev.add("dial-end/%d/fail", i)
		return nil, errVRetriableDial
	case "dns", "opdns", "timeout", "refused":
		// failure classes a real dialer produces; each is one failed attempt like any other
		ce.ev.add("dial-end/%d/fail", i)
		var e error = &net.DNSError{Err: "no such host", Name: "verif.invalid", IsNotFound: true}
		switch out {
		case "opdns":
			e = &net.OpError{Op: "dial", Net: "tcp", Err: e}
		case "timeout":
			e = &net.OpError{Op: "dial", Net: "tcp", Err: os.ErrDeadlineExceeded}
		case "refused":
			e = &net.OpError{Op: "dial", Net: "tcp", Err: syscall.ECONNREFUSED}
		}
		return nil, e
	case "fatal":
		ce.ev.add("dial-end/%d/fatal", i)
		return nil, errVFatalDial
	}
	ce.mu.Lock()
	ce.nxp++
	x := &vFakeXp{id: ce.nxp, connected: 1, ce: ce}
	if ce.staged != nil {
		ce.staged.Close()
	}
	ce.staged = x
	ce.mu.Unlock()
	ce.ev.add("dial-end/%d/ok/%d", i, x.id)
	return x, nil
}
func (ce *vConnEngine) IsConnected() bool {
	ce.mu.Lock()
	defer ce.mu.Unlock()
	return ce.current != nil && ce.current.IsConnected()
}
func (ce *vConnEngine) Finalize() {
	ce.mu.Lock()
	if ce.current != nil {
		ce.current.Close()
	}
	ce.current = ce.staged
	ce.staged = nil
	id := 0
	if ce.current != nil {
		id = ce.current.id
	}
	ce.mu.Unlock()
	ce.ev.add("finalize/%d", id)
}
func (ce *vConnEngine) Close() {
	ce.ev.add("ctclose")
	ce.mu.Lock()
	if ce.current != nil {
		ce.current.Close()
	}
	if ce.staged != nil {
		ce.staged.Close()
	}
	ce.mu.Unlock()
}

// --- ConnectionHandler
func (ce *vConnEngine) OnConnect(ctx context.Context, c *Connection, cli GenericClient, srv *Server) error {
	ce.mu.Lock()
	i := ce.nc
	ce.nc++
	out := "ok"
	if i < len(ce.conns) {
		out = ce.conns[i]
	}
	ce.mu.Unlock()
	ce.climu.Lock()
	ce.clients = append(ce.clients, vCliState{cli, "pending"})
	ci := len(ce.clients) - 1
	ce.climu.Unlock()
	if atomic.CompareAndSwapInt32(&ce.holdConn, 1, 0) {
		ce.ev.add("onconnect-held/%d", i)
		select {
		case <-ce.connHang:
		case <-time.After(8 * time.Second):
			ce.ev.add("timeout/held-onconnect-never-released")
		}
	}
	ce.ev.add("onconnect/%d/%s", i, out)
	ce.shutdownFrom("onconnect")
	setState := func(st string) {
		ce.climu.Lock()
		ce.clients[ci].state = st
		ce.climu.Unlock()
	}
	switch out {
	case "fail":
		setState("failed")
		return errVOnConnect
	case "fatal":
		setState("failed")
		return errVOnConnectFatal
	}
	setState("ok")
	return nil
}

func (ce *vConnEngine) clientState(cli GenericClient) string {
	ce.climu.Lock()
	defer ce.climu.Unlock()
	for _, c := range ce.clients {
		if c.cli == cli {
			return c.state
		}
	}
	return "unknown"
}
func (ce *vConnEngine) OnConnectError(err error, d time.Duration) {
	ce.ev.add("onconnecterror/d=%d/t=%d", int64(d), ce.ms())
	ce.shutdownFrom("onconnecterror")
}
func (ce *vConnEngine) OnDoCommandError(err error, d time.Duration) {
	if e, ok := err.(vRetriableErr); ok {
		ce.ev.add("ondocommanderror/%s/d=%d/t=%d", e.id, int64(d), ce.ms())
	} else {
		ce.ev.add("ondocommanderror/?")
	}
}

// shutdownFrom: the application shuts the Connection down from inside one of the sequence's own callbacks (once)
func (ce *vConnEngine) shutdownFrom(cb string) {
	if ce.shutdownIn == cb && atomic.CompareAndSwapInt32(&ce.shutdownArmed, 1, 0) {
		ce.ev.add("shutdown/t=%d", ce.ms())
		done := make(chan struct{})
		go func() {
			select {
			case <-done:
			case <-time.After(5 * time.Second):
				ce.ev.add("timeout/shutdown-from-callback-never-returned")
			}
		}()
		ce.conn.Shutdown()
		close(done)
		ce.ev.add("shutdown-end")
	}
}

func (ce *vConnEngine) OnDisconnected(ctx context.Context, st DisconnectStatus) {
	ce.ev.add("ondisconnected/%d/t=%d", st, ce.ms())
	ce.shutdownFrom("ondisconnected")
	if atomic.CompareAndSwapInt32(&ce.holdDisc, 1, 0) {
		// a handler that is slow to return from the announcement
		ce.ev.add("ondisconnected-held")
		select {
		case <-ce.discHang:
		case <-time.After(8 * time.Second):
			ce.ev.add("timeout/held-ondisconnected-never-released")
		}
	}
}
func (ce *vConnEngine) ShouldRetry(name string, err error) bool {
	_, ok := err.(vRetriableErr)
	return ok
}
func (ce *vConnEngine) ShouldRetryOnConnect(err error) bool {
	return err != errVFatalDial && err != errVOnConnectFatal
}
func (ce *vConnEngine) HandlerName() string { return "verif" }

type vZeroBackoff struct {
	n int
	d time.Duration
}

func (b *vZeroBackoff) NextBackOff() time.Duration {
	b.n++
	if b.d > 0 {
		return b.d
	}
	return time.Millisecond
}
func (b *vZeroBackoff) Reset() { b.n = 0 }

func vErrClassConn(err error) string {
	switch err {
	case nil:
		return "ok"
	case io.EOF:
		return "eof"
	case errVOtherCmd, errVOtherWrapsEOF:
		return "other"
	case errVFatalDial, errVOnConnectFatal:
		return "connect-fatal"
	case context.Canceled:
		return "ctx"
	case context.DeadlineExceeded:
		return "ctx"
	}
	if _, ok := err.(vRetriableErr); ok {
		return "retriable"
	}
	return "unknown:" + strings.ReplaceAll(err.Error(), " ", "_")
}

func (ce *vConnEngine) waitFor(what string, cond func() bool) {
	deadline := time.Now().Add(5 * time.Second)
	for !cond() {
		if time.Now().After(deadline) {
			ce.ev.add("timeout/%s", what)
			return
		}
		time.Sleep(100 * time.Microsecond)
	}
}

func (ce *vConnEngine) settle() {
	last := atomic.LoadInt64(&ce.ev.n)
	stable := 0
	for i := 0; i < 4000 && stable < 30; i++ {
		time.Sleep(100 * time.Microsecond)
		n := atomic.LoadInt64(&ce.ev.n)
		if n == last {
			stable++
		} else {
			stable, last = 0, n
		}
	}
}

func vRunConn(c vCase) []string {
	ce := &vConnEngine{ev: &vEvents{}, t0: time.Now(), hang: make(chan struct{}, 1), connHang: make(chan struct{}, 1), discHang: make(chan struct{}, 1), cmds: map[string]*vCmd{}, goCmd: map[int64]vGoCmd{}}
	if s := c.get("dials"); s != "" && s != "-" {
		ce.dials = strings.Split(s, ",")
	}
	if s := c.get("conns"); s != "" && s != "-" {
		ce.conns = strings.Split(s, ",")
	}
	atoi := func(k string) int { n, _ := strconv.Atoi(c.get(k)); return n }
	opts := ConnectionOpts{
		DontConnectNow:      c.get("lazy") == "1",
		ReconnectBackoff:    func() backoff.BackOff { return &vZeroBackoff{d: time.Duration(atoi("backoff")) * time.Millisecond} },
		CommandBackoff:      func() backoff.BackOff { return &vZeroBackoff{d: time.Duration(atoi("cmdbackoff")) * time.Millisecond} },
		ForceInitialBackoff: c.get("forcebackoff") == "1",
		Protocols:           []Protocol{{Name: "vp", Methods: map[string]ServeHandlerDescription{}}},
	}
	if d := atoi("firstdelay"); d > 0 {
		opts.FirstConnectDelayDuration = time.Duration(d) * time.Millisecond
	}
	// options that only the built-in TLS transport's dialer consumes: with a scripted transport they must change nothing
	if d := atoi("dialertimeout"); d > 0 {
		opts.DialerTimeout = time.Duration(d) * time.Millisecond
	}
	if d := atoi("handshaketimeout"); d > 0 {
		opts.HandshakeTimeout = time.Duration(d) * time.Millisecond
	}
	if w := atoi("window"); w > 0 || c.get("window") == "0" {
		opts.InitialReconnectBackoffWindow = func() time.Duration { return time.Duration(w) * time.Millisecond }
	}
	ce.delayConfigured = opts.FirstConnectDelayDuration != 0 || opts.InitialReconnectBackoffWindow != nil
	if cb := c.get("shutdownin"); cb != "" {
		ce.shutdownIn, ce.shutdownArmed = cb, 1
	}
	ce.ev.add("new/lazy=%v/force=%v/t=%d", opts.DontConnectNow, opts.ForceInitialBackoff, ce.ms())
	ce.conn = newConnectionWithTransportAndProtocolsWithLog(ce, ce, nil, vConnLog{ce}, opts)
	for _, op := range strings.Split(c.get("script"), ";") {
		if op == "" {
			continue
		}
		f := strings.Split(op, "/")
		switch f[0] {
		case "cmd": // cmd/<id>/<outcome,outcome,...>/<firenow 0|1>[/nowait]
			id := f[1]
			outs := strings.Split(f[2], ",")
			bctx, cancel := context.WithCancel(context.Background())
			var ctx context.Context = &vSpyCtx{Context: bctx, ce: ce, id: id, firenow: f[3] == "1"}
			cm := &vCmd{cancel: cancel, done: make(chan struct{})}
			ce.cmu.Lock()
			ce.cmds[id] = cm
			ce.cmu.Unlock()
			ce.ev.add("cmdstart/%s/force=false/firenow=%v/t=%d", id, f[3] == "1", ce.ms())
			go func() {
				ce.wmu.Lock()
				ce.goCmd[vGoID()] = vGoCmd{id, f[3] == "1"}
				ce.wmu.Unlock()
				k := 0
				err := ce.conn.DoCommand(ctx, "cmd"+id, 0, func(cli GenericClient) error {
					out := "ok"
					if k < len(outs) {
						out = outs[k]
					}
					conn := "0"
					if ce.IsConnected() {
						conn = "1"
					}
					ce.ev.add("exec/%s/%d/%s/client=%v/connected=%s/cstate=%s/t=%d", id, k, out, cli != nil, conn, ce.clientState(cli), ce.ms())
					k++
					switch out {
					case "eof":
						return io.EOF
					case "eofdisc":
						ce.mu.Lock()
						x := ce.current
						ce.mu.Unlock()
						if x != nil {
							atomic.StoreInt32(&x.connected, 0)
						}
						return io.EOF
					case "retriable":
						return vRetriableErr{id}
					case "other":
						if n, e := strconv.Atoi(id); e == nil && n%2 == 1 {
							return errVOtherWrapsEOF
						}
						return errVOtherCmd
					}
					return nil
				})
				ce.ev.add("cmdret/%s/%s", id, vErrClassConn(err))
				close(cm.done)
			}()
			if len(f) > 4 && f[4] == "nowait" {
				continue
			}
			ce.waitFor("cmd-returns/"+id, func() bool {
				select {
				case <-cm.done:
					return true
				default:
					return false
				}
			})
		case "cancelcmd":
			ce.cmu.Lock()
			cm := ce.cmds[f[1]]
			ce.cmu.Unlock()
			if cm != nil {
				ce.ev.add("cancelcmd/%s", f[1])
				cm.cancel()
				ce.waitFor("cancelled-cmd-returns/"+f[1], func() bool {
					select {
					case <-cm.done:
						return true
					default:
						return false
					}
				})
			}
		case "awaitcmd":
			ce.cmu.Lock()
			cm := ce.cmds[f[1]]
			ce.cmu.Unlock()
			if cm != nil {
				ce.waitFor("cmd-returns/"+f[1], func() bool {
					select {
					case <-cm.done:
						return true
					default:
						return false
					}
				})
			}
		case "force": // force/<id>[/nowait]: ForceReconnect
			id := f[1]
			bctx, cancel := context.WithCancel(context.Background())
			var ctx context.Context = &vSpyCtx{Context: bctx, ce: ce, id: id}
			cm := &vCmd{cancel: cancel, done: make(chan struct{})}
			ce.cmu.Lock()
			ce.cmds[id] = cm
			ce.cmu.Unlock()
			ce.ev.add("cmdstart/%s/force=true/firenow=false/t=%d", id, ce.ms())
			go func() {
				ce.wmu.Lock()
				ce.goCmd[vGoID()] = vGoCmd{id, false}
				ce.wmu.Unlock()
				err := ce.conn.ForceReconnect(ctx)
				ce.ev.add("cmdret/%s/%s", id, vErrClassConn(err))
				close(cm.done)
			}()
			if len(f) > 2 && f[2] == "nowait" {
				continue
			}
			ce.waitFor("force-returns/"+id, func() bool {
				select {
				case <-cm.done:
					return true
				default:
					return false
				}
			})
		case "disconnect": // the current transport dies
			ce.mu.Lock()
			x := ce.current
			ce.mu.Unlock()
			if x != nil {
				ce.ev.add("disconnect/%d", x.id)
				atomic.StoreInt32(&x.connected, 0)
			}
		case "shutdown":
			ce.ev.add("shutdown/t=%d", ce.ms())
			done := make(chan struct{})
			go func() { ce.conn.Shutdown(); close(done) }()
			ce.waitFor("shutdown-returns", func() bool {
				select {
				case <-done:
					return true
				default:
					return false
				}
			})
			ce.ev.add("shutdown-end")
		case "fastforward":
			ce.ev.add("fastforward/t=%d", ce.ms())
			ce.conn.FastForwardConnectDelayTimer()
		case "holdconnect":
			select {
			case <-ce.connHang:
			default:
			}
			atomic.StoreInt32(&ce.holdConn, 1)
		case "releaseconnect":
			atomic.StoreInt32(&ce.holdConn, 0)
			select {
			case ce.connHang <- struct{}{}:
			default:
			}
		case "holddisc":
			select {
			case <-ce.discHang:
			default:
			}
			atomic.StoreInt32(&ce.holdDisc, 1)
		case "releasedisc":
			atomic.StoreInt32(&ce.holdDisc, 0)
			select {
			case ce.discHang <- struct{}{}:
			default:
			}
		case "holddial":
			// (the release channels hold one token: a release that arrives after the held party took the flag and before it
			// reaches its receive must not be lost; a stale token is drained here)
			select {
			case <-ce.hang:
			default:
			}
			atomic.StoreInt32(&ce.holdNext, 1)
		case "waitdelay": // waitdelay/<n>: n connect delays have ended
			n, _ := strconv.Atoi(f[1])
			ce.waitFor("delays>="+f[1], func() bool { return ce.ev.count("delaydone/") >= n })
		case "releasedial":
			atomic.StoreInt32(&ce.holdNext, 0)
			select {
			case ce.hang <- struct{}{}:
			default:
			}
		case "waitdial": // waitdial/<n>: n dials have begun
			n, _ := strconv.Atoi(f[1])
			ce.waitFor("dials>="+f[1], func() bool { return ce.ev.count("dial-begin/") >= n })
		case "waitev":
			p := strings.ReplaceAll(f[1], "~", "/")
			n, _ := strconv.Atoi(f[2])
			ce.waitFor("ev:"+f[1], func() bool { return ce.ev.count(p) >= n })
		case "sleep":
			n, _ := strconv.Atoi(f[1])
			time.Sleep(time.Duration(n) * time.Millisecond)
		case "settle":
			ce.settle()
		case "longsettle": // longsettle/<ms>: no event for that long (lets a connect delay run out)
			n, _ := strconv.Atoi(f[1])
			last := atomic.LoadInt64(&ce.ev.n)
			since := time.Now()
			for time.Since(since) < time.Duration(n)*time.Millisecond {
				time.Sleep(500 * time.Microsecond)
				if m := atomic.LoadInt64(&ce.ev.n); m != last {
					last, since = m, time.Now()
				}
			}
		case "awaitall":
			ce.cmu.Lock()
			all := make([]*vCmd, 0, len(ce.cmds))
			for _, cm := range ce.cmds {
				all = append(all, cm)
			}
			ce.cmu.Unlock()
			ce.waitFor("all-commands-return", func() bool {
				for _, cm := range all {
					select {
					case <-cm.done:
					default:
						return false
					}
				}
				return true
			})
		case "isconnected":
			ce.ev.add("isconnected/%v", ce.conn.IsConnected())
		}
	}
	evs := ce.ev.snapshot()
	// teardown
	ce.cmu.Lock()
	for _, cm := range ce.cmds {
		cm.cancel()
	}
	ce.cmu.Unlock()
	go ce.conn.Shutdown()
	close(ce.hang)
	close(ce.connHang)
	close(ce.discHang)
	time.Sleep(2 * time.Millisecond)
	return evs
}

// white-box CancellableTimer scripts: ops start:<ms> | rstart:<window ms> | fire | wait | sleep:<ms> ; several threads
func vRunTimer(c vCase) string {
	var tm CancellableTimer
	t0 := time.Now()
	var mu sync.Mutex
	var log []string
	add := func(s string) { mu.Lock(); log = append(log, s); mu.Unlock() }
	threads := strings.Split(c.get("threads"), "|")
	var wg sync.WaitGroup
	for ti, th := range threads {
		ti, th := ti, th
		wg.Add(1)
		go func() {
			defer wg.Done()
			for oi, op := range strings.Split(th, ",") {
				f := strings.Split(op, ":")
				begin := time.Since(t0).Milliseconds()
				switch f[0] {
				case "start":
					n, _ := strconv.Atoi(f[1])
					tm.StartConstant(time.Duration(n) * time.Millisecond)
				case "rstart":
					n, _ := strconv.ParseInt(f[1], 10, 64)
					d := tm.StartRandom(time.Duration(n))
					add(fmt.Sprintf("%d.%d/rstart/%d/%d", ti, oi, n, int64(d)))
					continue
				case "fire":
					tm.FireNow()
				case "wait":
					tm.Wait()
				case "sleep":
					n, _ := strconv.Atoi(f[1])
					time.Sleep(time.Duration(n) * time.Millisecond)
				}
				add(fmt.Sprintf("%d.%d/%s/%d/%d", ti, oi, f[0], begin, time.Since(t0).Milliseconds()))
			}
		}()
	}
	done := make(chan struct{})
	go func() { wg.Wait(); close(done) }()
	select {
	case <-done:
	case <-time.After(8 * time.Second):
		add("timeout/threads-still-blocked")
	}
	mu.Lock()
	defer mu.Unlock()
	return strings.Join(log, ";")
}

func vConnCases(t *testing.T) {
	cases := vReadCases(t)
	out := vOpenOut(t)
	defer out.close()
	// timer cases take real time: run them concurrently
	var wg sync.WaitGroup
	sem := make(chan struct{}, 24)
	for _, c := range cases {
		c := c
		switch c.kind {
		case "conn":
			wg.Add(1)
			sem <- struct{}{}
			go func() {
				defer wg.Done()
				defer func() { <-sem }()
				vGuard(out, c.kind, c.id, func() {
					evs := vRunConn(c)
					out.printf("conn %s ev=%s", c.id, strings.Join(evs, ";"))
				})
			}()
		case "slowdial":
			vGuard(out, c.kind, c.id, func() { out.printf("slowdial %s %s", c.id, vRunSlowDial(c)) })
		case "ctrans":
			vGuard(out, c.kind, c.id, func() {
				mk := func(d *vScriptDialable) ConnectionTransport {
					uri, _ := ParseFMPURI("fmprpc://srv.test:443")
					return NewConnectionTransportWithDialable(uri, NewSimpleLogFactory(vQuietOutput{}, vQuietOpts{}), nil, nil, 1<<20, d)
				}
				if c.get("kind") == "tls" {
					mk = vMkTLSCTrans
				}
				out.printf("ctrans %s views=%s", c.id, vRunCTrans(c, mk, nil))
			})
		case "timer":
			wg.Add(1)
			sem <- struct{}{}
			go func() {
				defer wg.Done()
				defer func() { <-sem }()
				vGuard(out, c.kind, c.id, func() {
					out.printf("timer %s log=%s", c.id, vRunTimer(c))
				})
			}()
		}
	}
	wg.Wait()
}

func TestVerifC14(t *testing.T) { vConnCases(t) }

// vHeldDialable: a Dialable whose Dial does not return until released (a network that takes its time)
type vHeldDialable struct {
	gate    chan struct{}
	entered chan struct{}
	once    sync.Once
}

func (d *vHeldDialable) SetOpts(time.Duration, time.Duration) {}
func (d *vHeldDialable) Dial(ctx context.Context, network, addr string) (net.Conn, error) {
	d.once.Do(func() { close(d.entered) })
	select {
	case <-d.gate:
	case <-time.After(8 * time.Second):
	}
	return nil, errVRetriableDial
}

// vRunSlowDial: a Connection over one of the BUILT-IN connection transports (plain or TLS) whose dial is slow; a command that
// started the sequence and a command submitted during the dial both have their contexts end: each must return promptly
// with its context's error, and IsConnected must answer meanwhile.
func vRunSlowDial(c vCase) string {
	d := &vHeldDialable{gate: make(chan struct{}), entered: make(chan struct{})}
	h := &vConnEngine{ev: &vEvents{}, t0: time.Now(), cmds: map[string]*vCmd{}, goCmd: map[int64]vGoCmd{}}
	opts := ConnectionOpts{DontConnectNow: true}
	lf := NewSimpleLogFactory(vQuietOutput{}, vQuietOpts{})
	var conn *Connection
	if c.get("kind") == "tls" {
		p := vMakePKI()
		conn = NewTLSConnectionWithDialable(NewFixedRemote("srv.test:443"), p.caPEM["ca1"], nil, h, lf, nil, vQuietOutput{}, 1<<20, opts, d)
	} else {
		uri, _ := ParseFMPURI("fmprpc://srv.test:443")
		conn = NewConnectionWithTransport(h, NewConnectionTransportWithDialable(uri, lf, nil, nil, 1<<20, d), nil, vQuietOutput{}, opts)
	}
	h.conn = conn
	type res struct {
		cls string
		ms  int64
	}
	run := func(how string) chan res {
		ch := make(chan res, 1)
		go func() {
			ctx, cancel := context.WithCancel(context.Background())
			if how == "timeout" {
				ctx, cancel = context.WithTimeout(context.Background(), 40*time.Millisecond)
			} else {
				time.AfterFunc(40*time.Millisecond, cancel)
			}
			defer cancel()
			t0 := time.Now()
			err := conn.DoCommand(ctx, "verif", 0, func(GenericClient) error { return nil })
			ch <- res{vErrClassConn(err), time.Since(t0).Milliseconds()}
		}()
		return ch
	}
	a := run(c.get("how"))
	select {
	case <-d.entered:
	case <-time.After(3 * time.Second):
	}
	time.Sleep(5 * time.Millisecond)
	b := run(c.get("how"))
	t0 := time.Now()
	icDone := make(chan struct{})
	go func() { conn.IsConnected(); close(icDone) }()
	get := func(ch chan res) res {
		select {
		case r := <-ch:
			return r
		case <-time.After(3 * time.Second):
			return res{"blocked", 3000}
		}
	}
	ra, rb := get(a), get(b)
	icms := int64(-1)
	select {
	case <-icDone:
		icms = time.Since(t0).Milliseconds()
	case <-time.After(2 * time.Second):
	}
	close(d.gate)
	done := make(chan struct{})
	go func() { conn.Shutdown(); close(done) }()
	select {
	case <-done:
	case <-time.After(3 * time.Second):
	}
	return fmt.Sprintf("a=%s ams=%d b=%s bms=%d isconnectedms=%d", ra.cls, ra.ms, rb.cls, rb.ms, icms)
}

func TestVerifC15(t *testing.T) { vConnCases(t) }
func TestVerifC16(t *testing.T) { vConnCases(t) }

// ---------------------------------------------------------------- the built-in connection transports

type vTrackedConn struct {
	net.Conn
	closed int32
}

func (c *vTrackedConn) Close() error {
	atomic.StoreInt32(&c.closed, 1)
	return c.Conn.Close()
}

type vScriptDialable struct {
	mu    sync.Mutex
	next  []bool // outcomes of the coming Dial calls
	conns []*vTrackedConn
	wrap  func(server net.Conn) // what the far end does with its side
	tcp   bool
}

func (d *vScriptDialable) SetOpts(time.Duration, time.Duration) {}
func (d *vScriptDialable) Dial(ctx context.Context, network, addr string) (net.Conn, error) {
	d.mu.Lock()
	defer d.mu.Unlock()
	ok := true
	if len(d.next) > 0 {
		ok, d.next = d.next[0], d.next[1:]
	}
	if !ok {
		return nil, errVRetriableDial
	}
	var cl, srv net.Conn
	if d.tcp {
		// a real loopback connection: TLS alerts need the kernel's buffering (both ends may be writing at once)
		ln, err := net.Listen("tcp", "127.0.0.1:0")
		if err != nil {
			return nil, err
		}
		acc := make(chan net.Conn, 1)
		go func() {
			c, _ := ln.Accept()
			acc <- c
			ln.Close()
		}()
		cl, err = net.Dial("tcp", ln.Addr().String())
		if err != nil {
			ln.Close()
			return nil, err
		}
		srv = <-acc
		if srv == nil {
			cl.Close()
			return nil, errVRetriableDial
		}
	} else {
		cl, srv = net.Pipe()
	}
	c := &vTrackedConn{Conn: cl}
	d.conns = append(d.conns, c)
	if d.wrap != nil {
		w := d.wrap
		go w(srv)
	} else {
		go func() { _, _ = io.Copy(io.Discard, srv); srv.Close() }()
	}
	return c, nil
}

func vRunCTrans(c vCase, mk func(d *vScriptDialable) ConnectionTransport, wrap func(net.Conn)) string {
	d := &vScriptDialable{wrap: wrap}
	ct := mk(d)
	var xps []Transporter
	var views []string
	for _, op := range strings.Split(c.get("ops"), ",") {
		res := "ok"
		func() {
			defer func() {
				if r := recover(); r != nil {
					res = "panic:" + strings.ReplaceAll(fmt.Sprint(r), " ", "_")
				}
			}()
			switch op {
			case "dialok", "dialfail":
				d.mu.Lock()
				d.next = []bool{op == "dialok"}
				d.mu.Unlock()
				x, err := ct.Dial(context.Background())
				if err == nil {
					xps = append(xps, x)
				} else if op == "dialok" {
					res = "dialerr:" + strings.ReplaceAll(err.Error(), " ", "_")
				}
			case "finalize":
				ct.Finalize()
			case "close":
				ct.Close()
			}
		}()
		time.Sleep(200 * time.Microsecond)
		var v []string
		d.mu.Lock()
		for i, x := range xps {
			co := "?"
			if i < len(d.conns) {
				co = fmt.Sprint(atomic.LoadInt32(&d.conns[i].closed) == 0)
			}
			v = append(v, fmt.Sprintf("%d:%v:%s", i+1, x.IsConnected(), co))
		}
		d.mu.Unlock()
		views = append(views, op+"="+res+"="+strings.Join(v, ","))
	}
	// teardown
	func() {
		defer func() { _ = recover() }()
		ct.Close()
	}()
	for _, x := range xps {
		x.Close()
	}
	return strings.Join(views, "|")
}
