//go:build verif

package rpc

import (
	"strconv"
	"strings"
	"testing"
	"time"

	"golang.org/x/net/context"
)

// TestVerifC19: derivation trees of contexts with external map mutation (white-box free: only the public functions
// AddRPCTagsToContext / TagsFromContext are used), and tags travelling through the engine.
func TestVerifC19(t *testing.T) {
	cases := vReadCases(t)
	out := vOpenOut(t)
	defer out.close()
	for _, c := range cases {
		c := c
		switch c.kind {
		case "scn":
			vGuard(out, c.kind, c.id, func() {
				evs := vInflateEvents(vRunScenario(c))
				out.printf("scn %s ev=%s", c.id, strings.Join(evs, ";"))
			})
		case "tags":
			vGuard(out, c.kind, c.id, func() {
				ctxs := []context.Context{context.Background()}
				var maps []CtxRPCTags
				var views []string
				for _, op := range strings.Split(c.get("ops"), ";") {
					f := strings.Split(op, ":")
					switch f[0] {
					case "new":
						m := vTags(strings.Join(f[1:], ":"))
						if m == nil {
							m = CtxRPCTags{}
						}
						maps = append(maps, m)
					case "add":
						ci, _ := strconv.Atoi(f[1])
						mi, _ := strconv.Atoi(f[2])
						if ci < len(ctxs) && mi < len(maps) {
							ctxs = append(ctxs, AddRPCTagsToContext(ctxs[ci], maps[mi]))
						}
					case "read":
						ci, _ := strconv.Atoi(f[1])
						if ci < len(ctxs) {
							if m, ok := TagsFromContext(ctxs[ci]); ok {
								maps = append(maps, m)
							}
						}
					case "der": // der:<ctx>:<v|c|t|f> : any other derivation - a value, a cancel function, a deadline, the fire-now marker
						ci, _ := strconv.Atoi(f[1])
						if ci < len(ctxs) {
							var nc context.Context
							switch f[2] {
							case "v":
								nc = context.WithValue(ctxs[ci], vCtxKey("verif-other"), len(ctxs))
							case "c":
								nc, _ = context.WithCancel(ctxs[ci])
							case "t":
								nc, _ = context.WithTimeout(ctxs[ci], time.Hour)
							default:
								nc = WithFireNow(ctxs[ci])
							}
							ctxs = append(ctxs, nc)
						}
					case "mut":
						mi, _ := strconv.Atoi(f[1])
						if mi < len(maps) {
							maps[mi][string(vUnhex(f[2]))] = vParse(strings.Join(f[3:], ":"))
						}
					}
					var vs []string
					for _, cx := range ctxs {
						vs = append(vs, vTagsOf(cx))
					}
					views = append(views, strings.Join(vs, "|"))
				}
				out.printf("tags %s views=%s", c.id, strings.Join(views, ";"))
			})
		}
		out.flush()
	}
}
