//go:build verif

package rpc

// Common plumbing of the verification harness: case files in, observation lines out.
// This file is laid over the package at check time (go test -overlay); nothing here is
// committed to the repository.

import (
	"bufio"
	"encoding/hex"
	"fmt"
	"os"
	"strings"
	"sync"
	"testing"
)

type vCase struct {
	kind string
	id   string
	kv   map[string]string
	raw  string
}

func (c vCase) get(k string) string { return c.kv[k] }

func vReadCases(t testing.TB) []vCase {
	path := os.Getenv("VERIF_CASES")
	if path == "" {
		t.Skip("VERIF_CASES not set")
	}
	f, err := os.Open(path)
	if err != nil {
		t.Fatal(err)
	}
	defer f.Close()
	var res []vCase
	sc := bufio.NewScanner(f)
	sc.Buffer(make([]byte, 1<<20), 1<<28)
	for sc.Scan() {
		line := sc.Text()
		if line == "" || line[0] == '#' {
			continue
		}
		toks := strings.Split(line, " ")
		if len(toks) < 2 {
			continue
		}
		c := vCase{kind: toks[0], id: toks[1], kv: map[string]string{}, raw: line}
		for _, tk := range toks[2:] {
			if i := strings.IndexByte(tk, '='); i >= 0 {
				c.kv[tk[:i]] = tk[i+1:]
			} else {
				c.kv[tk] = ""
			}
		}
		res = append(res, c)
	}
	return res
}

type vOut struct {
	mu sync.Mutex
	w  *bufio.Writer
	f  *os.File
}

func vOpenOut(t testing.TB) *vOut {
	path := os.Getenv("VERIF_OBS")
	if path == "" {
		t.Fatal("VERIF_OBS not set")
	}
	f, err := os.Create(path)
	if err != nil {
		t.Fatal(err)
	}
	return &vOut{w: bufio.NewWriterSize(f, 1<<20), f: f}
}

func (o *vOut) printf(format string, a ...interface{}) {
	o.mu.Lock()
	defer o.mu.Unlock()
	fmt.Fprintf(o.w, format, a...)
	o.w.WriteByte('\n')
}

// flush after every case of a property that may crash the process
func (o *vOut) flush() {
	o.mu.Lock()
	defer o.mu.Unlock()
	o.w.Flush()
}

func (o *vOut) close() {
	o.flush()
	o.f.Close()
}

func vHex(b []byte) string { return hex.EncodeToString(b) }
func vHexS(s string) string {
	if s == "" {
		return "-"
	}
	return hex.EncodeToString([]byte(s))
}
func vUnhex(s string) []byte {
	if s == "-" || s == "" {
		return nil
	}
	b, err := hex.DecodeString(s)
	if err != nil {
		panic("bad hex in case file: " + s)
	}
	return b
}

// vGuard runs one case; a panic inside the library becomes an observation instead of killing the run.
func vGuard(out *vOut, kind, id string, f func()) {
	defer func() {
		if r := recover(); r != nil {
			msg := strings.ReplaceAll(fmt.Sprint(r), " ", "_")
			out.printf("%s %s res=panic msg=%s", kind, id, msg)
		}
	}()
	f()
}
