// Command gen reads the non-test Go sources of <repo>/rpc as they are NOW and
// regenerates coq/Model/Generated.v: constants, frame signatures, blocking census,
// type-switch case lists, call-order census and TLS config literals.
//
// Deliberately syntactic: go/ast + go/types with a lenient importer (external packages
// resolve to empty packages, errors ignored), standard library only.
package main

import (
	"bytes"
	"flag"
	"fmt"
	"go/ast"
	"go/constant"
	"go/parser"
	"go/printer"
	"go/token"
	"go/types"
	"os"
	"path/filepath"
	"sort"
	"strings"
)

type fakeImporter struct{ pkgs map[string]*types.Package }

func (f *fakeImporter) Import(path string) (*types.Package, error) {
	if p, ok := f.pkgs[path]; ok {
		return p, nil
	}
	name := path[strings.LastIndex(path, "/")+1:]
	p := types.NewPackage(path, name)
	if path == "strings" {
		// the four functions GoLite interprets (Model/GoLite.v prim_eval): their signatures, so that results are typed
		str := types.Typ[types.String]
		strs := types.NewSlice(str)
		decl := func(fn string, res types.Type, params ...types.Type) {
			var ps []*types.Var
			for _, t := range params {
				ps = append(ps, types.NewVar(token.NoPos, p, "", t))
			}
			sig := types.NewSignatureType(nil, nil, nil, types.NewTuple(ps...),
				types.NewTuple(types.NewVar(token.NoPos, p, "", res)), false)
			p.Scope().Insert(types.NewFunc(token.NoPos, p, fn, sig))
		}
		decl("ToLower", str, str)
		decl("TrimSpace", str, str)
		decl("Split", strs, str, str)
		decl("Join", str, strs, str)
	}
	p.MarkComplete()
	f.pkgs[path] = p
	return p, nil
}

var (
	fset  = token.NewFileSet()
	info  *types.Info
	out   bytes.Buffer
	files []*ast.File
	pkg   *types.Package
	// missing facts make the generated file say so, in a way that breaks generated_ok, not coqc
	missing []string
)

func coqString(s string) string { return `"` + strings.ReplaceAll(s, `"`, `""`) + `"` }

func coqBytes(s string) string {
	parts := make([]string, 0, len(s))
	for i := 0; i < len(s); i++ {
		parts = append(parts, fmt.Sprintf("%d", s[i]))
	}
	return "[" + strings.Join(parts, "; ") + "]%N"
}

func exprString(e ast.Expr) string { return types.ExprString(e) }

func funcName(fd *ast.FuncDecl) string {
	if fd.Recv != nil && len(fd.Recv.List) > 0 {
		t := fd.Recv.List[0].Type
		if s, ok := t.(*ast.StarExpr); ok {
			t = s.X
		}
		return exprString(t) + "." + fd.Name.Name
	}
	return fd.Name.Name
}

func allFuncs() map[string]*ast.FuncDecl {
	m := map[string]*ast.FuncDecl{}
	for _, f := range files {
		for _, d := range f.Decls {
			if fd, ok := d.(*ast.FuncDecl); ok && fd.Body != nil {
				m[funcName(fd)] = fd
			}
		}
	}
	return m
}

// ---------------------------------------------------------------- constants

func constZ(name string) (string, bool) {
	obj := pkg.Scope().Lookup(name)
	c, ok := obj.(*types.Const)
	if !ok {
		return "", false
	}
	if c.Val().Kind() == constant.Int {
		return c.Val().ExactString(), true
	}
	return "", false
}

func constStr(name string) (string, bool) {
	obj := pkg.Scope().Lookup(name)
	c, ok := obj.(*types.Const)
	if !ok || c.Val().Kind() != constant.String {
		return "", false
	}
	return constant.StringVal(c.Val()), true
}

func emitZ(coqName, goName string) {
	v, ok := constZ(goName)
	if !ok {
		missing = append(missing, goName)
		v = "(-999999)"
	} else if strings.HasPrefix(v, "-") {
		v = "(" + v + ")"
	}
	fmt.Fprintf(&out, "Definition %s : Z := %s%%Z.\n", coqName, v)
}

// value of the single `return <int literal>` of a method, e.g. MinLength
func methodReturnInt(fn string) (string, bool) {
	fd, ok := allFuncs()[fn]
	if !ok {
		return "", false
	}
	var res string
	found := false
	ast.Inspect(fd.Body, func(n ast.Node) bool {
		if r, ok := n.(*ast.ReturnStmt); ok && len(r.Results) == 1 {
			if tv, ok := info.Types[r.Results[0]]; ok && tv.Value != nil && tv.Value.Kind() == constant.Int {
				res = tv.Value.ExactString()
				found = true
			}
		}
		return true
	})
	return res, found
}

// ---------------------------------------------------------------- frame signatures

func eltyOf(e ast.Expr) string {
	tv, ok := info.Types[e]
	if !ok || tv.Type == nil {
		return "TOther " + coqString("?"+exprString(e))
	}
	switch t := tv.Type.String(); {
	case strings.HasSuffix(t, ".MethodType"):
		return "TMethodType"
	case strings.HasSuffix(t, ".SeqNumber"):
		return "TSeqNumber"
	case strings.HasSuffix(t, ".CompressionType"):
		return "TCompressionType"
	case strings.HasSuffix(t, ".CtxRPCTags"):
		return "TTags"
	case t == "string":
		return "TString"
	case t == "interface{}" || t == "any":
		return "TIface"
	default:
		return "TOther " + coqString(t)
	}
}

type sigRec struct {
	fn    string
	elems []string
	lead  string // constant value of the first element when known (method type)
	tags  bool   // an `append(v, <CtxRPCTags>)` follows in the same function
}

func frameSigs() []sigRec {
	var res []sigRec
	names := []string{}
	fm := allFuncs()
	for n := range fm {
		names = append(names, n)
	}
	sort.Strings(names)
	for _, n := range names {
		fd := fm[n]
		pos := fset.Position(fd.Pos())
		base := filepath.Base(pos.Filename)
		if base != "dispatch.go" && base != "request.go" {
			continue
		}
		tags := false
		ast.Inspect(fd.Body, func(nd ast.Node) bool {
			if c, ok := nd.(*ast.CallExpr); ok {
				if id, ok := c.Fun.(*ast.Ident); ok && id.Name == "append" && len(c.Args) == 2 {
					if eltyOf(c.Args[1]) == "TTags" {
						tags = true
					}
				}
			}
			return true
		})
		ast.Inspect(fd.Body, func(nd ast.Node) bool {
			cl, ok := nd.(*ast.CompositeLit)
			if !ok {
				return true
			}
			at, ok := cl.Type.(*ast.ArrayType)
			if !ok || at.Len != nil {
				return true
			}
			if it, ok := at.Elt.(*ast.InterfaceType); !ok || len(it.Methods.List) != 0 {
				return true
			}
			r := sigRec{fn: n, tags: tags}
			for i, e := range cl.Elts {
				r.elems = append(r.elems, eltyOf(e))
				if i == 0 {
					if tv, ok := info.Types[e]; ok && tv.Value != nil {
						r.lead = tv.Value.ExactString()
					} else {
						r.lead = "var"
					}
				}
			}
			res = append(res, r)
			return true
		})
	}
	return res
}

// ---------------------------------------------------------------- blocking census

type censusFn struct {
	name string
	ops  []string
}

func commArm(c *ast.CommClause) string {
	if c.Comm == nil {
		return "ArmDefault"
	}
	switch s := c.Comm.(type) {
	case *ast.SendStmt:
		return "Arm Send " + coqString(exprString(s.Chan))
	case *ast.ExprStmt:
		if u, ok := s.X.(*ast.UnaryExpr); ok && u.Op == token.ARROW {
			return "Arm Recv " + coqString(exprString(u.X))
		}
	case *ast.AssignStmt:
		if len(s.Rhs) == 1 {
			if u, ok := s.Rhs[0].(*ast.UnaryExpr); ok && u.Op == token.ARROW {
				return "Arm Recv " + coqString(exprString(u.X))
			}
		}
	}
	return "Arm Recv " + coqString("?")
}

// walk a function body in source order; nested function literals become their own entries
func census(name string, body *ast.BlockStmt, acc *[]censusFn) {
	self := censusFn{name: name}
	lit := 0
	var walk func(n ast.Node) bool
	walk = func(n ast.Node) bool {
		switch x := n.(type) {
		case *ast.FuncLit:
			lit++
			census(fmt.Sprintf("%s$%d", name, lit), x.Body, acc)
			return false
		case *ast.SelectStmt:
			var arms []string
			for _, c := range x.Body.List {
				arms = append(arms, commArm(c.(*ast.CommClause)))
			}
			self.ops = append(self.ops, "BSelect ["+strings.Join(arms, "; ")+"]")
			// still walk arm bodies (nested blocking ops / literals), but not the comm statements
			for _, c := range x.Body.List {
				for _, st := range c.(*ast.CommClause).Body {
					ast.Inspect(st, walk)
				}
			}
			return false
		case *ast.SendStmt:
			self.ops = append(self.ops, "BSend "+coqString(exprString(x.Chan)))
		case *ast.UnaryExpr:
			if x.Op == token.ARROW {
				self.ops = append(self.ops, "BRecv "+coqString(exprString(x.X)))
			}
		case *ast.GoStmt:
			callee := "func"
			if _, ok := x.Call.Fun.(*ast.FuncLit); !ok {
				callee = exprString(x.Call.Fun)
			}
			self.ops = append(self.ops, "BGo "+coqString(callee))
		case *ast.CallExpr:
			if id, ok := x.Fun.(*ast.Ident); ok && id.Name == "close" && len(x.Args) == 1 {
				self.ops = append(self.ops, "BClose "+coqString(exprString(x.Args[0])))
			}
			if se, ok := x.Fun.(*ast.SelectorExpr); ok {
				switch se.Sel.Name {
				case "Do":
					if tv, ok := info.Types[se.X]; ok && tv.Type != nil && strings.HasSuffix(tv.Type.String(), "Once") {
						self.ops = append(self.ops, "BOnceDo "+coqString(exprString(se.X)))
					}
				case "Lock", "RLock":
					self.ops = append(self.ops, "BLock "+coqString(exprString(se.X)))
				}
			}
		}
		return true
	}
	ast.Inspect(body, walk)
	*acc = append(*acc, self)
}

// ---------------------------------------------------------------- order census

func orderCensus(fd *ast.FuncDecl) []string {
	var res []string
	var walk func(n ast.Node) bool
	walk = func(n ast.Node) bool {
		switch x := n.(type) {
		case *ast.DeferStmt:
			if fl, ok := x.Call.Fun.(*ast.FuncLit); ok {
				// deferred closure: record the calls inside, flagged deferred
				ast.Inspect(fl.Body, func(m ast.Node) bool {
					if c, ok := m.(*ast.CallExpr); ok {
						res = append(res, "CDefer "+coqString(exprString(c.Fun)))
					}
					return true
				})
			} else {
				res = append(res, "CDefer "+coqString(exprString(x.Call.Fun)))
			}
			return false
		case *ast.FuncLit:
			return false
		case *ast.CallExpr:
			res = append(res, "CCall "+coqString(exprString(x.Fun)))
		}
		return true
	}
	ast.Inspect(fd.Body, walk)
	return res
}


// ---------------------------------------------------------------- structured bodies (path model)

// callsIn lists the calls inside an expression in evaluation order (arguments before the call itself)
func callsIn(n ast.Node) []string {
	var res []string
	var walk func(n ast.Node)
	walk = func(n ast.Node) {
		if n == nil {
			return
		}
		switch x := n.(type) {
		case *ast.FuncLit:
			return
		case *ast.CallExpr:
			walk(x.Fun)
			for _, a := range x.Args {
				walk(a)
			}
			res = append(res, "SCallF "+coqString(exprString(x.Fun)))
			return
		}
		ast.Inspect(n, func(m ast.Node) bool {
			if m == n || m == nil {
				return true
			}
			walk(m)
			return false
		})
	}
	walk(n)
	return res
}

func stmList(l []ast.Stmt) string {
	var out []string
	for _, st := range l {
		out = append(out, stmOf(st)...)
	}
	return "[" + strings.Join(out, "; ") + "]"
}

func stmOf(st ast.Stmt) []string {
	switch x := st.(type) {
	case nil:
		return nil
	case *ast.BlockStmt:
		var out []string
		for _, s := range x.List {
			out = append(out, stmOf(s)...)
		}
		return out
	case *ast.ExprStmt:
		return callsIn(x.X)
	case *ast.AssignStmt:
		var out []string
		for _, e := range x.Rhs {
			out = append(out, callsIn(e)...)
		}
		return out
	case *ast.DeclStmt:
		return callsIn(x)
	case *ast.SendStmt:
		return callsIn(x.Value)
	case *ast.IncDecStmt:
		return nil
	case *ast.GoStmt:
		return []string{"SGo " + coqString(exprString(x.Call.Fun))}
	case *ast.DeferStmt:
		if fl, ok := x.Call.Fun.(*ast.FuncLit); ok {
			return []string{"SDeferBlock " + stmList(fl.Body.List)}
		}
		var out []string
		for _, a := range x.Call.Args {
			out = append(out, callsIn(a)...)
		}
		return append(out, "SDeferF "+coqString(exprString(x.Call.Fun)))
	case *ast.ReturnStmt:
		var out []string
		for _, e := range x.Results {
			out = append(out, callsIn(e)...)
		}
		return append(out, "SReturn")
	case *ast.IfStmt:
		out := stmOf(x.Init)
		out = append(out, callsIn(x.Cond)...)
		els := "[]"
		if x.Else != nil {
			els = "[" + strings.Join(stmOf(x.Else), "; ") + "]"
		}
		return append(out, "SIf "+coqString(exprString(x.Cond))+" "+stmList(x.Body.List)+" "+els)
	case *ast.SelectStmt:
		var arms []string
		for _, c := range x.Body.List {
			cc := c.(*ast.CommClause)
			name := "default"
			var pre []string
			if cc.Comm != nil {
				name = commArm(cc)
				pre = stmOf(cc.Comm)
			}
			body := append(pre, stmOf(&ast.BlockStmt{List: cc.Body})...)
			arms = append(arms, "("+coqString(name)+", ["+strings.Join(body, "; ")+"])")
		}
		return []string{"SSelect [" + strings.Join(arms, "; ") + "]"}
	case *ast.SwitchStmt:
		out := stmOf(x.Init)
		if x.Tag != nil {
			out = append(out, callsIn(x.Tag)...)
		}
		return append(out, switchArms(x.Body))
	case *ast.TypeSwitchStmt:
		out := stmOf(x.Init)
		return append(out, switchArms(x.Body))
	case *ast.ForStmt:
		out := stmOf(x.Init)
		if x.Cond != nil {
			out = append(out, callsIn(x.Cond)...)
		}
		return append(out, "SLoop "+stmList(x.Body.List))
	case *ast.RangeStmt:
		out := callsIn(x.X)
		return append(out, "SLoop "+stmList(x.Body.List))
	case *ast.LabeledStmt:
		return stmOf(x.Stmt)
	}
	return nil
}

func switchArms(b *ast.BlockStmt) string {
	var arms []string
	hasDefault := false
	for _, c := range b.List {
		cc := c.(*ast.CaseClause)
		name := "default"
		if cc.List == nil {
			hasDefault = true
		} else {
			var es []string
			for _, e := range cc.List {
				es = append(es, exprString(e))
			}
			name = strings.Join(es, ", ")
		}
		arms = append(arms, "("+coqString("case "+name)+", "+stmList(cc.Body)+")")
	}
	if !hasDefault {
		arms = append(arms, "("+coqString("case <none>")+", [])")
	}
	return "SSelect [" + strings.Join(arms, "; ") + "]"
}

// ---------------------------------------------------------------- type switches

func typeSwitchCases(fn string) ([][]string, bool) {
	fd, ok := allFuncs()[fn]
	if !ok {
		return nil, false
	}
	var res [][]string
	found := false
	ast.Inspect(fd.Body, func(n ast.Node) bool {
		ts, ok := n.(*ast.TypeSwitchStmt)
		if !ok {
			return true
		}
		found = true
		for _, c := range ts.Body.List {
			cc := c.(*ast.CaseClause)
			var tys []string
			if cc.List == nil {
				tys = []string{"default"}
			}
			for _, e := range cc.List {
				tys = append(tys, exprString(e))
			}
			ret := "?"
			for _, st := range cc.Body {
				if r, ok := st.(*ast.ReturnStmt); ok && len(r.Results) == 1 {
					ret = exprString(r.Results[0])
				}
			}
			for _, t := range tys {
				res = append(res, []string{t, ret})
			}
		}
		return false
	})
	return res, found
}

// ---------------------------------------------------------------- main

func main() {
	repo := flag.String("repo", "/repo", "repository root")
	outPath := flag.String("o", "", "output file (default stdout)")
	flag.Parse()

	dir := filepath.Join(*repo, "rpc")
	ents, err := os.ReadDir(dir)
	if err != nil {
		fmt.Fprintln(os.Stderr, "gen:", err)
		os.Exit(2)
	}
	for _, e := range ents {
		n := e.Name()
		if e.IsDir() || !strings.HasSuffix(n, ".go") || strings.HasSuffix(n, "_test.go") {
			continue
		}
		// platform variants: keep the linux/go1.8+ set
		if n == "copy_tls_config_not_go18.go" || n == "sigpipe_bsd.go" || n == "log_test_util.go" ||
			n == "connection_test_util.go" {
			continue
		}
		f, err := parser.ParseFile(fset, filepath.Join(dir, n), nil, parser.SkipObjectResolution)
		if err != nil {
			fmt.Fprintln(os.Stderr, "gen: parse:", err)
			os.Exit(2)
		}
		files = append(files, f)
	}
	info = &types.Info{
		Types:      map[ast.Expr]types.TypeAndValue{},
		Defs:       map[*ast.Ident]types.Object{},
		Uses:       map[*ast.Ident]types.Object{},
		Selections: map[*ast.SelectorExpr]*types.Selection{},
	}
	conf := types.Config{
		Importer: &fakeImporter{pkgs: map[string]*types.Package{}},
		Error:    func(error) {},
	}
	pkg, _ = conf.Check("rpc", fset, files, info)

	fmt.Fprintln(&out, "(* GENERATED by /verif/go/gen from /repo/rpc/*.go -- do not edit. *)")
	fmt.Fprintln(&out, "From FMP Require Import Model.GenTypes.")
	fmt.Fprintln(&out, "Open Scope string_scope.")
	fmt.Fprintln(&out)

	// constants
	for _, c := range [][2]string{
		{"method_invalid", "MethodInvalid"}, {"method_call", "MethodCall"},
		{"method_response", "MethodResponse"}, {"method_notify", "MethodNotify"},
		{"method_cancel", "MethodCancel"}, {"method_call_compressed", "MethodCallCompressed"},
		{"compression_none", "CompressionNone"}, {"compression_gzip", "CompressionGzip"},
		{"compression_msgpackzip", "CompressionMsgpackzip"},
		{"status_using_existing", "UsingExistingConnection"},
		{"status_starting_first", "StartingFirstConnection"},
		{"status_starting_non_first", "StartingNonFirstConnection"},
		{"default_max_frame_length", "DefaultMaxFrameLength"},
	} {
		emitZ(c[0], c[1])
	}
	for _, c := range [][2]string{{"scheme_standard", "fmpSchemeStandard"}, {"scheme_tls", "fmpSchemeTLS"}} {
		s, ok := constStr(c[1])
		if !ok {
			missing = append(missing, c[1])
		}
		fmt.Fprintf(&out, "Definition %s : list N := %s.\n", c[0], coqBytes(s))
	}
	// keepAlive: the expression text (time.Second is outside the lenient type check)
	{
		val := "None"
		for _, f := range files {
			ast.Inspect(f, func(n ast.Node) bool {
				if vs, ok := n.(*ast.ValueSpec); ok && len(vs.Names) == 1 && vs.Names[0].Name == "keepAlive" && len(vs.Values) == 1 {
					val = "Some " + coqString(exprString(vs.Values[0]))
				}
				return true
			})
		}
		fmt.Fprintf(&out, "Definition keep_alive_expr : option string := %s.\n", val)
	}
	// MinLength of each message kind
	for _, c := range [][2]string{
		{"minlen_call", "rpcCallMessage.MinLength"}, {"minlen_call_compressed", "rpcCallCompressedMessage.MinLength"},
		{"minlen_response", "rpcResponseMessage.MinLength"}, {"minlen_notify", "rpcNotifyMessage.MinLength"},
		{"minlen_cancel", "rpcCancelMessage.MinLength"},
	} {
		v, ok := methodReturnInt(c[1])
		if !ok {
			missing = append(missing, c[1])
			v = "(-999999)"
		}
		fmt.Fprintf(&out, "Definition %s : Z := %s%%Z.\n", c[0], v)
	}
	// SeqNo() of a notification (the key its task is filed under)
	if v, ok := methodReturnInt("rpcNotifyMessage.SeqNo"); ok {
		if strings.HasPrefix(v, "-") {
			v = "(" + v + ")"
		}
		fmt.Fprintf(&out, "Definition notify_seqno_const : option Z := Some %s%%Z.\n", v)
	} else {
		fmt.Fprintf(&out, "Definition notify_seqno_const : option Z := None.\n")
	}

	// comparisons in packetizer.NextFrame and codec.encodeFrame: "<lhs> <op> <rhs>" texts of every
	// binary comparison, in source order
	for _, fn := range []string{"packetizer.NextFrame", "framedMsgpackEncoder.encodeFrame"} {
		var cmps []string
		if fd, ok := allFuncs()[fn]; ok {
			ast.Inspect(fd.Body, func(n ast.Node) bool {
				if _, ok := n.(*ast.FuncLit); ok {
					return false
				}
				if b, ok := n.(*ast.BinaryExpr); ok {
					switch b.Op {
					case token.LSS, token.GTR, token.LEQ, token.GEQ:
						cmps = append(cmps, coqString(exprString(b)))
					}
				}
				return true
			})
		} else {
			missing = append(missing, fn)
		}
		cn := "cmps_" + strings.ReplaceAll(strings.ReplaceAll(fn, ".", "_"), "$", "_")
		fmt.Fprintf(&out, "Definition %s : list string := [%s].\n", cn, strings.Join(cmps, "; "))
	}
	// default handshake timeout: the value assigned to handshakeTimeout when it is 0
	{
		val := "None"
		if fd, ok := allFuncs()["ConnectionTransportTLS.Dial"]; ok {
			ast.Inspect(fd.Body, func(n ast.Node) bool {
				if as, ok := n.(*ast.AssignStmt); ok && len(as.Lhs) == 1 && len(as.Rhs) == 1 {
					if exprString(as.Lhs[0]) == "handshakeTimeout" && as.Tok == token.ASSIGN {
						val = "Some " + coqString(exprString(as.Rhs[0]))
					}
				}
				return true
			})
		}
		fmt.Fprintf(&out, "Definition default_handshake_timeout : option string := %s.\n", val)
	}
	fmt.Fprintln(&out)

	// frame signatures
	fmt.Fprintln(&out, "(* every []interface{}{...} literal in dispatch.go / request.go: (function, first-element constant, element types, tags appended) *)")
	fmt.Fprintln(&out, "Definition frame_sigs : list (string * string * list elty * bool) := [")
	sigs := frameSigs()
	for i, s := range sigs {
		sep := ";"
		if i == len(sigs)-1 {
			sep = ""
		}
		fmt.Fprintf(&out, "  (%s, %s, [%s], %v)%s\n", coqString(s.fn), coqString(s.lead), strings.Join(s.elems, "; "), s.tags, sep)
	}
	fmt.Fprintln(&out, "].")
	fmt.Fprintln(&out)

	// blocking census
	var cens []censusFn
	fm := allFuncs()
	names := []string{}
	for n := range fm {
		names = append(names, n)
	}
	sort.Strings(names)
	for _, n := range names {
		census(n, fm[n].Body, &cens)
	}
	sort.SliceStable(cens, func(i, j int) bool { return cens[i].name < cens[j].name })
	fmt.Fprintln(&out, "(* blocking operations of every function that has any, in source order *)")
	fmt.Fprintln(&out, "Definition blocking_census : list (string * list blockop) := [")
	first := true
	for _, c := range cens {
		if len(c.ops) == 0 {
			continue
		}
		if !first {
			fmt.Fprintln(&out, ";")
		}
		first = false
		fmt.Fprintf(&out, "  (%s, [\n    %s])", coqString(c.name), strings.Join(c.ops, ";\n    "))
	}
	fmt.Fprintln(&out, "\n].")
	fmt.Fprintln(&out)

	// order census
	fmt.Fprintln(&out, "(* calls in source order (deferred ones flagged) of selected functions *)")
	fmt.Fprintln(&out, "Definition order_census : list (string * list callsite) := [")
	ordFns := []string{"dispatch.Call", "dispatch.Notify", "dispatch.handleCancel", "transport.Close",
		"transport.closeWithErr", "transport.receiveFramesLoop", "Connection.connect", "Connection.doReconnect",
		"Connection.DoCommand", "receiveHandler.handleReceiveDispatch", "callRequest.Reply",
		"callCompressedRequest.Reply", "callRequest.Serve", "framedMsgpackEncoder.writerLoop",
		"rpcResponseMessage.DecodeMessage", "connTransport.Dial", "connTransport.Finalize",
		"connTransport.Close", "ConnectionTransportTLS.Dial", "ConnectionTransportTLS.Finalize",
		"ConnectionTransportTLS.Close", "Connection.Shutdown", "NetworkInstrumenter.Finish",
		"NetworkInstrumenter.RecordAndFinish", "AddRPCTagsToContext", "TagsFromContext",
		"NewTLSConnectionWithTLSConfig", "gzipCompressor.getGzipReader", "packetizer.NextFrame",
		"CancellableTimer.StartConstant", "CancellableTimer.StartRandom", "CancellableTimer.FireNow",
		"CancellableTimer.Wait", "Connection.waitForConnection", "Connection.getReconnectChanLocked",
		"Connection.fireConnectDelayTimerIfRequested",
		"NewTLSConnection", "NewTLSConnectionWithDialable",
		"NewTLSConnectionWithConnectionLogFactory", "copyTLSConfig",
		"framedMsgpackEncoder.EncodeAndWriteAsync", "framedMsgpackEncoder.encodeAndWriteInternal",
		"framedMsgpackEncoder.encodeFrame", "framedMsgpackEncoder.EncodeAndWrite", "basicRPCData.loadContext",
		"receiveHandler.taskLoop"}
	for i, fn := range ordFns {
		sep := ";"
		if i == len(ordFns)-1 {
			sep = ""
		}
		fd, ok := fm[fn]
		if !ok {
			missing = append(missing, fn)
			fmt.Fprintf(&out, "  (%s, [])%s\n", coqString(fn), sep)
			continue
		}
		fmt.Fprintf(&out, "  (%s, [%s])%s\n", coqString(fn), strings.Join(orderCensus(fd), "; "), sep)
	}
	fmt.Fprintln(&out, "].")
	fmt.Fprintln(&out)

	// type switches
	for _, fn := range []string{"shouldContinue", "shouldReceive", "unboxRPCError"} {
		cs, ok := typeSwitchCases(fn)
		if !ok {
			missing = append(missing, fn)
		}
		var items []string
		for _, c := range cs {
			items = append(items, "("+coqString(c[0])+", "+coqString(c[1])+")")
		}
		fmt.Fprintf(&out, "Definition cases_%s : list (string * string) := [%s].\n", fn, strings.Join(items, "; "))
	}
	fmt.Fprintln(&out)

	// tls.Config literals: (function, field names)
	fmt.Fprintln(&out, "Definition tls_config_literals : list (string * list string) := [")
	var tl []string
	for _, n := range names {
		fd := fm[n]
		ast.Inspect(fd.Body, func(nd ast.Node) bool {
			cl, ok := nd.(*ast.CompositeLit)
			if !ok || cl.Type == nil || exprString(cl.Type) != "tls.Config" {
				return true
			}
			var fs []string
			for _, e := range cl.Elts {
				if kv, ok := e.(*ast.KeyValueExpr); ok {
					fs = append(fs, coqString(exprString(kv.Key)))
				}
			}
			tl = append(tl, fmt.Sprintf("  (%s, [%s])", coqString(n), strings.Join(fs, "; ")))
			return true
		})
	}
	fmt.Fprintln(&out, strings.Join(tl, ";\n"))
	fmt.Fprintln(&out, "].")
	// any mention of InsecureSkipVerify anywhere in non-test code
	isv := 0
	for _, f := range files {
		ast.Inspect(f, func(n ast.Node) bool {
			if id, ok := n.(*ast.Ident); ok && id.Name == "InsecureSkipVerify" {
				isv++
			}
			return true
		})
	}
	fmt.Fprintf(&out, "Definition insecure_skip_verify_mentions : nat := %d.\n", isv)
	// result channel capacity in NewCall
	{
		capv := "None"
		if fd, ok := fm["callContainer.NewCall"]; ok {
			ast.Inspect(fd.Body, func(n ast.Node) bool {
				if c, ok := n.(*ast.CallExpr); ok {
					if id, ok := c.Fun.(*ast.Ident); ok && id.Name == "make" && len(c.Args) == 2 {
						if tv, ok := info.Types[c.Args[1]]; ok && tv.Value != nil {
							capv = "Some " + tv.Value.ExactString() + "%Z"
						}
					}
				}
				return true
			})
		}
		fmt.Fprintf(&out, "Definition result_chan_capacity : option Z := %s.\n", capv)
	}
	// task registration key: the first element of the task{...} literal in handleReceiveDispatch, and whether a
	// per-notification counter is decremented under a MethodNotify test
	{
		key := ""
		counter := false
		if fd, ok := fm["receiveHandler.handleReceiveDispatch"]; ok {
			ast.Inspect(fd.Body, func(n ast.Node) bool {
				switch x := n.(type) {
				case *ast.CompositeLit:
					if id, ok := x.Type.(*ast.Ident); ok && id.Name == "task" && len(x.Elts) >= 1 && key == "" {
						key = exprString(x.Elts[0])
					}
				case *ast.IfStmt:
					if strings.Contains(exprString(x.Cond), "MethodNotify") {
						ast.Inspect(x.Body, func(m ast.Node) bool {
							if ids, ok := m.(*ast.IncDecStmt); ok && ids.Tok == token.DEC {
								counter = true
							}
							return true
						})
					}
				}
				return true
			})
		} else {
			missing = append(missing, "receiveHandler.handleReceiveDispatch")
		}
		fmt.Fprintf(&out, "Definition task_key_expr : string := %s.\n", coqString(key))
		fmt.Fprintf(&out, "Definition notify_key_counter : bool := %v.\n", counter)
	}
	// what transport.Close / closeWithErr do inside the once, in order: assignments to t.stopErr and close(t.stopCh)
	{
		var seq []string
		for _, fn := range []string{"transport.Close", "transport.closeWithErr"} {
			if fd, ok := fm[fn]; ok {
				ast.Inspect(fd.Body, func(n ast.Node) bool {
					switch x := n.(type) {
					case *ast.AssignStmt:
						if len(x.Lhs) == 1 && exprString(x.Lhs[0]) == "t.stopErr" {
							seq = append(seq, coqString("stopErr="+exprString(x.Rhs[0])))
						}
					case *ast.CallExpr:
						if id, ok := x.Fun.(*ast.Ident); ok && id.Name == "close" && len(x.Args) == 1 {
							seq = append(seq, coqString("close:"+exprString(x.Args[0])))
						}
					}
					return true
				})
			}
		}
		fmt.Fprintf(&out, "Definition close_once_sequence : list string := [%s].\n", strings.Join(seq, "; "))
		// does the receive loop assign t.stopErr outside the once?
		loopAssign := false
		if fd, ok := fm["transport.receiveFramesLoop"]; ok {
			ast.Inspect(fd.Body, func(n ast.Node) bool {
				if x, ok := n.(*ast.AssignStmt); ok && len(x.Lhs) == 1 && exprString(x.Lhs[0]) == "t.stopErr" {
					loopAssign = true
				}
				return true
			})
		}
		fmt.Fprintf(&out, "Definition loop_assigns_stop_err : bool := %v.\n", loopAssign)
	}
	// conditions, returns and go-statement guards of selected functions (closures included), in source order
	{
		selFns := []string{"receiveHandler.receiveCancel", "Connection.getReconnectChanLocked", "Connection.checkForRetry", "Connection.isConnectedLocked",
			"Connection.waitForConnection", "Connection.doReconnect", "Connection.DoCommand", "Connection.connect",
			"Connection.Shutdown", "ConnectionTransportTLS.Dial",
			"CancellableTimer.Wait", "CancellableTimer.StartRandom", "CancellableTimer.StartConstant", "CancellableTimer.FireNow",
			"CancellableTimer.swap", "CancellableTimer.get", "fireOnce.fire", "fireOnce.wait", "isWithFireNow",
			"Connection.fireConnectDelayTimerIfRequested",
			"framedMsgpackEncoder.EncodeAndWriteAsync", "framedMsgpackEncoder.encodeAndWriteInternal",
			"framedMsgpackEncoder.encodeFrame", "framedMsgpackEncoder.EncodeAndWrite", "packetizer.NextFrame",
			"basicRPCData.loadContext", "receiveHandler.taskLoop", "lastErrReader.Read"}
		var conds, rets, gos, asg []string
		for _, fn := range selFns {
			fd, ok := fm[fn]
			if !ok {
				missing = append(missing, fn)
				continue
			}
			var cs, rs, gs, as []string
			var guards []string
			var walk func(n ast.Node)
			walk = func(n ast.Node) {
				if n == nil {
					return
				}
				switch x := n.(type) {
				case *ast.IfStmt:
					if x.Init != nil {
						walk(x.Init)
					}
					cs = append(cs, coqString(exprString(x.Cond)))
					guards = append(guards, exprString(x.Cond))
					walk(x.Body)
					guards = guards[:len(guards)-1]
					if x.Else != nil {
						guards = append(guards, "!("+exprString(x.Cond)+")")
						walk(x.Else)
						guards = guards[:len(guards)-1]
					}
					return
				case *ast.CallExpr:
					if exprString(x.Fun) == "time.AfterFunc" {
						var a []string
						for _, e := range x.Args {
							a = append(a, exprString(e))
						}
						as = append(as, coqString("time.AfterFunc("+strings.Join(a, ", ")+")"))
					}
				case *ast.ForStmt:
					if x.Cond != nil {
						cs = append(cs, coqString("for:"+exprString(x.Cond)))
					}
				case *ast.AssignStmt:
					var ls, rs2 []string
					for _, e := range x.Lhs {
						ls = append(ls, exprString(e))
					}
					for _, e := range x.Rhs {
						rs2 = append(rs2, exprString(e))
					}
					as = append(as, coqString(strings.Join(ls, ",")+" "+x.Tok.String()+" "+strings.Join(rs2, ",")))
				case *ast.ReturnStmt:
					var es []string
					for _, e := range x.Results {
						es = append(es, exprString(e))
					}
					rs = append(rs, coqString(strings.Join(es, ", ")))
				case *ast.GoStmt:
					var g []string
					for _, c := range guards {
						g = append(g, coqString(c))
					}
					gs = append(gs, "("+coqString(exprString(x.Call.Fun))+", ["+strings.Join(g, "; ")+"])")
				}
				ast.Inspect(n, func(m ast.Node) bool {
					if m == n || m == nil {
						return true
					}
					walk(m)
					return false
				})
			}
			walk(fd.Body)
			conds = append(conds, "  ("+coqString(fn)+", ["+strings.Join(cs, "; ")+"])")
			rets = append(rets, "  ("+coqString(fn)+", ["+strings.Join(rs, "; ")+"])")
			gos = append(gos, "  ("+coqString(fn)+", ["+strings.Join(gs, "; ")+"])")
			asg = append(asg, "  ("+coqString(fn)+", ["+strings.Join(as, "; ")+"])")
		}
		fmt.Fprintf(&out, "Definition cond_census : list (string * list string) := [\n%s\n].\n", strings.Join(conds, ";\n"))
		fmt.Fprintf(&out, "Definition return_census : list (string * list string) := [\n%s\n].\n", strings.Join(rets, ";\n"))
		fmt.Fprintf(&out, "Definition assign_census : list (string * list string) := [\n%s\n].\n", strings.Join(asg, ";\n"))
		fmt.Fprintf(&out, "Definition go_guards : list (string * list (string * list string)) := [\n%s\n].\n", strings.Join(gos, ";\n"))
	}
	// structured bodies of the functions whose every path matters (accounting, pending-call table)
	{
		bodyFns := []string{"dispatch.Call", "dispatch.Notify", "dispatch.handleCancel", "callRequest.Reply",
			"callCompressedRequest.Reply", "callRequest.Serve", "callCompressedRequest.Serve", "notifyRequest.Serve",
			"Connection.connect", "Connection.waitForConnection", "transport.closeWithErr",
			"receiveHandler.handleReceiveDispatch", "framedMsgpackEncoder.writerLoop", "transport.receiveFramesLoop", "Connection.doReconnect", "Connection.DoCommand", "rpcResponseMessage.DecodeMessage", "receiveHandler.receiveResponse", "NetworkInstrumenter.Finish", "receiveHandler.taskLoop", "transport.receiveFrames", "framedMsgpackEncoder.encodeAndWriteInternal", "receiveHandler.Close", "dispatch.Close", "framedMsgpackEncoder.EncodeAndWrite", "framedMsgpackEncoder.EncodeAndWriteAsync", "framedMsgpackEncoder.encodeFrame", "packetizer.NextFrame", "frameReader.drain", "decodeRPC", "transport.Close", "lastErrReader.Read", "frameReader.Read", "frameReader.ReadByte"}
		var items []string
		for _, fn := range bodyFns {
			fd, ok := fm[fn]
			if !ok {
				missing = append(missing, fn)
				continue
			}
			items = append(items, "  ("+coqString(fn)+", "+stmList(fd.Body.List)+")")
		}
		fmt.Fprintf(&out, "Definition body_census : list (string * list stm) := [\n%s\n].\n", strings.Join(items, ";\n"))
	}
	goliteText := goliteFuncs(fm)
	fmt.Fprintln(&out)
	var ms []string
	for _, m := range missing {
		ms = append(ms, coqString(m))
	}
	fmt.Fprintf(&out, "Definition missing_facts : list string := [%s].\n", strings.Join(ms, "; "))
	out.WriteString(goliteText)

	if *outPath == "" {
		os.Stdout.Write(out.Bytes())
		return
	}
	old, err := os.ReadFile(*outPath)
	if err == nil && bytes.Equal(old, out.Bytes()) {
		return // unchanged: keep the timestamp so make does not rebuild
	}
	if err := os.WriteFile(*outPath, out.Bytes(), 0o644); err != nil {
		fmt.Fprintln(os.Stderr, "gen:", err)
		os.Exit(2)
	}
}

// ---------------------------------------------------------------- GoLite
//
// Statement-by-statement translation of a few small method bodies into the deeply embedded language of
// coq/Model/GenTypes.v (expr/stmt) whose semantics is coq/Model/GoLite.v.  The walk is generic: every
// construct outside the supported subset becomes EUnsupported/SUnsupported with its source text, so that an
// edit of the source can never be dropped silently (Proofs/GoLiteProofs.v proves no_unsupported = true and
// the refinement theorems about whatever is emitted here).

var goliteNames = []string{
	"prioritizedRoundRobinRemote.resetLocked", "prioritizedRoundRobinRemote.Reset",
	"prioritizedRoundRobinRemote.GetAddress", "prioritizedRoundRobinRemote.Peek",
	"callContainer.nextSeqid",
	"NetworkInstrumenter.IncrementSize", "NetworkInstrumenter.EndCall",
	"NetworkInstrumenter.RecordAndFinish", "NetworkInstrumenter.Finish",
	"prioritizedRoundRobinRemote.String", "NewPrioritizedRoundRobinRemote", "ParsePrioritizedRoundRobinRemote",
}

// callees interpreted by Model/GoLite.v (prim_eval): package path + "." + name -> number of arguments
var golitePrims = map[string]int{"strings.ToLower": 1, "strings.TrimSpace": 1, "strings.Split": 2, "strings.Join": 2}

// callees treated as opaque pure functions (package path + "." + name): the call evaluates to a fixed unknown
// value (EOpaque "<source text>").  Only functions that cannot touch the translated object's fields may be here.
var goliteOpaque = map[string]bool{"time.Since": true, "time.Now": true}

type goliteCtx struct {
	recv     string                  // receiver identifier of the function being translated
	recvType string                  // its type name
	dupDefs  map[string]bool         // unused since names are per object
	names    map[types.Object]string // flat-frame name of every local object: "x", and "x'2" for a second x
	set      map[string]*ast.FuncDecl
}

func nodeText(n ast.Node) string {
	var b bytes.Buffer
	_ = printer.Fprint(&b, fset, n)
	return strings.Join(strings.Fields(b.String()), " ")
}

func glUnsE(e ast.Expr) string { return "(EUnsupported " + coqString(nodeText(e)) + ")" }
func glUnsS(s ast.Stmt, why string) string {
	return "SUnsupported " + coqString(why+": "+nodeText(s))
}

func coqZ(s string) string {
	if strings.HasPrefix(s, "-") {
		return "(" + s + ")"
	}
	return s
}

func isSliceType(e ast.Expr) bool {
	tv, ok := info.Types[e]
	if !ok || tv.Type == nil {
		return false
	}
	_, ok = tv.Type.Underlying().(*types.Slice)
	return ok
}

var glSizes = types.SizesFor("gc", "amd64")

// signed integer type: its width in bits
func signedIntBits(e ast.Expr) (int64, bool) {
	tv, ok := info.Types[e]
	if !ok || tv.Type == nil {
		return 0, false
	}
	b, ok := tv.Type.Underlying().(*types.Basic)
	if !ok || b.Info()&types.IsInteger == 0 || b.Info()&types.IsUnsigned != 0 || b.Info()&types.IsUntyped != 0 {
		return 0, false
	}
	return glSizes.Sizeof(b) * 8, true
}

func basicInfo(e ast.Expr) (types.BasicInfo, bool) {
	tv, ok := info.Types[e]
	if !ok || tv.Type == nil {
		return 0, false
	}
	b, ok := tv.Type.Underlying().(*types.Basic)
	if !ok {
		return 0, false
	}
	return b.Info(), true
}

// a place that can be named: local variable "x" or receiver field "r.f"
func (c *goliteCtx) place(e ast.Expr) (string, bool) {
	switch x := e.(type) {
	case *ast.ParenExpr:
		return c.place(x.X)
	case *ast.Ident:
		if x.Name == "_" || x.Name == c.recv {
			return "", false
		}
		obj := info.Uses[x]
		if obj == nil {
			obj = info.Defs[x]
		}
		v, ok := obj.(*types.Var)
		if !ok || v.IsField() || v.Parent() == pkg.Scope() || c.dupDefs[x.Name] {
			return "", false
		}
		if n, ok := c.names[obj]; ok {
			return n, true
		}
		return "", false
	case *ast.SelectorExpr:
		id, ok := x.X.(*ast.Ident)
		if !ok || id.Name != c.recv {
			return "", false
		}
		if v, ok := info.Uses[x.Sel].(*types.Var); ok && v.IsField() {
			if p, ok := selectionPath(x); ok {
				return c.recv + "." + p, true
			}
		}
		return "", false
	}
	return "", false
}

// the full dotted field path of a field selection, embedded fields spelled out (r.Size -> InstrumentationRecord.Size)
func selectionPath(x *ast.SelectorExpr) (string, bool) {
	sel := info.Selections[x]
	if sel == nil || sel.Kind() != types.FieldVal {
		return "", false
	}
	t := sel.Recv()
	var names []string
	for _, i := range sel.Index() {
		if pt, ok := t.Underlying().(*types.Pointer); ok {
			t = pt.Elem()
		}
		st, ok := t.Underlying().(*types.Struct)
		if !ok || i >= st.NumFields() {
			return "", false
		}
		names = append(names, st.Field(i).Name())
		t = st.Field(i).Type()
	}
	return strings.Join(names, "."), len(names) > 0
}

// a heap place: the receiver itself ("r") or a field path of it ("r.f.g")
func (c *goliteCtx) heapPlace(e ast.Expr) (string, bool) {
	if pe, ok := e.(*ast.ParenExpr); ok {
		return c.heapPlace(pe.X)
	}
	if id, ok := e.(*ast.Ident); ok && id.Name == c.recv && c.recv != "" {
		return c.recv, true
	}
	if p, ok := c.place(e); ok && strings.HasPrefix(p, c.recv+".") {
		return p, true
	}
	return "", false
}

func isNilExpr(e ast.Expr) bool {
	tv, ok := info.Types[e]
	return ok && tv.IsNil()
}

func isPointerType(e ast.Expr) bool {
	tv, ok := info.Types[e]
	if !ok || tv.Type == nil {
		return false
	}
	_, ok = tv.Type.Underlying().(*types.Pointer)
	return ok
}

// pkg.Name(...) with pkg an imported package: its path and the name
func pkgCallee(call *ast.CallExpr) (string, string, bool) {
	sel, ok := call.Fun.(*ast.SelectorExpr)
	if !ok {
		return "", "", false
	}
	id, ok := sel.X.(*ast.Ident)
	if !ok {
		return "", "", false
	}
	pn, ok := info.Uses[id].(*types.PkgName)
	if !ok {
		return "", "", false
	}
	return pn.Imported().Path(), sel.Sel.Name, true
}

func (c *goliteCtx) exprList(l []ast.Expr) string {
	parts := make([]string, 0, len(l))
	for _, a := range l {
		parts = append(parts, c.expr(a))
	}
	return "[" + strings.Join(parts, "; ") + "]"
}

// zero value of a type, as an expression
func glZero(t types.Type) string {
	switch u := t.Underlying().(type) {
	case *types.Slice:
		return "(EMake " + coqString(types.TypeString(t, nil)) + " (EInt 0))"
	case *types.Pointer, *types.Interface:
		return "ENil"
	case *types.Basic:
		switch {
		case u.Info()&types.IsInteger != 0:
			return "(EInt 0)"
		case u.Info()&types.IsBoolean != 0:
			return "(EBool false)"
		case u.Info()&types.IsString != 0:
			return "(EStr []%N)"
		}
	}
	return "(EOpaque " + coqString("zero value of "+types.TypeString(t, nil)) + ")"
}

func (c *goliteCtx) newObject(cl *ast.CompositeLit) (string, bool) {
	tv, ok := info.Types[cl]
	if !ok || tv.Type == nil {
		return "", false
	}
	st, ok := tv.Type.Underlying().(*types.Struct)
	if !ok {
		return "", false
	}
	given := map[string]ast.Expr{}
	for _, el := range cl.Elts {
		kv, ok := el.(*ast.KeyValueExpr)
		if !ok {
			return "", false
		}
		k, ok := kv.Key.(*ast.Ident)
		if !ok {
			return "", false
		}
		given[k.Name] = kv.Value
	}
	var fs []string
	for i := 0; i < st.NumFields(); i++ {
		f := st.Field(i)
		if _, given := given[f.Name()]; !given && f.Type() == types.Typ[types.Invalid] {
			// a field whose type the lenient type check cannot resolve (the embedded sync.Mutex: mutexes are
			// modelled by the held-set, not by heap entries) is not materialised; touching it is PUnknownVar
			continue
		}
		v := glZero(f.Type())
		if e, ok := given[f.Name()]; ok {
			v = c.expr(e)
			delete(given, f.Name())
		}
		fs = append(fs, "("+coqString(f.Name())+", "+v+")")
	}
	if len(given) != 0 {
		return "", false
	}
	return "(ENew [" + strings.Join(fs, "; ") + "])", true
}

// x.m(args) with x a LOCAL variable holding a fresh object (pointer to a struct type whose method m is translated)
func (c *goliteCtx) localMethodCall(call *ast.CallExpr) (string, bool) {
	sel, ok := call.Fun.(*ast.SelectorExpr)
	if !ok || call.Ellipsis.IsValid() {
		return "", false
	}
	id, ok := sel.X.(*ast.Ident)
	if !ok || id.Name == c.recv {
		return "", false
	}
	p, ok := c.place(id)
	if !ok {
		return "", false
	}
	tv, ok := info.Types[id]
	if !ok || tv.Type == nil {
		return "", false
	}
	pt, ok := tv.Type.Underlying().(*types.Pointer)
	if !ok {
		return "", false
	}
	named, ok := pt.Elem().(*types.Named)
	if !ok {
		return "", false
	}
	full := named.Obj().Name() + "." + sel.Sel.Name
	fd, ok := c.set[full]
	if !ok || goliteRecv(fd) == "" {
		return "", false
	}
	ps, ok := goliteParams(fd)
	if !ok || len(ps) != len(call.Args) {
		return "", false
	}
	return "SCallOn " + coqString(p) + " " + coqString(full) + " " + c.exprList(call.Args), true
}

// r.m(args) with m another translated method of the same receiver type, same receiver name, matching arity;
// f(args) with f a translated plain function
func (c *goliteCtx) methodCall(call *ast.CallExpr) (string, string, bool) {
	if id, ok := call.Fun.(*ast.Ident); ok && !call.Ellipsis.IsValid() {
		if fn, ok := info.Uses[id].(*types.Func); ok && fn.Parent() == pkg.Scope() {
			if fd, ok := c.set[id.Name]; ok && fd.Recv == nil {
				if ps, ok := goliteParams(fd); ok && len(ps) == len(call.Args) {
					return id.Name, c.exprList(call.Args), true
				}
			}
		}
		return "", "", false
	}
	sel, ok := call.Fun.(*ast.SelectorExpr)
	if !ok || call.Ellipsis.IsValid() || c.recv == "" {
		return "", "", false
	}
	id, ok := sel.X.(*ast.Ident)
	if !ok || id.Name != c.recv {
		return "", "", false
	}
	full := c.recvType + "." + sel.Sel.Name
	fd, ok := c.set[full]
	if !ok || goliteRecv(fd) != c.recv {
		return "", "", false
	}
	ps, ok := goliteParams(fd)
	if !ok || len(ps) != len(call.Args) {
		return "", "", false
	}
	return full, c.exprList(call.Args), true
}

// parameter names: all named, none blank, not variadic
func goliteParams(fd *ast.FuncDecl) ([]string, bool) {
	var ps []string
	if fd.Type.Params == nil {
		return ps, true
	}
	for _, f := range fd.Type.Params.List {
		if _, variadic := f.Type.(*ast.Ellipsis); variadic || len(f.Names) == 0 {
			return nil, false
		}
		for _, n := range f.Names {
			if n.Name == "_" {
				return nil, false
			}
			ps = append(ps, n.Name)
		}
	}
	return ps, true
}

// math/rand.Perm(n)
func isRandPerm(call *ast.CallExpr) bool {
	sel, ok := call.Fun.(*ast.SelectorExpr)
	if !ok || sel.Sel.Name != "Perm" || len(call.Args) != 1 || call.Ellipsis.IsValid() {
		return false
	}
	id, ok := sel.X.(*ast.Ident)
	if !ok {
		return false
	}
	pn, ok := info.Uses[id].(*types.PkgName)
	return ok && pn.Imported().Path() == "math/rand"
}

func isBuiltin(e ast.Expr, name string) bool {
	id, ok := e.(*ast.Ident)
	if !ok || id.Name != name {
		return false
	}
	_, ok = info.Uses[id].(*types.Builtin)
	return ok
}

func (c *goliteCtx) expr(e ast.Expr) string {
	// integer constants (literals and named constants alike)
	if tv, ok := info.Types[e]; ok && tv.Value != nil && tv.Value.Kind() == constant.Int {
		return "(EInt " + coqZ(tv.Value.ExactString()) + ")"
	}
	if tv, ok := info.Types[e]; ok && tv.Value != nil && tv.Value.Kind() == constant.Bool {
		if constant.BoolVal(tv.Value) {
			return "(EBool true)"
		}
		return "(EBool false)"
	}
	if isNilExpr(e) {
		return "ENil"
	}
	if tv, ok := info.Types[e]; ok && tv.Value != nil && tv.Value.Kind() == constant.String {
		return "(EStr " + coqBytes(constant.StringVal(tv.Value)) + ")"
	}
	switch x := e.(type) {
	case *ast.ParenExpr:
		return c.expr(x.X)
	case *ast.UnaryExpr:
		if bi, ok := basicInfo(x.X); ok && x.Op == token.NOT && bi&types.IsBoolean != 0 {
			return "(ENot " + c.expr(x.X) + ")"
		}
		// &T{f: e, ...}: a fresh object, every field listed (zero values for the ones not given)
		if cl, ok := x.X.(*ast.CompositeLit); ok && x.Op == token.AND {
			if s, ok := c.newObject(cl); ok {
				return s
			}
		}
	case *ast.StarExpr:
		// *p with p a heap place pointing to a struct: the struct's value now, field by field
		if p, ok := c.heapPlace(x.X); ok {
			if tv, ok := info.Types[x.X]; ok && tv.Type != nil {
				if pt, ok := tv.Type.Underlying().(*types.Pointer); ok {
					if st, ok := pt.Elem().Underlying().(*types.Struct); ok {
						var fs []string
						for i := 0; i < st.NumFields(); i++ {
							fs = append(fs, coqString(st.Field(i).Name()))
						}
						return "(EDeref " + coqString(p) + " [" + strings.Join(fs, "; ") + "])"
					}
				}
			}
		}
	case *ast.Ident, *ast.SelectorExpr:
		if p, ok := c.place(e); ok {
			return "(EVar " + coqString(p) + ")"
		}
	case *ast.CallExpr:
		switch {
		case isBuiltin(x.Fun, "len") && len(x.Args) == 1:
			if bi, ok := basicInfo(x.Args[0]); isSliceType(x.Args[0]) || (ok && bi&types.IsString != 0) {
				return "(ELen " + c.expr(x.Args[0]) + ")"
			}
		case isBuiltin(x.Fun, "append") && len(x.Args) == 2 && !x.Ellipsis.IsValid() && isSliceType(x.Args[0]):
			return "(EAppend " + c.expr(x.Args[0]) + " " + c.expr(x.Args[1]) + ")"
		case isBuiltin(x.Fun, "make") && len(x.Args) == 3:
			at, isArr := x.Args[0].(*ast.ArrayType)
			tv := info.Types[x.Args[1]]
			if isArr && at.Len == nil && tv.Value != nil && tv.Value.Kind() == constant.Int && tv.Value.ExactString() == "0" {
				return "(EMake " + coqString(nodeText(x.Args[0])) + " " + c.expr(x.Args[2]) + ")"
			}
		case isRandPerm(x):
			return "(EPerm " + c.expr(x.Args[0]) + ")"
		}
		if path, name, ok := pkgCallee(x); ok && !x.Ellipsis.IsValid() {
			// errors.New("constant")
			if path == "errors" && name == "New" && len(x.Args) == 1 {
				if tv, ok := info.Types[x.Args[0]]; ok && tv.Value != nil && tv.Value.Kind() == constant.String {
					return "(EErr " + coqString(constant.StringVal(tv.Value)) + ")"
				}
			}
			if n, ok := golitePrims[path+"."+name]; ok && n == len(x.Args) {
				return "(EPrim " + coqString(path+"."+name) + " " + c.exprList(x.Args) + ")"
			}
			// opaque pure callee over places only
			if goliteOpaque[path+"."+name] {
				allPlaces := true
				for _, a := range x.Args {
					if _, ok := c.place(a); !ok {
						allPlaces = false
					}
				}
				if allPlaces {
					return "(EOpaque " + coqString(nodeText(x)) + ")"
				}
			}
		}
		// method call on an interface-typed field of the receiver: external, recorded as an effect
		if sel, ok := x.Fun.(*ast.SelectorExpr); ok && !x.Ellipsis.IsValid() {
			if p, ok := c.heapPlace(sel.X); ok && p != c.recv {
				if tv, ok := info.Types[sel.X]; ok && tv.Type != nil {
					if _, isIface := tv.Type.Underlying().(*types.Interface); isIface {
						if s := info.Selections[sel]; s != nil && s.Kind() == types.MethodVal {
							return "(EExtern " + coqString(p+"."+sel.Sel.Name) + " " + c.exprList(x.Args) + ")"
						}
					}
				}
			}
		}
	case *ast.IndexExpr:
		if isSliceType(x.X) {
			return "(EIndex " + c.expr(x.X) + " " + c.expr(x.Index) + ")"
		}
	case *ast.SliceExpr:
		if isSliceType(x.X) && x.Low != nil && x.High == nil && x.Max == nil && !x.Slice3 {
			return "(ESliceFrom " + c.expr(x.X) + " " + c.expr(x.Low) + ")"
		}
	case *ast.BinaryExpr:
		switch x.Op {
		case token.LAND:
			return "(EAnd " + c.expr(x.X) + " " + c.expr(x.Y) + ")"
		case token.LOR:
			return "(EOr " + c.expr(x.X) + " " + c.expr(x.Y) + ")"
		case token.EQL, token.NEQ:
			// p == nil / p != nil with p the receiver or a pointer field path of it
			if isNilExpr(x.Y) && isPointerType(x.X) {
				if p, ok := c.heapPlace(x.X); ok {
					if x.Op == token.EQL {
						return "(EIsNil " + coqString(p) + ")"
					}
					return "(ENot (EIsNil " + coqString(p) + "))"
				}
			}
			bx, okx := basicInfo(x.X)
			by, oky := basicInfo(x.Y)
			const cmp = types.IsInteger | types.IsString | types.IsBoolean
			if okx && oky && bx&cmp != 0 && by&cmp != 0 {
				op := map[token.Token]string{token.EQL: "OEq", token.NEQ: "ONe"}[x.Op]
				return "(EBin " + op + " " + c.expr(x.X) + " " + c.expr(x.Y) + ")"
			}
		case token.LSS, token.LEQ, token.GTR, token.GEQ:
			bx, okx := basicInfo(x.X)
			by, oky := basicInfo(x.Y)
			if okx && oky && bx&types.IsInteger != 0 && by&types.IsInteger != 0 {
				op := map[token.Token]string{token.LSS: "OLt", token.LEQ: "OLe", token.GTR: "OGt", token.GEQ: "OGe"}[x.Op]
				return "(EBin " + op + " " + c.expr(x.X) + " " + c.expr(x.Y) + ")"
			}
		case token.ADD, token.SUB:
			// the interpreter wraps + and - at 64 bits, two's complement
			if w, ok := signedIntBits(e); ok && w == 64 {
				op := map[token.Token]string{token.ADD: "OAdd", token.SUB: "OSub"}[x.Op]
				return "(EBin " + op + " " + c.expr(x.X) + " " + c.expr(x.Y) + ")"
			}
		}
	}
	return glUnsE(e)
}

// X.Lock() / X.Unlock() with X the receiver (embedded mutex) or one of its fields
func (c *goliteCtx) mutexCall(call *ast.CallExpr, method string) (string, bool) {
	sel, ok := call.Fun.(*ast.SelectorExpr)
	if !ok || sel.Sel.Name != method || len(call.Args) != 0 {
		return "", false
	}
	if id, ok := sel.X.(*ast.Ident); ok && id.Name == c.recv {
		return c.recv, true
	}
	if p, ok := c.place(sel.X); ok && strings.HasPrefix(p, c.recv+".") {
		return p, true
	}
	return "", false
}

func (c *goliteCtx) block(l []ast.Stmt) string {
	parts := make([]string, 0, len(l))
	for _, s := range l {
		parts = append(parts, c.stmt(s))
	}
	return "[" + strings.Join(parts, "; ") + "]"
}

func (c *goliteCtx) stmt(s ast.Stmt) string {
	switch x := s.(type) {
	case *ast.AssignStmt:
		if len(x.Lhs) == 1 && len(x.Rhs) == 1 && x.Tok == token.ADD_ASSIGN {
			if p, ok := c.place(x.Lhs[0]); ok {
				if w, ok := signedIntBits(x.Lhs[0]); ok {
					if w2, ok := signedIntBits(x.Rhs[0]); ok && w2 == w {
						return fmt.Sprintf("SAddTo %s %d %s", coqString(p), w, c.expr(x.Rhs[0]))
					}
				}
			}
			return glUnsS(s, "assignment form")
		}
		if len(x.Lhs) != 1 || len(x.Rhs) != 1 || (x.Tok != token.ASSIGN && x.Tok != token.DEFINE) {
			return glUnsS(s, "assignment form")
		}
		if p, ok := c.place(x.Lhs[0]); ok {
			return "SSet " + coqString(p) + " " + c.expr(x.Rhs[0])
		}
		if ix, ok := x.Lhs[0].(*ast.IndexExpr); ok && x.Tok == token.ASSIGN && isSliceType(ix.X) {
			if p, ok := c.place(ix.X); ok {
				return "SSetIdx " + coqString(p) + " " + c.expr(ix.Index) + " " + c.expr(x.Rhs[0])
			}
		}
		return glUnsS(s, "assignment target")
	case *ast.IncDecStmt:
		if p, ok := c.place(x.X); ok && x.Tok == token.INC {
			if w, ok := signedIntBits(x.X); ok {
				return fmt.Sprintf("SInc %s %d", coqString(p), w)
			}
		}
		return glUnsS(s, "inc/dec")
	case *ast.IfStmt:
		if x.Init != nil {
			return glUnsS(s, "if with init")
		}
		els := "[]"
		switch e := x.Else.(type) {
		case nil:
		case *ast.BlockStmt:
			els = c.block(e.List)
		case *ast.IfStmt:
			els = "[" + c.stmt(e) + "]"
		default:
			return glUnsS(s, "else form")
		}
		return "SCond " + c.expr(x.Cond) + " " + c.block(x.Body.List) + " " + els
	case *ast.ForStmt:
		if x.Init != nil || x.Post != nil || x.Cond == nil {
			return glUnsS(s, "for form")
		}
		return "SWhile " + c.expr(x.Cond) + " " + c.block(x.Body.List)
	case *ast.RangeStmt:
		key, keyOk := x.Key.(*ast.Ident)
		if x.Tok != token.DEFINE || !keyOk || key.Name != "_" || x.Value == nil {
			return glUnsS(s, "range form")
		}
		p, ok := c.place(x.Value)
		call, isCall := x.X.(*ast.CallExpr)
		if !ok || !(isSliceType(x.X) || (isCall && isRandPerm(call))) {
			return glUnsS(s, "range operand")
		}
		return "SRange " + coqString(p) + " " + c.expr(x.X) + " " + c.block(x.Body.List)
	case *ast.ReturnStmt:
		switch len(x.Results) {
		case 0:
			return "SRet None"
		case 1:
			if call, ok := x.Results[0].(*ast.CallExpr); ok {
				if full, args, ok := c.methodCall(call); ok {
					return "SRetCallM " + coqString(full) + " " + args
				}
			}
			return "SRet (Some " + c.expr(x.Results[0]) + ")"
		}
		return "SRet (Some (ETuple " + c.exprList(x.Results) + "))"
	case *ast.ExprStmt:
		call, ok := x.X.(*ast.CallExpr)
		if !ok {
			return glUnsS(s, "expression statement")
		}
		if m, ok := c.mutexCall(call, "Lock"); ok {
			return "SLock " + coqString(m)
		}
		if m, ok := c.mutexCall(call, "Unlock"); ok {
			return "SUnlock " + coqString(m)
		}
		// r.f(args) with f another translated method of the same receiver type, same receiver name
		if full, args, ok := c.methodCall(call); ok {
			return "SCallM " + coqString(full) + " " + args
		}
		if s, ok := c.localMethodCall(call); ok {
			return s
		}
		return glUnsS(s, "call")
	case *ast.DeferStmt:
		if m, ok := c.mutexCall(x.Call, "Unlock"); ok {
			return "SDeferUnlock " + coqString(m)
		}
		return glUnsS(s, "defer")
	}
	return glUnsS(s, "statement")
}

func goliteRecv(fd *ast.FuncDecl) string {
	if fd.Recv == nil || len(fd.Recv.List) != 1 || len(fd.Recv.List[0].Names) != 1 {
		return ""
	}
	return fd.Recv.List[0].Names[0].Name
}

func goliteFuncs(fm map[string]*ast.FuncDecl) string {
	set := map[string]*ast.FuncDecl{}
	for _, n := range goliteNames {
		if fd, ok := fm[n]; ok {
			set[n] = fd
		}
	}
	var items []string
	for _, n := range goliteNames {
		fd, ok := set[n]
		if !ok {
			missing = append(missing, n)
			continue
		}
		c := &goliteCtx{recv: goliteRecv(fd), recvType: strings.SplitN(n, ".", 2)[0], dupDefs: map[string]bool{}, set: set,
			names: map[types.Object]string{}}
		// every local object gets its own name in the flat frame: the first "x" is "x", a second (shadowing / block
		// scoped) one is "x'2", resolved through go/types' object identity, in source order
		count := map[string]int{}
		ast.Inspect(fd, func(nd ast.Node) bool {
			if id, ok := nd.(*ast.Ident); ok {
				if obj := info.Defs[id]; obj != nil && id.Name != "_" {
					if _, isVar := obj.(*types.Var); isVar {
						if _, done := c.names[obj]; !done {
							count[id.Name]++
							if count[id.Name] == 1 {
								c.names[obj] = id.Name
							} else {
								c.names[obj] = fmt.Sprintf("%s'%d", id.Name, count[id.Name])
							}
						}
					}
				}
			}
			return true
		})
		body := c.block(fd.Body.List)
		params, paramsOk := goliteParams(fd)
		if (c.recv == "" && fd.Recv != nil) || !paramsOk {
			body = "[SUnsupported " + coqString("signature: "+nodeText(fd.Type)) + "]"
		}
		var ps []string
		for _, p := range params {
			ps = append(ps, coqString(p))
		}
		items = append(items, "  ("+coqString(n)+", mkGfun "+coqString(c.recv)+" ["+strings.Join(ps, "; ")+"] "+body+")")
	}
	return "\n(* GoLite: statement-level translation of the bodies (syntax Model/GenTypes.v, semantics Model/GoLite.v) *)\n" +
		"Definition golite_funcs : list (string * gfun) := [\n" + strings.Join(items, ";\n") + "\n].\n"
}
