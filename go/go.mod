module fmpverif

go 1.21
