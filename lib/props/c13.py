"""C13 — sends keep their order, seqnos never reused, send notifier exact."""
import common as C
import scn

RULE = ("scripts over one transport on the simulated connection: 1-8 concurrent senders (calls, notifications, replies of "
        "handlers, cancel frames) with the connection's Write stalled and released, contexts cancelled or timing out while "
        "queued, oversized sends, injected write failures, and strictly sequential senders; the four monitors of "
        "Model/Props.v (notifier exact, seqnos distinct, cancel after call, order kept) run on the abstracted event log. "
        "non-trivial = at least two senders overlap at the hand-off, or a send is cancelled / refused / fails")
TRUSTED = ["the abstraction of the harness event log into Model/Events.v events (ocaml/abstract.ml)",
           "Go channel semantics as encoded in Model/Writer.v (unbuffered rendezvous, select as one label per ready arm)",
           "GoLite (C13_source_*): the generic statement translator in go/gen prints what it walked; SeqNumber is a 64-bit two's complement integer (go/types sizes for gc/amd64); the mutex is a pair of counters and one call runs alone"]
ASSUMPTIONS = ["the simulated connection records a Write event at the instant Write is called by the writer goroutine"]


def scenario(rng, k, big):
    s = []
    n = 0
    fam = rng.below(8)
    if fam == 0:
        # strictly sequential notifications and calls-with-cancel: program order must be wire order
        for _ in range(2 + rng.below(5)):
            n += 1
            if rng.chance(1, 2):
                s.append(scn.notify(n, pad=rng.below(30)))
            else:
                s.append(scn.call(n, pad=rng.below(30)))
                s.append(scn.cancel(n))
        nt = 1 if n >= 2 else 0
    elif fam == 1:
        # burst against a stalled connection, some abandoned
        s.append(scn.notify(1000 + k % 7))                      # writer takes this one and blocks in Write
        s.insert(0, "stallw/on")
        s[1] = scn.notify(1000 + k % 7, nowait=True)
        s.append("waitinwrite")
        m = 2 + rng.below(big)
        ids = []
        for _ in range(m):
            n += 1
            if rng.chance(1, 2):
                s.append(scn.notify(n, pad=rng.below(20), nowait=True, timeout=rng.choice([0, 0, 15])))
                ids.append(("n", n))
            else:
                s.append(scn.call(n, pad=rng.below(20), nowait=True, timeout=rng.choice([0, 0, 15])))
                ids.append(("c", n))
        s.append("settle")
        for kind, i in ids:
            if rng.chance(1, 3):
                s.append(scn.cancel(i, kind, nowait=True))
        s.append("sleep/%d" % rng.choice([0, 0, 25]))
        s.append("stallw/off")
        s.append("settle")
        nt = 1
    elif fam == 2:
        # oversized sends between good ones
        lim = 300
        n += 1; s.append(scn.notify(n, pad=10))
        n += 1; s.append(scn.call(n, pad=400 + rng.below(100)))         # refused
        n += 1; s.append(scn.notify(n, pad=400))                        # refused
        n += 1; s.append(scn.call(n, pad=20)); s.append(scn.cancel(n))
        n += 1; s.append(scn.notify(n, pad=5))
        return scn.line("scn", "s%d" % k, s, max_=lim, extra="nt=1")
    elif fam == 3:
        # handlers replying while we send
        h = 1 + rng.below(3)
        for i in range(h):
            s.append(scn.feed_call(100 + i, 500 + i))
        s.append("waithandlers/%d" % h)
        n += 1; s.append(scn.call(n, nowait=True))
        order = rng.shuffle(list(range(h)))
        for i in order:
            s.append(scn.finish(i, 500 + i, pad=rng.below(40), nowait=rng.chance(1, 2)))
        n += 1; s.append(scn.notify(n))
        s.append("waitwrites/%d" % (h + 2))
        s.append(scn.cancel(1))
        nt = 1
    elif fam == 4:
        # write failure in the middle
        n += 1; s.append(scn.notify(n))
        s.append("writefail/%d" % rng.below(9))
        n += 1; s.append(scn.call(n, nowait=True)); s.append("await/c%d" % n)
        n += 1; s.append(scn.notify(n))
        if rng.chance(2, 3):
            # the failure was transient: later calls go through and must not reuse the failed call's seqno
            s.append("writeok")
            for _ in range(1 + rng.below(3)):
                n += 1; s.append(scn.call(n, pad=rng.below(8)))
            for i in range(n, 0, -1):
                s.append(scn.cancel(i))
        nt = 1
    elif fam == 7:
        # the connection refuses one or two writes whole with an error that calls itself temporary: whatever the library makes
        # of it, the notifier runs once per call and no seqno is handed to the connection twice
        n += 1; s.append(scn.notify(n))
        s.append("writetemp/%d" % (1 + rng.below(2)))
        n += 1; s.append(scn.call(n, nowait=True)); s.append("sleep/30"); s.append(scn.cancel(n))
        n += 1; s.append(scn.notify(n, nowait=True)); s.append("sleep/30")
        s.append("writeok")
        n += 1; s.append(scn.call(n, pad=3, nowait=True)); s.append("sleep/5"); s.append(scn.cancel(n))
        nt = 1
    elif fam == 6:
        # a strictly sequential sender against a writer that is stuck inside Write: sends whose context ends while they
        # wait cannot have been handed over, so they are abandoned (each returns before the next begins) and must never
        # reach the wire, nor their notifier run; the live ones reach it in program order
        s += ["stallw/on", scn.notify(1000 + k % 7, nowait=True), "waitinwrite"]
        live, dead = [], []
        for _ in range(2 + rng.below(4)):
            n += 1
            if rng.chance(2, 3):
                if rng.chance(2, 3):
                    s.append(scn.notify(n, pad=rng.below(12), timeout=rng.choice([3, 8])))      # returns with its deadline
                else:
                    s.append(scn.call(n, pad=rng.below(12), timeout=rng.choice([3, 8]), nowait=True)); s.append("await/c%d" % n)
                dead.append(n)
            else:
                s.append(scn.notify(n, pad=rng.below(12), nowait=True)); live.append(n)
                s.append("sleep/1")
        s += ["stallw/off"] + ["await/n%d" % i for i in live] + ["settle", "sleep/2", "settle"]
        return scn.line("scn", "s%d" % k, s, extra="nt=1 family=sequential-against-stuck-writer neverwritten=%s" % ",".join(str(d) for d in dead))
    else:
        # cancel racing the hand-off: cancel immediately after starting, no stall
        for _ in range(2 + rng.below(4)):
            n += 1
            s.append(scn.call(n, pad=rng.below(10), nowait=True))
            if rng.chance(2, 3):
                s.append(scn.cancel(n, nowait=rng.chance(1, 2)))
        s.append("settle")
        for i in range(1, n + 1):
            s.append(scn.cancel(i))
        nt = 1
    s.append("settle")
    return scn.line("scn", "s%d" % k, s, extra="nt=%d" % nt)


def explore(ctx):
    rng, tier = ctx["rng"], ctx["tier"]
    if ctx.get("replay"):
        lines = C.replay_lines(ctx["replay"])
    else:
        lines = C.load_corpus("C13")
        n = {"quick": 400, "thorough": 6000, "search": 1500}[tier]
        big = {"quick": 4, "thorough": 8, "search": 6}[tier]
        for k in range(n):
            lines.append(scenario(rng, k, big))
    triples, tie = C.run_both(ctx, "TestVerifScn", lines, go_timeout=900)
    return dict(verdicts=triples, tie=tie, stats=dict(scenarios=len(lines)))
