"""C04 — decoding independent of read chunking; resynchronises on every frame."""
import itertools
import hashlib
import common as C
import mp, frames

RULE = ("streams of 1-4 frames (valid frames of every kind with alternative widths and extra elements, interleaved with "
        "valid-length/invalid-content frames: short, long, bad header, bad type, unknown method, stray response); every short "
        "stream (<= bound bytes) under ALL 2^(n-1) read partitions; long streams under every single cut, sampled double cuts, "
        "1-byte reads and one read; non-trivial = a chunking that cuts inside a length prefix, inside a field or exactly at a "
        "frame end (i.e. any chunking other than the single read) of a stream with >= 2 frames")
TRUSTED = ["modelled, not verified: bufio.Reader and go-codec's ReadFull-style loops as Model/Reader.v; the frame reader's "
           "clamp-and-drain as an exact declared-length consumption (Model/Frame.v next_frame)",
           "go-codec generic decoding (DecodeNaked) as Model/Msgpack.v dec; ext and float32 are outside the modelled zone"]
ASSUMPTIONS = ["frames whose first outcome the model calls unspecified (ext, float32, array-as-bytes) are checked by the property predicates only"]


def partitions(n):
    """all compositions of n as lists of chunk sizes"""
    for mask in range(1 << (n - 1)):
        sizes, cur = [], 1
        for i in range(n - 1):
            if mask >> i & 1:
                sizes.append(cur)
                cur = 1
            else:
                cur += 1
        sizes.append(cur)
        yield sizes


def small_streams(rng, bound, count):
    """streams of at most `bound` bytes made of tiny frames"""
    res = []
    tiny = [
        lambda ch: frames.content([3, rng.below(100), ("s", b"z")], ch),
        lambda ch: frames.content([2, ("s", b"z"), rng.below(50)], ch),
        lambda ch: frames.content([1, 7, None, rng.below(100)], ch),
        lambda ch: frames.content([1, 99, None, None], ch),
        lambda ch: frames.content([0, 1, ("s", b"q"), None], ch),
        lambda ch: frames.content([0, 1], ch),
        lambda ch: bytes([0x90, 1, 2]),
        lambda ch: frames.content([3, 5, ("s", b"z")], ch, n=5),
        lambda ch: frames.content([3, 5, ("s", b"z")], ch) + b"\x01\x02",
        lambda ch: frames.content([9, 5, ("s", b"z")], ch),
        lambda ch: frames.content([0, 2, ("s", b"z"), rng.below(9)], ch),
    ]
    tries = 0
    while len(res) < count and tries < count * 50:
        tries += 1
        ch = mp.Chooser(rng, 1, 4)
        s = b""
        for _ in range(1 + rng.below(3)):
            s += frames.frame(rng.choice(tiny)(ch), ch)
        if 2 <= len(s) <= bound:
            res.append(s)
    return res


def explore(ctx):
    rng, tier = ctx["rng"], ctx["tier"]
    lines = []
    if ctx.get("replay"):
        lines = C.replay_lines(ctx["replay"])
    else:
        lines += C.load_corpus("C04")
        bound = {"quick": 11, "thorough": 16, "search": 12}[tier]
        nsmall = {"quick": 30, "thorough": 40, "search": 40}[tier]
        nlong = {"quick": 150, "thorough": 2000, "search": 400}[tier]
        k = 0
        for s in small_streams(rng, bound, nsmall):
            for sizes in partitions(len(s)):
                nt = 1 if len(sizes) > 1 else 0
                lines.append("dec d%d %s stream=%s chunks=%s mode=rest end=eof nt=%d" % (k, frames.ENV, s.hex(), ",".join(map(str, sizes)), nt))
                k += 1
        for _ in range(nlong):
            ch = mp.Chooser(rng, 1, 3)
            s = b""
            nfr = 1 + rng.below(4)
            for _ in range(nfr):
                if rng.chance(1, 3):
                    c, _ = frames.gen_bad_content(rng, ch)
                else:
                    c, _ = frames.gen_msg(rng, ch)
                s += frames.frame(c, ch)
            if rng.chance(1, 5):
                s = s[: rng.below(len(s) + 1)]          # truncated stream (also C05)
            n = len(s)
            if n == 0:
                continue
            lines.append("dec d%d %s stream=%s chunks=- mode=rest end=eof nt=0" % (k, frames.ENV, s.hex())); k += 1
            lines.append("dec d%d %s stream=%s chunks=- mode=one end=eof nt=1" % (k, frames.ENV, s.hex())); k += 1
            cuts = range(1, n) if n <= 400 else [rng.below(n - 1) + 1 for _ in range(400)]
            for c1 in cuts:
                lines.append("dec d%d %s stream=%s chunks=%d mode=rest end=eof nt=1" % (k, frames.ENV, s.hex(), c1)); k += 1
            for _ in range(min(40, n)):
                if n >= 3:
                    a = 1 + rng.below(n - 2)
                    b = 1 + rng.below(n - a - 1) if n - a - 1 > 0 else 1
                    lines.append("dec d%d %s stream=%s chunks=%d,%d mode=rest end=eof nt=1" % (k, frames.ENV, s.hex(), a, b)); k += 1
        # large frames: undecoded remainders and arguments bigger than the 4096-byte bufio buffer and than 64 KiB
        nbig = {"quick": 12, "thorough": 120, "search": 40}[tier]
        for _ in range(nbig):
            ch = mp.Chooser(rng, 1, 3)
            big = rng.choice([4090, 4097, 5000, 9000, 70000])
            parts = []
            for _ in range(2 + rng.below(3)):
                kind = rng.below(5)
                if kind == 0:    # unknown method with a big argument: nothing of the argument is decoded
                    parts.append(frames.content([0, rng.below(100), ("s", rng.choice(frames.UNKNOWN)), ("b", rng.bytes(8) * (big // 8))], ch))
                elif kind == 1:  # valid message followed by big padding inside the declared length
                    parts.append(frames.content([3, rng.below(100), ("s", b"p.m")], ch) + rng.bytes(4) * (big // 4))
                elif kind == 2:  # big valid argument
                    parts.append(frames.content([2, ("s", b"p.n"), ("b", rng.bytes(8) * (big // 8))], ch))
                elif kind == 3:  # stray response with a big result
                    parts.append(frames.content([1, 12345, None, ("s", b"x" * big)], ch))
                else:
                    parts.append(frames.content([3, rng.below(100), ("s", b"z")], ch))
            fr = [frames.frame(c, ch) for c in parts]
            s = b"".join(fr)
            n = len(s)
            # resynchronisation, implementation against itself: the stream from frame i on, read alone
            for i in range(1, len(fr)):
                suf = b"".join(fr[i:])
                lines.append("dec d%d %s stream=%s chunks=- mode=rest end=eof nt=0 suffixof=%s skip=%d" % (k, frames.ENV, suf.hex(), hashlib.sha1(s.hex().encode()).hexdigest(), i)); k += 1
            lines.append("dec d%d %s stream=%s chunks=- mode=rest end=eof nt=0" % (k, frames.ENV, s.hex())); k += 1
            lines.append("dec d%d %s stream=%s chunks=- mode=one end=eof nt=1" % (k, frames.ENV, s.hex())); k += 1
            for _ in range(6):
                cs = [1 + rng.below(max(1, n // 3)) for _ in range(3)]
                lines.append("dec d%d %s stream=%s chunks=%s mode=rest end=eof nt=1" % (k, frames.ENV, s.hex(), ",".join(map(str, cs)))); k += 1
    triples, tie = C.run_both(ctx, "TestVerifC04", lines, go_timeout=900)
    # predicates on the implementation's observations alone (no model involved):
    #  (1) every chunking of the same stream gives the same outcomes and consumption
    #  (2) a stream read from its i-th frame on gives the tail of the outcomes of the whole stream
    def field(line, name):
        for tok in line.split(" "):
            if tok.startswith(name + "="):
                return tok[len(name) + 1:]
        return ""
    by_stream = {}
    for c, v, o in triples:
        if c.startswith("dec ") and o:
            by_stream.setdefault(field(c, "stream"), []).append((c, v, o))
    extra = []
    for st, lst in by_stream.items():
        base = field(lst[0][2], "outs")
        for c, v, o in lst[1:]:
            if field(o, "outs") != base:
                extra.append((c, "PROPFAIL %s sig=chunking-dependent outcomes differ between two chunkings of one stream: %s vs %s"
                              % (c.split(" ")[1], field(o, "outs")[:200], base[:200]), o))
                break
    whole = {}
    for c, v, o in triples:
        if c.startswith("dec ") and o and "suffixof=" not in c:
            st = field(c, "stream")
            whole[hashlib.sha1(st.encode()).hexdigest()] = field(o, "outs").split("|")
    for c, v, o in triples:
        if "suffixof=" in c and o:
            w = whole.get(field(c, "suffixof"))
            i = int(field(c, "skip"))
            got = field(o, "outs").split("|")
            if w is not None and len(w) > i and all(not x.startswith("err:") for x in w[:i]) and w[i:] != got:
                extra.append((c, "PROPFAIL %s sig=no-resync frames after #%d decode differently when read after the earlier frames (%s) than alone (%s)"
                              % (c.split(" ")[1], i, "|".join(w[i:])[:200], "|".join(got)[:200]), o))
    triples += extra
    stats = dict(cases=len(lines), unspecified=sum(1 for t in triples if " unspec" in t[1]),
                 streams=len(by_stream), chunkings_compared=sum(len(v) for v in by_stream.values()))
    return dict(verdicts=triples, tie=tie, stats=stats)
