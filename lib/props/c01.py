"""C01 — every call is answered by its own handler invocation, exactly once."""
import itertools
import common as C
import scn, frames, mp

T = mp.vtext
RULE = ("N of our calls (answered by the peer in every one of the N! orders, N <= 3 quick / 4 thorough, each reply carrying "
        "a result that names the call it answers) mixed with M incoming calls and notifications served by handlers that "
        "finish in every order, with generated arguments, results, application errors and tag maps (compared with what the "
        "handler saw / the caller got), replies delayed by parking the ServerReply hook, notifications, cancellations and "
        "not-found calls in between, compressed calls; at quiescence: one invocation per delivered request with exactly the "
        "argument and tags supplied, one reply per handler that returned (live transport, not cancelled) carrying its own "
        "result, never two, and no caller holds a result sent for another seqno. non-trivial = >= 2 calls overlapping with "
        "a completion order different from the start order")
TRUSTED = ["results and arguments carry a nonce (first array element) by which frames, invocations and results are matched",
           "go-codec's generic decoding of arguments (handlers take interface{})"]
ASSUMPTIONS = []


def val(rng, nonce):
    return [nonce, mp.gen_value(rng, 2)]


def scenario(rng, ident, n_out, n_in, order_out, order_in, tier):
    s = []
    exp, expinv, exprep = [], [], []
    # our calls
    for i in range(1, n_out + 1):
        a = val(rng, i)
        ct = 0          # compression is C06's
        s.append("call/c%d/%s/%s/%d/-/0" % (i, scn.M.hex(), T(a), ct))
    # incoming requests
    hid = 0
    kinds = []
    for j in range(n_in):
        nonce = 100 + j
        a = val(rng, nonce)
        tags = mp.gen_tags(rng) if rng.chance(1, 2) else None
        iscall = rng.chance(3, 4)
        ch = mp.Chooser(rng, 1, 3)
        el = [0, 50 + j, ("s", scn.M), a] if iscall else [2, ("s", scn.M), a]
        if tags is not None:
            el.append(tags)
        s.append("feed/" + frames.frame(frames.content(el, ch), ch).hex())
        s.append("waithandlers/%d" % (hid + 1))
        expinv.append("%d~%s~%s" % (nonce, T(a), T(tags) if tags is not None else "-"))
        kinds.append(iscall)
        hid += 1
    if rng.chance(1, 4):
        s.append(scn.feed_call(90, 900, meth=b"p.nosuch")); s.append("settle")     # not-found in between
    delayed = rng.chance(1, 4) and any(kinds)
    if delayed:
        s.append("park/ServerReply/1")
    # completions, interleaved: handlers in order_in, replies to our calls in order_out
    todo = [("h", h) for h in order_in] + [("c", c) for c in order_out]
    todo = rng.shuffle(todo) if rng.chance(1, 2) else todo
    cancelled = set()
    for kind, i in todo:
        if kind == "h":
            res = val(rng, 100 + i)
            err = "-"
            if rng.chance(1, 5):
                err = T(("s", b"app-error-%d" % i))
            elif rng.chance(1, 6):
                err = rng.choice(["!canceled", "!deadline", "!eof"])
            s.append("finish/%d/%s/%s/nowait" % (i, T(res), err))
            if kinds[i]:
                exprep.append("%d~%d" % (50 + i, 100 + i))
        else:
            if rng.chance(1, 6):
                s.append(scn.cancel(i)); exp.append("%d:ctx" % i); cancelled.add(i)
            else:
                s.append("replyto/%d" % i); s.append("await/c%d" % i); exp.append("%d:ok" % i)
    if delayed:
        s += ["waitpark/ServerReply", "sleep/2", "release/ServerReply"]
    s.append("waitev/hret~/%d" % n_in)
    s.append("waitwrites/%d" % (n_out + len(exprep) + len(cancelled)))
    s.append("settle")
    nt = 1 if (n_out >= 2 and list(order_out) != sorted(order_out)) or (n_in >= 2 and list(order_in) != sorted(order_in)) else 0
    extra = "nt=%d quiescent=1 wef=1 family=mix expect=%s" % (nt, ",".join(exp))
    if expinv:
        extra += " expectinv=" + "|".join(expinv)
    if exprep:
        extra += " expectreply=" + ",".join(exprep)
    return scn.line("scn", ident, s, extra=extra)


def oversize_reply(rng, ident):
    """a handler result too large for the frame limit: the caller must still be answered"""
    s = [scn.feed_call(50, 100), "waithandlers/1", scn.finish(0, 100, pad=5000), "settle", "sleep/2", "settle"]
    return scn.line("scn", ident, s, max_=2000, extra="nt=1 quiescent=1 family=oversize-reply expectreply=50~100")


def undecodable_reply(rng, ident):
    """the peer's result does not decode into the caller's result type: the call must not report success"""
    bad = rng.choice([("m", [(("s", b"A"), 7), (("s", b"B"), ("s", b"seven"))]), ("s", b"not-a-struct"), [1, ("s", b"x")]])
    ch = mp.Chooser()
    resp = frames.frame(frames.content([1, 0, None, bad], ch), ch)
    s = ["calltyped/c1/%s/%s" % (scn.M.hex(), T(scn.arg(1))), "feednowait/" + resp.hex(), "await/c1", "settle"]
    return scn.line("scn", ident, s, extra="nt=1 family=undecodable-reply expect=1:eof+other+app")


def stale_reply_new_call(rng, ident, hook, nth, how):
    """call A returns (cancel / deadline) while its reply is parked between look-up and delivery; call B starts before the
    rest of A's reply is processed: B must be answered by ITS reply, never by A's"""
    s = ["park/%s/%d" % (hook, nth), scn.call(1, timeout=12 if how == "deadline" else 0),
         "feednowait/" + scn.feed_resp(0, 1, pad=5 + rng.below(20))[5:], "waitpark/" + hook]
    s.append(scn.cancel(1) if how == "cancel" else "await/c1")
    k = 1 + rng.below(3)
    for i in range(k):
        s.append(scn.call(2 + i))
    s += ["sleep/2", "release/" + hook, "settle", "sleep/2"]
    order = list(range(k))
    if rng.chance(1, 2):
        order.reverse()
    for i in order:
        s.append(scn.feed_resp(1 + i, 2 + i, pad=rng.below(10)))
        s.append("await/c%d" % (2 + i))
    s.append("settle")
    exp = ["1:ctx+ok"] + ["%d:ok" % (2 + i) for i in range(k)]
    return scn.line("scn", ident, s, extra="nt=1 family=stale-reply-new-call expect=%s" % ",".join(exp))


def late_registration(rng, ident):
    """a call / notification for a protocol that is not registered yet (answered not-found / dropped), then the protocol is
    registered on the running transport: from then on every delivered request must reach the handler exactly once"""
    s = []
    pre = rng.choice(["call", "notify", "both"])
    q = ("s", b"late")
    if pre in ("call", "both"):
        s += [scn.feed_call(40, 700, meth=b"late.m"), "settle"]
    if pre in ("notify", "both"):
        s += [scn.feed_notify(701, meth=b"late.m"), "settle"]
    s += ["register/%s:%s" % (b"late".hex(), b"m".hex())]
    inv = []
    hid = 0
    for i in range(1 + rng.below(3)):
        if rng.chance(2, 3):
            s += [scn.feed_call(41 + i, 710 + i, meth=b"late.m"), "waithandlers/%d" % (hid + 1), scn.finish(hid, 710 + i), "settle"]
            inv.append("%d~%s~-" % (710 + i, T(scn.arg(710 + i))))
        else:
            s += [scn.feed_notify(710 + i, meth=b"late.m"), "waithandlers/%d" % (hid + 1), scn.finish(hid, 710 + i), "settle"]
            inv.append("%d~%s~-" % (710 + i, T(scn.arg(710 + i))))
        hid += 1
    s += ["settle"]
    return scn.line("scn", ident, s, extra="nt=1 quiescent=1 family=late-registration latemethods=6c6174652e6d expectinv=%s" % "|".join(inv))


def sibling_tags(rng, ident):
    """several calls / notifications made from ONE context that already carries tags (a session), each adding its own tags
    (or none): every frame must carry exactly the tags of its own context"""
    def tm(pairs):
        return ("m", [(("s", k), v) for k, v in pairs])
    skeys = [b"session", b"req", b"trace"]
    sess = [(b"session", ("s", b"s%d" % rng.below(9)))]
    if rng.chance(1, 3):
        sess.append((b"req", ("s", b"base")))
    s = ["session/" + T(tm(sess))]
    k = 2 + rng.below(3)
    per = []
    for i in range(1, k + 1):
        own = []
        if rng.chance(3, 4):
            own.append((b"req", ("s", b"r%d" % i)))
        if rng.chance(1, 3):
            own.append((b"trace", rng.below(1000)))
        per.append(own)
    kinds = ["c"] * k          # notification frames are C19's (the trace abstraction identifies operations by call ids)
    conc = rng.chance(1, 3)
    for i in range(1, k + 1):
        tg = T(tm(per[i - 1])) if per[i - 1] else "-"
        if kinds[i - 1] == "c":
            s.append(scn.call(i, tags=tg, nowait=conc))
        else:
            s.append(scn.notify(i, tags=tg, nowait=conc))
    s.append("waitwrites/%d" % k)
    exp = []
    for i in range(1, k + 1):
        if kinds[i - 1] == "c":
            s += ["replyto/%d" % i, "await/c%d" % i]; exp.append("%d:ok" % i)
    s.append("settle")
    ct = "|".join("%d~%s" % (i, T(tm(per[i - 1])) if per[i - 1] else "-") for i in range(1, k + 1))
    return scn.line("scn", ident, s, extra="nt=1 family=sibling-tags session=%s calltags=%s expect=%s" % (T(tm(sess)), ct, ",".join(exp)))


def reply_races_context_end(rng, ident):
    """the caller is held between handing over its frame and waiting for the reply; meanwhile its context ends AND its
    reply arrives, so both are ready when it gets there: it may report either, but if it reports success the result must
    be the one the peer sent"""
    k = 1 + rng.below(3)
    how = rng.choice(["cancel", "cancel", "deadline"])
    s = ["park/ClientCall/%d" % k]
    for i in range(1, k):
        s += [scn.call(i), "replyto/%d" % i, "await/c%d" % i]
    s += [scn.call(k, pad=rng.below(30), timeout=(25 if how == "deadline" else 0), nowait=True), "waitpark/ClientCall"]
    s += [scn.cancel(k, nowait=True)] if how == "cancel" else ["sleep/40"]
    s += ["replyto/%d" % k, "settle", "release/ClientCall", "await/c%d" % k, "settle"]
    exp = ["%d:ok" % i for i in range(1, k)] + ["%d:ok+ctx" % k]
    return scn.line("scn", ident, s, extra="nt=1 family=reply-races-context-end expect=%s" % ",".join(exp))


def long_history(rng, ident, n):
    """a long history on one connection - n requests of which many are cancelled by the peer while their handler runs, some
    abandoned notifications - leaves nothing behind: the requests that follow are each invoked once and answered"""
    s = []
    hid = 0
    for i in range(n):
        r = rng.below(8)
        if r == 0:
            s += [scn.feed_notify(2000 + i), "waithandlers/%d" % (hid + 1), scn.finish(hid, 2000 + i, nowait=True)]
        else:
            s += [scn.feed_call(1000 + i, 2000 + i), "waithandlers/%d" % (hid + 1)]
            if r != 1:
                s.append(scn.feed_cancel(1000 + i))
            s.append(scn.finish(hid, 2000 + i, nowait=True))
        hid += 1
    s += ["waitev/hret~/%d" % hid, "settle"]
    inv, rep = [], []
    for j in range(3):
        nonce = 9000 + j
        if j == 1:
            s += [scn.feed_notify(nonce), "waithandlers/%d" % (hid + 1), scn.finish(hid, nonce), "settle"]
        else:
            s += [scn.feed_call(5000 + j, nonce), "waithandlers/%d" % (hid + 1), scn.finish(hid, nonce), "settle"]
            rep.append("%d~%d" % (5000 + j, nonce))
        inv.append("%d~%s~-" % (nonce, T(scn.arg(nonce))))
        hid += 1
    return scn.line("scn", ident, s, extra="nt=1 family=long-history expectinv=%s expectreply=%s" % ("|".join(inv), ",".join(rep)))


def concurrent_compressed(rng, ident):
    """several compressed calls with different arguments started together on one connection: each frame carries its own
    call's argument and each caller gets the result sent for it"""
    k = 2 + rng.below(4)
    ct = rng.choice([1, 1, 2])
    s = []
    held = rng.chance(2, 3)
    if held:
        # the first caller is held where it reads its context's tags - after its argument was compressed, before its frame is
        # put together - while the others go through
        s.append("park/CtxTags/1")
    for i in range(1, k + 1):
        s.append("call/c%d/%s/%s/%d/-/0/nowait" % (i, scn.M.hex(), T(scn.arg(i, 2000 + 37 * i + rng.below(500))), ct))
        if held and i == 1:
            s.append("waitpark/CtxTags")
    if held:
        s += ["waitwrites/%d" % (k - 1), "release/CtxTags"]
    s.append("waitwrites/%d" % k)
    exp = []
    for i in rng.shuffle(list(range(1, k + 1))):
        s += ["replyto/%d/%s/%d" % (i, T(scn.arg(i, rng.below(30))), ct), "await/c%d" % i]; exp.append("%d:ok" % i)
    s.append("settle")
    return scn.line("scn", ident, s, extra="nt=1 family=concurrent-compressed-calls expect=%s" % ",".join(exp))


def explore(ctx):
    rng, tier = ctx["rng"], ctx["tier"]
    if ctx.get("replay"):
        lines = C.replay_lines(ctx["replay"])
    else:
        lines = C.load_corpus("C01")
        nmax = {"quick": 3, "thorough": 4, "search": 3}[tier]
        n = 0
        for n_out in range(0, nmax + 1):
            for order_out in itertools.permutations(range(1, n_out + 1)):
                for n_in in range(0, nmax + 1):
                    perms = list(itertools.permutations(range(n_in)))
                    if len(perms) > 6 and tier == "quick":
                        perms = [rng.choice(perms) for _ in range(4)]
                    for order_in in perms:
                        if n_out + n_in == 0:
                            continue
                        lines.append(scenario(rng, "m%d" % n, n_out, n_in, order_out, order_in, tier)); n += 1
        for _ in range({"quick": 1, "thorough": 8, "search": 2}[tier]):
            for how in ("cancel", "deadline"):
                for hook, nths in (("UnwrapMakeArg", [1]), ("UnwrapError", [1]), ("FrameRead", list(range(1, 8)))):
                    for nth in nths:
                        lines.append(stale_reply_new_call(rng, "r%d" % n, hook, nth, how)); n += 1
        for _ in range({"quick": 10, "thorough": 100, "search": 20}[tier]):
            lines.append(late_registration(rng, "g%d" % n)); n += 1
        for _ in range({"quick": 12, "thorough": 150, "search": 30}[tier]):
            lines.append(sibling_tags(rng, "t%d" % n)); n += 1
        for _ in range({"quick": 16, "thorough": 200, "search": 40}[tier]):
            lines.append(reply_races_context_end(rng, "x%d" % n)); n += 1
        for _ in range({"quick": 12, "thorough": 150, "search": 30}[tier]):
            lines.append(concurrent_compressed(rng, "K%d" % n)); n += 1
        for nn in {"quick": [380], "thorough": [380, 700, 1400], "search": [380]}[tier]:
            lines.append(long_history(rng, "L%d" % n, nn)); n += 1
        for _ in range(2):
            lines.append(oversize_reply(rng, "o%d" % n)); n += 1
        for _ in range(6):
            lines.append(undecodable_reply(rng, "u%d" % n)); n += 1
    triples, tie = C.run_both(ctx, "TestVerifScn", lines, go_timeout=1500)
    return dict(verdicts=triples, tie=tie, stats=dict(scenarios=len(lines)), exhaustive=not ctx.get("replay"))
