"""C05 — hostile or damaged input fails closed."""
import common as C
import mp, frames

RULE = ("valid sessions of 1-3 frames mutated by bit flips, length-prefix edits (zero, negative, non-integer, out of int32, "
        "above max, every integer width), splices (insert/delete/duplicate ranges), truncation at EVERY byte offset of a set of "
        "sessions, inner msgpack lengths claiming up to 2^31 elements or bytes, and random bytes; three ways the stream ends "
        "(EOF, closed-connection OpError, other error); each stream goes through the white-box frame reader and, for a "
        "subset, through a whole transport on the simulated connection. non-trivial = the stream is not a valid session "
        "(some mutation applied) and the model places it inside its precise zone")
TRUSTED = ["absence of panics, bounded allocation and termination inside go-codec are TESTED (every case runs under recover "
           "and a wall-clock bound; the largest read the decoder ever requests is recorded), not proved",
           "go-codec's leniencies are part of the model as calibrated on the unchanged tree: nil accepted for any typed field "
           "(zero value), bin accepted for strings, uint64 above 2^63-1 wraps when read into an int field"]
ASSUMPTIONS = ["a stream that ends inside the length prefix may be reported as io.EOF or io.ErrUnexpectedEOF (the property speaks of frame bodies only)"]


def mutate(rng, s):
    b = bytearray(s)
    kind = rng.below(8)
    desc = ""
    if kind == 0 and b:
        for _ in range(1 + rng.below(3)):
            i = rng.below(len(b))
            b[i] ^= 1 << rng.below(8)
        desc = "bitflip"
    elif kind == 1:
        # replace the first length prefix
        first = b[0] if b else 0
        plen = {0xcc: 2, 0xcd: 3, 0xce: 5, 0xcf: 9, 0xd0: 2, 0xd1: 3, 0xd2: 5, 0xd3: 9}.get(first, 1)
        z = rng.choice([0, -1, -33, -129, 2 ** 31 - 1, 2 ** 31, 2 ** 32, 2 ** 63 - 1, 2 ** 63, 2 ** 64 - 1, -2 ** 31, -2 ** 31 - 1, -2 ** 63,
                        2001, 5000, 1 << 20, (1 << 20) + 1, len(b) - plen + rng.below(3) - 1,
                        # out of the 32-bit range, but the low 32 bits are the right length
                        (len(b) - plen) + (1 << 32), (len(b) - plen) + (1 << 32), (len(b) - plen) - (1 << 32), (len(b) - plen) + (1 << 63),
                        (len(b) - plen) + (rng.below(1 << 20) + 1) * (1 << 32)])
        if rng.chance(1, 4):
            newp = rng.choice([b"\xc0", b"\xc1", b"\xc2", b"\xc3", b"\xa1a", b"\xc4\x01a", b"\x91\x01", b"\x80", b"\xcb" + b"\0" * 8, b"\xca\0\0\0\0", b"\xd4\x01\x02"])
        else:
            newp = rng.choice(mp.int_opts(z))
        b[0:plen] = newp
        desc = "prefix-edit"
    elif kind == 2 and b:
        i = rng.below(len(b) + 1)
        b[i:i] = rng.bytes(1 + rng.below(6))
        desc = "insert"
    elif kind == 3 and len(b) > 2:
        i = rng.below(len(b) - 1)
        del b[i:i + 1 + rng.below(min(8, len(b) - i))]
        desc = "delete"
    elif kind == 4 and len(b) > 2:
        i = rng.below(len(b) - 1)
        j = i + 1 + rng.below(min(10, len(b) - i))
        b[j:j] = b[i:j]
        desc = "duplicate"
    elif kind == 5 and b:
        # inner length bomb: overwrite a position with a 32-bit container/string header claiming a huge size
        i = 1 + rng.below(max(1, len(b) - 1))
        hdr = rng.choice([b"\xdd", b"\xdf", b"\xdb", b"\xc6"]) + rng.choice([b"\x7f\xff\xff\xff", b"\x80\x00\x00\x00", b"\xff\xff\xff\xff", b"\x00\x10\x00\x00"])
        b[i:i + 1] = hdr
        # keep the outer prefix consistent half of the time
        desc = "length-bomb"
    elif kind == 6:
        b = bytearray(rng.bytes(1 + rng.below(40)))
        desc = "random"
    else:
        cut = rng.below(len(b) + 1)
        b = b[:cut]
        desc = "truncate"
    return bytes(b), desc


def session(rng):
    ch = mp.Chooser(rng, 1, 4)
    s = b""
    for _ in range(1 + rng.below(3)):
        c, _ = frames.gen_msg(rng, ch, depth=2)
        s += frames.frame(c, ch)
    return s


def explore(ctx):
    rng, tier = ctx["rng"], ctx["tier"]
    lines = []
    if ctx.get("replay"):
        lines = C.replay_lines(ctx["replay"])
    else:
        lines += C.load_corpus("C05")
        n_mut = {"quick": 3000, "thorough": 100000, "search": 12000}[tier]
        n_trunc = {"quick": 20, "thorough": 120, "search": 40}[tier]
        n_scn = {"quick": 400, "thorough": 6000, "search": 1200}[tier]
        k = 0
        kinds = {}
        for _ in range(n_mut):
            s, d = mutate(rng, session(rng))
            if rng.chance(1, 5):
                s, d2 = mutate(rng, s)
                d += "+" + d2
            kinds[d] = kinds.get(d, 0) + 1
            mx = rng.choice([2000, 2000, 1048576])
            end = rng.choice(["eof", "eof", "op", "other"])
            mode = rng.choice(["rest", "one"])
            lines.append("dec d%d %s max=%d stream=%s chunks=- mode=%s end=%s nt=1" % (k, frames.ENV, mx, s.hex(), mode, end))
            k += 1
        for _ in range(n_trunc):
            s = session(rng)
            for cut in range(len(s) + 1):
                lines.append("dec d%d %s max=1048576 stream=%s chunks=- mode=rest end=eof nt=%d" % (k, frames.ENV, s[:cut].hex(), 1 if cut < len(s) else 0))
                k += 1
        kinds["truncate-every-offset"] = n_trunc
        # a LARGE length prefix (at or just below the maximum, so it passes the prefix check) in front of a short frame whose
        # argument / method / tag field is a 32-bit container or string header claiming up to 2^32-1 elements; the stream
        # ends there.  What is buffered on behalf of this frame must not depend on what the prefix or the header CLAIM.
        n_bomb = {"quick": 60, "thorough": 2000, "search": 200}[tier]
        for _ in range(n_bomb):
            mx = rng.choice([1048576, 1048576, 4194304])
            claim = rng.choice([mx, mx - 1, mx - rng.below(1000), mx // 2])
            hdr = rng.choice([b"\xdd", b"\xdf", b"\xdb", b"\xc6", b"\xdc\xff\xff", b"\xde\xff\xff"])
            if len(hdr) == 1:
                hdr += rng.choice([b"\x7f\xff\xff\xff", b"\x80\x00\x00\x00", b"\xff\xff\xff\xff", b"\x00\x10\x00\x00", b"\x04\x00\x00\x00"])
            shape = rng.below(4)
            if shape == 0:      # call to a registered method (untyped or typed handler), the bomb is the argument
                body = b"\x94\x00" + mp.enc(rng.below(100), mp.Chooser()) + mp.enc(("s", rng.choice(frames.KNOWN)), mp.Chooser()) + hdr
            elif shape == 1:    # notification, the bomb is the argument
                body = b"\x93\x02" + mp.enc(("s", rng.choice(frames.KNOWN)), mp.Chooser()) + hdr
            elif shape == 2:    # response to a pending call, the bomb is the result
                body = b"\x94\x01\x07\xc0" + hdr
            else:               # call, the bomb is the tag map
                body = b"\x95\x00\x05" + mp.enc(("s", b"p.m"), mp.Chooser()) + b"\x01" + hdr
            tail = rng.bytes(rng.below(24))
            s_ = b"\xce" + claim.to_bytes(4, "big") + body + tail
            lines.append("dec d%d %s max=%d stream=%s chunks=- mode=rest end=%s nt=1" % (k, frames.ENV, mx, s_.hex(), rng.choice(["eof", "op", "other"])))
            k += 1
        kinds["bomb-behind-a-large-prefix"] = n_bomb
        for _ in range(n_scn):
            s = session(rng)
            if rng.chance(3, 4):
                s, d = mutate(rng, s)
            end = rng.choice(["eof", "eof", "op", "other"])
            mx = rng.choice([2000, 1048576])
            lines.append("scn s%d %s max=%d script=feed/%s;readerr/%s;waitdone;sample/end" % (k, frames.ENV.replace("pending=" + frames.PENDING, "pending=-"), mx, s.hex() or "-", end))
            k += 1
    triples, tie = C.run_both(ctx, "TestVerifC05", lines, go_timeout=1200, env_extra={"GOMEMLIMIT": "4GiB"})
    stats = dict(cases=len(lines), unspecified=sum(1 for t in triples if " unspec" in t[1]), mutation_kinds=kinds if not ctx.get("replay") else {})
    return dict(verdicts=triples, tie=tie, stats=stats)
