"""C16 — connect-delay timers hold dialing back until they fire or are fast-forwarded."""
import itertools
import common as C
import conngen as G

RULE = ("(timer, one goroutine) every sequence of <= N operations over start(0|U|2U|3U), fire-now, wait, sleep(U) on a real "
        "CancellableTimer (U = 120 ms quick): each Wait must return no earlier than the time the extracted timer model gives "
        "and no later than that plus the slack (120 ms); (timer, 2-4 goroutines) random concurrent scripts: no operation "
        "blocks for ever or panics, and a Wait that overlaps no start/fire obeys the latest completed start; StartRandom for "
        "windows 0, 1, 2, 1000, 2^31, 2^63-1: the delay returned is 0 for a zero window and in [0, window) otherwise; "
        "(connection) Connections with a first-connect delay and/or a reconnect backoff window of D ms: a fire-now command "
        "issued before the sequence exists (it starts it), while the sequence is announcing itself, and after the timer was "
        "started; fast-forward; nothing - dial-begin must come >= D ms after the timer start in the last case and within "
        "100 ms of the request otherwise (extracted delay monitor over the event log, timer run-out inferred from the clock); "
        "plus the seq/conc scripts of C14 with delays. non-trivial = every case")
TRUSTED = ["wall-clock thresholds: a Go timer never fires early; 'promptly' is 100-120 ms here"]
ASSUMPTIONS = []

HUGE = 9223372036854775807


def seq_timer_cases(depth, unit):
    ops = ["start:0", "start:%d" % unit, "start:%d" % (2 * unit), "fire", "wait", "sleep:%d" % unit]
    out = []
    for d in range(1, depth + 1):
        for seq in itertools.product(ops, repeat=d):
            if "wait" not in seq:
                continue
            # cases whose waits cannot be told apart from a no-op are kept too (wait on an idle timer returns at once)
            out.append(",".join(seq))
    return out


def conc_timer(rng, unit):
    th = []
    for _ in range(2 + rng.below(3)):
        ops = []
        for _ in range(1 + rng.below(5)):
            r = rng.below(7)
            ops.append(["start:%d" % unit, "start:%d" % (2 * unit), "start:0", "fire", "wait", "wait", "sleep:%d" % rng.choice([unit // 2, unit])][r])
        th.append(",".join(ops))
    return "|".join(th)


def firenow_cases(D):
    """fire-now before / while / after the timer is started; fast-forward; plain wait"""
    out = []
    base = "dials=ok conns=ok"
    out.append(("before-lazy", "conn %%s mode=seq lazy=1 firstdelay=%d %s script=cmd/1/ok/1/nowait;settle;awaitall;settle" % (D, base)))
    out.append(("after-eager", "conn %%s mode=conc lazy=0 firstdelay=%d %s script=sleep/25;cmd/1/ok/1/nowait;settle;awaitall;settle" % (D, base)))
    out.append(("at-once-eager", "conn %%s mode=conc lazy=0 firstdelay=%d %s script=cmd/1/ok/1/nowait;settle;awaitall;settle" % (D, base)))
    out.append(("plain-lazy", "conn %%s mode=seq lazy=1 firstdelay=%d %s script=cmd/1/ok/0/nowait;longsettle/%d;awaitall;settle" % (D, base, D + 90)))
    out.append(("fastforward", "conn %%s mode=seq lazy=1 firstdelay=%d %s script=cmd/1/ok/0/nowait;settle;fastforward;settle;awaitall;settle" % (D, base)))
    out.append(("fastforward-too-early", "conn %%s mode=conc lazy=1 firstdelay=%d %s script=fastforward;cmd/1/ok/0/nowait;longsettle/%d;awaitall;settle" % (D, base, D + 90)))
    out.append(("second-waiter-fires", "conn %%s mode=seq lazy=1 firstdelay=%d %s script=cmd/1/ok/0/nowait;settle;cmd/2/ok/1/nowait;settle;awaitall;settle" % (D, base)))
    # reconnect window (non-first sequence): connect first without delay, lose the transport, then a command
    for fn in (0, 1):
        out.append(("window-fn%d" % fn, "conn %%s mode=seq lazy=1 window=%d %s script=cmd/1/ok/0/nowait;settle;disconnect;settle;cmd/2/ok/%d/nowait;longsettle/%d;awaitall;settle" % (D, base, fn, D + 90)))
    # a forced reconnect on a LIVE connection is in its backoff; a fire-now command (served at once by the old transport) must
    # still fast-forward it
    out.append(("forced-backoff-firenow-while-connected", "conn %%s mode=conc lazy=1 window=%d %s script=cmd/1/ok/0/nowait;settle;force/2/nowait;settle;cmd/3/ok/1/nowait;settle;awaitall;settle" % (D, base)))
    # a fire-now request must die with the sequence it was made for, however that sequence ends: sequence 2 (fast-forwarded by
    # command 2) ends with a fatal dial / a fatal connect callback; the plain command 3 then starts sequence 3, whose delay
    # must run out
    for how, dials, conns in (("fatal-dial", "ok,fatal,ok", "ok,ok"), ("fatal-onconnect", "ok,ok,ok", "ok,fatal,ok")):
        out.append(("stale-firenow-after-%s" % how, "conn %%s mode=seq lazy=1 window=%d dials=%s conns=%s script=cmd/1/ok/0/nowait;settle;awaitall;disconnect;settle;cmd/2/ok/1/nowait;settle;awaitall;settle;cmd/3/ok/0/nowait;longsettle/%d;awaitall;settle" % (D, dials, conns, D + 90)))
    out.append(("stale-firenow-after-fatal-first", "conn %%s mode=seq lazy=1 firstdelay=%d window=%d dials=fatal,ok conns=ok script=cmd/1/ok/1/nowait;settle;awaitall;settle;cmd/2/ok/0/nowait;longsettle/%d;awaitall;settle" % (D, D, D + 90)))
    out.append(("window-zero", "conn %s mode=seq lazy=1 window=0 dials=ok conns=ok script=cmd/1/ok/0/nowait;settle;disconnect;settle;cmd/2/ok/0/nowait;longsettle/90;awaitall;settle"))
    out.append(("forced-initial-backoff", "conn %%s mode=seq lazy=1 forcebackoff=1 window=%d %s script=cmd/1/ok/1/nowait;settle;awaitall;settle" % (D, base)))
    # the handler is slow to announce: fire-now commands arrive while the sequence is inside OnDisconnected (the timer does not
    # exist yet); one of them, or one of two, gives up before the handler returns - the request of whoever still waits stands
    for name, pre, post in (("announce-one", ["cmd/1/ok/1/nowait"], []),
                            ("announce-two-first-cancelled", ["cmd/1/ok/1/nowait", "waitev/waiting~1~/1", "cmd/2/ok/1/nowait", "waitev/waiting~2~/1"], ["cancelcmd/1", "settle"]),
                            ("announce-two-second-cancelled", ["cmd/1/ok/1/nowait", "waitev/waiting~1~/1", "cmd/2/ok/1/nowait", "waitev/waiting~2~/1"], ["cancelcmd/2", "settle"]),
                            ("announce-plain-then-firenow-cancelled", ["cmd/1/ok/1/nowait", "waitev/waiting~1~/1", "cmd/2/ok/0/nowait", "waitev/waiting~2~/1"], ["cancelcmd/2", "settle"])):
        s = ["holddisc"] + pre + ["waitev/ondisconnected-held/1"] + post + ["releasedisc", "settle", "awaitall", "settle"]
        out.append((name, "conn %%s mode=conc lazy=1 firstdelay=%d %s script=%s" % (D, base, ";".join(s))))
        s2 = ["cmd/9/ok/0/nowait", "settle", "awaitall", "disconnect", "settle", "holddisc"] + pre + ["waitev/ondisconnected-held/1"] + post + ["releasedisc", "settle", "awaitall", "settle"]
        out.append((name + "-window", "conn %%s mode=conc lazy=1 window=%d dials=ok,ok conns=ok,ok script=%s" % (D, ";".join(s2))))
    return out


def explore(ctx):
    rng, tier = ctx["rng"], ctx["tier"]
    if ctx.get("replay"):
        lines = C.replay_lines(ctx["replay"])
    else:
        lines = C.load_corpus("C16")
        unit = 120
        depth = {"quick": 3, "thorough": 4, "search": 3}[tier]
        for k, t in enumerate(seq_timer_cases(depth, unit)):
            lines.append("timer t%d slack=120 threads=%s" % (k, t))
        for k in range({"quick": 60, "thorough": 1500, "search": 200}[tier]):
            lines.append("timer u%d slack=150 threads=%s" % (k, conc_timer(rng, unit)))
        for k in range({"quick": 20, "thorough": 300, "search": 50}[tier]):
            ws = [0, 1, 2, 1000, 2 ** 31, HUGE, 1 + rng.below(10 ** 9), HUGE - rng.below(1000)]
            lines.append("timer r%d slack=150 threads=%s" % (k, ",".join("rstart:%d" % rng.choice(ws) for _ in range(12))))
        for rep in range({"quick": 3, "thorough": 40, "search": 8}[tier]):
            for D in ((300,) if tier == "quick" else (300, 500)):
                for name, tmpl in firenow_cases(D):
                    lines.append(tmpl % ("f%d-%d-%s" % (rep, D, name)))
        for what in ("fastforward", "force", "disconnect"):
            for pos in range(1, 30, 1 if tier == "thorough" else 4):
                lines.append(G.env_sweep("e%s%d" % (what[0:2], pos), pos, what, delays=200))
        for k in range({"quick": 40, "thorough": 1500, "search": 150}[tier]):
            lines.append(G.seq_script(rng, "s%d" % k, delays=200))
        for k in range({"quick": 40, "thorough": 1500, "search": 150}[tier]):
            lines.append(G.conc_script(rng, "c%d" % k, delays=200))
    triples, tie = C.run_both(ctx, "TestVerifC16", lines, go_timeout=2400)
    return dict(verdicts=triples, tie=tie, stats=dict(cases=len(lines), timer_cases=sum(1 for l in lines if l.startswith("timer"))))
