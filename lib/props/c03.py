"""C03 — outgoing byte stream is always a sequence of whole, size-limited frames."""
import common as C
import scn
from props import c13

RULE = ("(1) every message kind (call, notification, handler reply) with payload sizes making the frame content exactly "
        "max-3 .. max+3 bytes, each followed by a follow-up operation that must succeed; (2) 1-8 concurrent senders against a "
        "stalled connection with contexts cancelled / timing out while queued or while the write is in progress, including "
        "frames larger than 64 KiB and 200 KiB; (3) the C13 scenario families. Every Write recorded by the simulated "
        "connection must be exactly one frame the model's prefix check accepts with the same maximum; an oversized send must "
        "return the too-big error and put nothing on the wire. non-trivial = a size within 3 bytes of the limit, or a "
        "cancellation while queued or writing, or >= 2 concurrent senders")
TRUSTED = ["the abstraction of the harness event log into Model/Events.v events (ocaml/abstract.ml), which parses each recorded "
           "Write with the extracted prefix decoder and generic decoder"]
ASSUMPTIONS = ["a reply whose frame exceeds the limit is refused to the handler's reply path (the caller-side consequence is C01's)"]


def boundary(rng, k, lim, shape="b"):
    out = []
    for delta in range(-3, 4):
        tgt = lim + delta
        for kind in ("call", "notify", "reply"):
            s = []
            s.append(scn.notify(1, pad=3))
            exp = ["1:ok"]
            nw = 1 + 1 + 2          # notify 1, notify 3, call 4 + its cancel frame
            if kind == "call":
                pad = scn.pad_for_len(2, tgt, "call", seq=0, shape=shape)
                if pad is None:
                    continue
                s.append(scn.call(2, pad=pad, nowait=(delta > 0), shape=shape))
                if delta > 0:
                    s.append("await/c2")
                    exp.append("2:toobig")
                else:
                    s.append(scn.cancel(2))
                    s.append("waitwrites/3")
                    exp.append("2:ctx")
                    nw += 2
            elif kind == "notify":
                pad = scn.pad_for_len(2, tgt, "notify", shape=shape)
                if pad is None:
                    continue
                s.append(scn.notify(2, pad=pad, shape=shape))
                exp.append("2:toobig" if delta > 0 else "2:ok")
                nw += 0 if delta > 0 else 1
            else:
                # reply content: [1, seq, nil, a[i:nonce, b:pad]]
                import frames, mp
                pad = None
                for p in range(max(0, tgt - 40), tgt + 1):
                    if len(frames.content([1, 7, None, scn.arg(2, p, shape)], mp.Chooser())) == tgt:
                        pad = p
                        break
                if pad is None:
                    continue
                s.append(scn.feed_call(7, 2))
                s.append("waithandlers/1")
                s.append(scn.finish(0, 2, pad=pad, shape=shape))
                s.append("settle")
                nw += 0 if delta > 0 else 1
            s.append(scn.notify(3, pad=1))
            exp.append("3:ok")
            s.append(scn.call(4, pad=2))
            s.append(scn.cancel(4))
            exp.append("4:ctx")
            s.append("waitwrites/%d" % nw)
            s.append("settle")
            out.append(scn.line("scn", "b%s%d_%d" % (shape, k, len(out)), s, max_=lim, extra="nt=1 writes=%d expect=%s" % (nw, ",".join(exp))))
    return out


def big_cancel(rng, k):
    """a large frame whose sender is cancelled while the connection is stalled inside / before its Write"""
    s = ["stallw/on"]
    big = rng.choice([70000, 140000, 200000])
    if rng.chance(1, 2):
        s.append(scn.notify(1, pad=big, nowait=True, timeout=rng.choice([0, 20])))
        who = ("n", 1)
    else:
        s.append(scn.call(1, pad=big, nowait=True, timeout=rng.choice([0, 20])))
        who = ("c", 1)
    s.append("waitinwrite")
    s.append(scn.notify(2, pad=10, nowait=True))
    s.append(scn.cancel(who[1], who[0], nowait=True))
    s.append("sleep/%d" % rng.choice([0, 30]))
    s.append("stallw/off")
    s.append("await/n2")
    s.append(scn.notify(3, pad=5))
    s.append("settle")
    return scn.line("scn", "g%d" % k, s, extra="nt=1 expect=2:ok,3:ok")


def oversize_cancelled(rng, k, lim):
    """messages refused for their size whose sender's context ends at the same moment (a long method name makes even the
    cancellation frame of the call exceed the limit): nothing may reach the wire for them and the connection stays usable"""
    s = [scn.notify(1, pad=3)]
    exp = ["1:ok"]
    c = 2
    for _ in range(4 + rng.below(5)):
        over = rng.choice([-12, -1, 0, 1, 2, 16, 300])
        name = b"p." + b"m" * max(1, lim + over - 8)
        to = rng.choice([0, 0, 1])
        s.append(scn.call(c, pad=rng.below(4), meth=name, nowait=True, timeout=to))
        if to == 0:
            s.append(scn.cancel(c, nowait=True))
        s.append("await/c%d" % c)
        exp.append("%d:toobig+ctx" % c)
        c += 1
    s.append(scn.notify(c, pad=1)); exp.append("%d:ok" % c); c += 1
    s += [scn.call(c, pad=2), "replyto/%d" % c, "await/c%d" % c]; exp.append("%d:ok" % c)
    s.append("settle")
    return scn.line("scn", "o%d" % k, s, max_=lim, extra="nt=1 family=oversize-cancelled expect=%s" % ",".join(exp))


def prefix_widths(rng, k):
    """frames whose content length sits at the edges of every msgpack integer width the prefix can take (fixint / 8 / 16 /
    32 bit, signed and unsigned): written whole, and a receiver with the same maximum accepts them"""
    tgt = rng.choice([127, 128, 129, 255, 256, 257, 32767, 32768, 32769, 40000, 65535, 65536, 65537, 70000])
    tgt += rng.choice([0, 0, -1, 1])
    kind = rng.choice(["call", "notify", "reply"])
    s = [scn.notify(1, pad=2)]
    exp = ["1:ok"]
    if kind == "call":
        pad = scn.pad_for_len(2, tgt, "call", seq=0) or tgt
        s += [scn.call(2, pad=pad), scn.cancel(2)]; exp.append("2:ctx")
    elif kind == "notify":
        pad = scn.pad_for_len(2, tgt, "notify") or tgt
        s += [scn.notify(2, pad=pad)]; exp.append("2:ok")
    else:
        s += [scn.feed_call(7, 2), "waithandlers/1", scn.finish(0, 2, pad=tgt - 12), "settle"]
    s += [scn.notify(3, pad=1), "settle"]; exp.append("3:ok")
    return scn.line("scn", "w%d" % k, s, extra="nt=1 family=prefix-widths expect=%s" % ",".join(exp))


def explore(ctx):
    rng, tier = ctx["rng"], ctx["tier"]
    if ctx.get("replay"):
        lines = C.replay_lines(ctx["replay"])
    else:
        lines = C.load_corpus("C03")
        lims = {"quick": [200], "thorough": [64, 200, 256, 1000, 65536], "search": [128, 200, 300]}[tier]
        for i, lim in enumerate(lims):
            for shape in ("b", "s", "a"):
                lines += boundary(rng, i, lim, shape)
        for k in range({"quick": 12, "thorough": 150, "search": 40}[tier]):
            lines.append(big_cancel(rng, k))
        for k in range({"quick": 24, "thorough": 300, "search": 60}[tier]):
            lines.append(prefix_widths(rng, k))
        for k in range({"quick": 20, "thorough": 300, "search": 60}[tier]):
            lines.append(oversize_cancelled(rng, k, rng.choice([100, 200, 300, 1024])))
        n = {"quick": 250, "thorough": 5000, "search": 1000}[tier]
        big = {"quick": 4, "thorough": 16, "search": 8}[tier]
        for k in range(n):
            lines.append(c13.scenario(rng, k, big))
    triples, tie = C.run_both(ctx, "TestVerifScn", lines, go_timeout=900)
    return dict(verdicts=triples, tie=tie, stats=dict(scenarios=len(lines)))
