"""C12 — the caller's result buffer is never written after the call has returned."""
import common as C
import scn

RULE = ("one call whose reply is parked at each point the public API offers between looking the call up and delivering "
        "the reply (the ErrorUnwrapper's MakeArg and UnwrapError, the k-th FrameRead callback inside the reply frame for "
        "k = 1..10), while the call returns by cancellation, by its timeout or because the transport is closed; then the "
        "reply is released, the receive path drains, and the result buffer is compared with its snapshot at return. Also "
        "duplicated and late replies after the call has returned, and replies delivered normally. non-trivial = the call "
        "returned while its reply was inside the receive path, or a reply arrived after the return")
TRUSTED = ["the result buffer is an *interface{} owned by the harness; it is printed at return and re-printed at quiescence"]
ASSUMPTIONS = []

KNOWN_FAMILY = "reply-parked-between-lookup-and-decode"


def parked(rng, ident, hook, nth, how):
    s = ["park/%s/%d" % (hook, nth)]
    to = 12 if how == "deadline" else 0
    s.append(scn.call(1, timeout=to))
    s.append("feednowait/" + scn.feed_resp(0, 1, pad=5 + rng.below(20))[5:])
    s.append("waitpark/" + hook)
    if how == "cancel":
        s.append(scn.cancel(1))
    elif how == "deadline":
        s.append("await/c1")
    else:
        s.append("close/nowait"); s.append("await/c1")
    s += ["sample/atreturn", "release/" + hook, "settle", "sleep/3", "sample/end"]
    # the first three FrameRead points (length, element count, message type... up to the seqno) come BEFORE the call is
    # looked up: a reply parked there must find the call gone once it has returned (no known finding covers that)
    fam = KNOWN_FAMILY if (hook != "FrameRead" or nth >= 4) else "reply-parked-before-lookup"
    return scn.line("scn", ident, s, extra="nt=1 family=%s hookpos=%s-%d-%s" % (fam, hook, nth, how))


def late(rng, ident):
    """replies that arrive after the call has returned, duplicated replies"""
    v = rng.below(4)
    s = []
    if v == 0:      # cancelled, then the reply arrives
        s += [scn.call(1), scn.cancel(1), scn.feed_resp(0, 1), "settle", scn.feed_resp(0, 7), "settle", "sample/end"]
    elif v == 1:    # answered, then a duplicate with another value
        s += [scn.call(1), scn.feed_resp(0, 1), "await/c1", scn.feed_resp(0, 7), "settle", scn.feed_resp(0, 8), "settle", "sample/end"]
    elif v == 2:    # timed out, then reply
        s += [scn.call(1, timeout=10, nowait=True), "await/c1", scn.feed_resp(0, 1), "settle", "sample/end"]
    else:           # two calls, replies in reverse order, one cancelled in between
        s += [scn.call(1), scn.call(2), scn.cancel(1), scn.feed_resp(1, 2), "await/c2", scn.feed_resp(0, 1), "settle", "sample/end"]
    return scn.line("scn", ident, s, extra="nt=1 family=reply-after-return")


def notifier_blocked(rng, ident):
    """the send notifier (documented as the way to serialise sends) blocks; the caller gives up; the frame goes out
    afterwards and is answered"""
    how = rng.choice(["cancel", "deadline"])
    s = ["park/SendNotifier/1", scn.call(1, timeout=12 if how == "deadline" else 0, nowait=True), "waitpark/SendNotifier"]
    s.append(scn.cancel(1) if how == "cancel" else "await/c1")
    s += ["sample/atreturn", "release/SendNotifier", "waitwrites/1", "settle", scn.feed_resp(0, 1, pad=4), "settle", "sample/end"]
    return scn.line("scn", ident, s, extra="nt=1 family=caller-gave-up-while-send-notifier-blocked")


def dup_parked(rng, ident):
    """no cancellation at all: a duplicated reply is inside the receive path while the caller, which already took its
    reply, returns"""
    s = ["park/ClientReply/1", scn.call(1), "feednowait/" + scn.feed_resp(0, 1, pad=3)[5:], "waitpark/ClientReply",
         "park/UnwrapError/1", "feednowait/" + scn.feed_resp(0, 7, pad=6)[5:], "waitpark/UnwrapError",
         "release/ClientReply", "await/c1", "sample/atreturn", "release/UnwrapError", "settle", "sleep/3", "sample/end"]
    return scn.line("scn", ident, s, extra="nt=1 family=duplicate-reply-parked-while-caller-returns")


def held_lists(rng, ident):
    """results that are lists the caller goes on holding: later calls of the same shape on the same transport (shorter,
    equal, longer lists; compressed or not is C06's) must not reach into a list that was handed out earlier"""
    import mp
    s = []
    k = 2 + rng.below(3)
    n0 = 3 + rng.below(4)
    for i in range(1, k + 1):
        n = n0 if i == 1 else rng.choice([1, n0 - 1, n0, n0 + 2])
        res = [("s", b"r%d-%d" % (i, j)) for j in range(n)]
        s += ["callslice/c%d/%s/%s" % (i, scn.M.hex(), scn.T(scn.arg(i))), "replyto/%d/%s" % (i, mp.vtext(res)), "await/c%d" % i, "settle"]
    s += ["sleep/2", "sample/end"]
    return scn.line("scn", ident, s, extra="nt=1 family=held-list-results")


def late_reply_concurrent_compressed(rng, ident):
    """a compressed call with a large argument (compressing takes a while) and an ordinary call started right behind it; the
    first is cancelled (or succeeds), then replies naming ITS sequence number - as seen on the wire - arrive late / again:
    they must find nothing to write into"""
    ct = 1
    s = ["call/c1/%s/%s/%d/-/0/nowait" % (scn.M.hex(), scn.T(scn.arg(1, 900000 + rng.below(100000))), ct), "sleep/%d" % rng.choice([1, 2, 3]),
         scn.call(2, nowait=True), "waitwrites/2", "settle"]
    if rng.chance(2, 3):
        s += [scn.cancel(1), "sample/atreturn", "replyto/1/%s/%d" % (scn.T(scn.arg(1, 5)), ct), "settle", "replyto/1/%s/%d" % (scn.T(scn.arg(7, 9)), ct), "settle"]
    else:
        s += ["replyto/1/%s/%d" % (scn.T(scn.arg(1, 5)), ct), "await/c1", "sample/atreturn", "replyto/1/%s/%d" % (scn.T(scn.arg(7, 9)), ct), "settle"]
    s += ["replyto/2", "await/c2", "settle", "sleep/3", "sample/end"]
    return scn.line("scn", ident, s, extra="nt=1 family=late-reply-after-concurrent-compressed-call")


def normal(rng, ident):
    s = []
    n = 1 + rng.below(3)
    for i in range(1, n + 1):
        s.append(scn.call(i, pad=rng.below(10)))
    for i in rng.shuffle(list(range(1, n + 1))):
        s.append("replyto/%d" % i); s.append("await/c%d" % i)
    s += ["settle", "sample/end"]
    return scn.line("scn", ident, s, extra="nt=0 family=normal")


def explore(ctx):
    rng, tier = ctx["rng"], ctx["tier"]
    if ctx.get("replay"):
        lines = C.replay_lines(ctx["replay"])
    else:
        lines = C.load_corpus("C12")
        n = 0
        reps = {"quick": 1, "thorough": 6, "search": 2}[tier]
        for _ in range(reps):
            for how in ("cancel", "deadline", "close"):
                for hook, nths in (("UnwrapMakeArg", [1]), ("UnwrapError", [1]), ("FrameRead", list(range(1, 8)))):
                    for nth in nths:
                        lines.append(parked(rng, "p%d" % n, hook, nth, how)); n += 1
        for _ in range({"quick": 30, "thorough": 400, "search": 80}[tier]):
            lines.append(late(rng, "l%d" % n)); n += 1
        for _ in range({"quick": 20, "thorough": 200, "search": 40}[tier]):
            lines.append(normal(rng, "n%d" % n)); n += 1
        for _ in range({"quick": 8, "thorough": 100, "search": 20}[tier]):
            lines.append(held_lists(rng, "h%d" % n)); n += 1
        for _ in range({"quick": 10, "thorough": 80, "search": 16}[tier]):
            lines.append(late_reply_concurrent_compressed(rng, "z%d" % n)); n += 1
        for _ in range({"quick": 3, "thorough": 30, "search": 6}[tier]):
            lines.append(dup_parked(rng, "d%d" % n)); n += 1
        for _ in range({"quick": 6, "thorough": 60, "search": 12}[tier]):
            lines.append(notifier_blocked(rng, "b%d" % n)); n += 1
    if not ctx.get("replay"):
        # calls through a Connection's own client over real transports: throttled first attempt(s), retried after the command
        # backoff; the reply to the retry arrives at chosen instants around the caller's deadline
        k = 0
        for rep in range({"quick": 1, "thorough": 6, "search": 2}[tier]):
            for T in (0, 200, 300):
                for b in (50, 100):
                    for d1 in (20, 50):
                        start2 = d1 + b
                        for d2 in ([30, 120] if T == 0 else [30, T - start2 + 40, T - 40, T + 60]):
                            if d2 <= 0:
                                continue
                            lines.append("cc k%d timeout=%d backoff=%d cancelat=- attempts=%d:throttle,%d:ok" % (k, T, b, d1, d2)); k += 1
                        lines.append("cc k%d timeout=%d backoff=%d cancelat=%d attempts=%d:throttle,%d:ok" % (k, T, b, start2 + 40, d1, 150)); k += 1
                        lines.append("cc k%d timeout=%d backoff=%d cancelat=- attempts=%d:apperr" % (k, T, b, d1)); k += 1
    triples, tie = C.run_both(ctx, "TestVerifScn", lines, go_timeout=900)
    return dict(verdicts=triples, tie=tie, stats=dict(scenarios=len(lines)))
