"""C02 — wire format exact; any legal encoding accepted."""
import common as C
import mp, frames

RULE = ("enc: messages of every kind (call, compressed call for 4 ctypes, notification, cancellation, response) with "
        "generated arguments/results/errors/tags and seqnos are sent through the public API on a simulated connection; "
        "each captured Write must equal the model's bytes (byte-exact unless the value holds a map with >= 2 entries or a "
        "compressed payload, then equal after the model decodes it). dec: the same message space encoded by an "
        "independent writer with alternative integer/string/container widths, alternative length-prefix widths and 0-11 extra "
        "trailing elements is fed to the frame reader; non-trivial = at least one non-canonical width or extra element, or a "
        "nested value / tag map")
TRUSTED = ["go-codec's reflection into typed Go structs is not modelled: arguments/results are interface{} so the generic path is compared",
           "compressed payloads are located with go-codec's generic decoder and inflated with compress/gzip / msgpackzip directly (harness), then given to the model as an oracle table",
           "float32 and ext values are outside the modelled zone and are not generated"]
ASSUMPTIONS = ["map iteration order of Go maps is not compared (multi-entry maps are compared after decoding)"]

T = mp.vtext


def tagspec(tags):
    return T(tags) if tags is not None else "-"


def explore(ctx):
    rng, tier = ctx["rng"], ctx["tier"]
    lines = []
    if ctx.get("replay"):
        lines = C.replay_lines(ctx["replay"])
    else:
        lines += C.load_corpus("C02")
        n_enc = {"quick": 500, "thorough": 12000, "search": 2500}[tier]
        n_dec = {"quick": 1500, "thorough": 40000, "search": 6000}[tier]
        k = 0
        for _ in range(n_enc):
            kind = rng.choice(["call", "call", "callc", "callc", "notify", "cancel", "resp", "resp"])
            me = rng.choice([b"p.m", b"p.n", b"z", b"a.b.c", b"long." + b"x" * 40])
            i = me.rfind(b".")
            prot, mname = (b"", me) if i < 0 else (me[:i], me[i + 1:])
            protos = "%s:%s" % (prot.hex(), mname.hex())
            arg = mp.gen_value(rng, 3, wide=rng.chance(1, 6))
            if rng.chance(1, 8):
                arg = rng.choice([None, ("b", b""), ("s", b""), [], ("m", []), 0, False])    # the values an "is it empty?" shortcut would catch
            tags = mp.gen_tags(rng) if rng.chance(1, 2) else None
            seq = rng.choice([0, 1, 127, 128, 255, 256, 65535, 65536, 2 ** 31, 2 ** 32, 2 ** 62, rng.below(2 ** 40)])
            base = "enc e%d kind=%s max=1048576 protocols=%s seq=%d meth=%s arg=%s tags=%s" % (k, kind, protos, seq, me.hex(), T(arg), tagspec(tags))
            if kind == "call":
                lines.append(base + " ctype=0 script=setseq/%d;call/c1/%s/%s/0/%s/0" % (seq, me.hex(), T(arg), tagspec(tags)))
            elif kind == "callc":
                ct = rng.choice([1, 2, 3, 77])
                if ct == 2:      # msgpackzip's trouble with integer map keys is C06's (known finding), not the wire format's
                    arg = mp.zip_safe(arg)
                    base = "enc e%d kind=%s max=1048576 protocols=%s seq=%d meth=%s arg=%s tags=%s" % (k, kind, protos, seq, me.hex(), T(arg), tagspec(tags))
                lines.append(base + " ctype=%d script=setseq/%d;call/c1/%s/%s/%d/%s/0" % (ct, seq, me.hex(), T(arg), ct, tagspec(tags)))
            elif kind == "notify":
                lines.append(base + " script=notify/c1/%s/%s/%s/0" % (me.hex(), T(arg), tagspec(tags)))
            elif kind == "cancel":
                lines.append(base + " ctype=0 script=setseq/%d;call/c1/%s/%s/0/%s/0;cancel/c1;waitwrites/2" % (seq, me.hex(), T(arg), tagspec(tags)))
            else:
                # a call arrives, the handler answers with res / err
                seq = rng.choice([0, 5, 200, 70000, 2 ** 33, -1, -40000])
                res = mp.gen_value(rng, 3)
                wef = rng.chance(1, 2)
                if rng.chance(1, 2):
                    err, errspec = None, "-"
                elif wef:
                    err = mp.gen_value(rng, 1)
                    if err is None:
                        err = 7
                    errspec = T(err)
                else:
                    # without a WrapErrorFunc the error travels as its Error() text; the harness error prints verr:<text>
                    ev = ("s", b"boom")
                    err = ("s", b"verr:" + T(ev).encode())
                    errspec = T(ev)
                cf = frames.frame(frames.content([0, seq, ("s", me), arg], mp.Chooser()), mp.Chooser())
                lines.append("enc e%d kind=resp max=1048576 protocols=%s wef=%d seq=%d meth=%s arg=%s tags=- err=%s res=%s script=feed/%s;waithandlers/1;finish/0/%s/%s;waitwrites/1"
                             % (k, protos, 1 if wef else 0, seq, me.hex(), T(arg), T(err), T(res), cf.hex(), T(res), errspec))
            k += 1
        # size-targeted notifications: content lengths on both sides of every length-prefix width boundary
        targets = [127, 128, 129, 255, 256, 257, 65535, 65536, 65537] if tier != "quick" else [127, 128, 129, 255, 256, 257, 65535, 65536, 65537]
        for tgt in targets:
            me = b"p.m"
            for n in range(max(0, tgt - 12), tgt + 1):
                c = frames.content([2, ("s", me), ("b", b"\x00" * n)], mp.Chooser())
                if len(c) == tgt:
                    arg = ("b", bytes((i * 7 + tgt) & 0xff for i in range(n)))
                    lines.append("enc e%d kind=notify max=1048576 protocols=70:6d seq=0 meth=%s arg=%s tags=- script=notify/c1/%s/%s/-/0" % (k, me.hex(), T(arg), me.hex(), T(arg)))
                    k += 1
                    break
        for _ in range(n_dec):
            ch = mp.Chooser(rng, 1, 2) if rng.chance(3, 4) else mp.Chooser()
            c, kind, exp = frames.gen_msg(rng, ch, depth=3, with_expect=True)
            s = frames.frame(c, ch)
            nt = 1 if ch.alternatives > 0 or len(c) > 12 else 0
            lines.append("dec d%d %s stream=%s chunks=- mode=rest end=eof nt=%d expect=%s" % (k, frames.ENV, s.hex(), nt, exp if exp.startswith("err:") else exp + "|err:eof"))
            k += 1
    triples, tie = C.run_both(ctx, "TestVerifC02", lines, go_timeout=900)
    stats = dict(enc=sum(1 for l in lines if l.startswith("enc")), dec=sum(1 for l in lines if l.startswith("dec")),
                 kinds={kd: sum(1 for l in lines if " kind=%s " % kd in l) for kd in ("call", "callc", "notify", "cancel", "resp")})
    return dict(verdicts=triples, tie=tie, stats=stats)
