"""C11 — closing a transport releases every goroutine and table entry it created."""
import itertools
import common as C
import scn, frames, mp

RULE = ("(A) k handlers (calls / notifications) and m outstanding calls in flight; the transport is stopped by a local "
        "Close, by peer EOF, by a read error, or by cutting the incoming byte stream at every offset of the session; then "
        "all handlers are released and all calls awaited; at quiescence a goroutine dump filtered to the package must be empty. "
        "(B) Close while the receive goroutine is parked inside request decoding (MakeArg hook), then released. "
        "(C) histories of completed / cancelled / timed-out / refused / failed calls and notifications on a transport that "
        "stays open, with the size of the pending-call table sampled at quiescence. (D) duplicated replies while the caller is "
        "parked between receiving its reply and returning. non-trivial = something was in flight when the transport stopped, "
        "or the history contains a non-successful call")
TRUSTED = ["goroutine census = runtime.Stack filtered to frames of the package (excluding the harness' own functions)",
           "the pending-call table is read through a white-box accessor in the same package"]
ASSUMPTIONS = ["quiescence is detected by the harness (event counter stable, connection queues empty)"]


def fam_a(rng, ident, k, m, stop):
    s = []
    for i in range(k):
        s.append(scn.feed_call(10 + i, 100 + i) if rng.chance(2, 3) else scn.feed_notify(100 + i))
        s.append("waithandlers/%d" % (i + 1))
    for j in range(m):
        s.append(scn.call(j + 1, pad=rng.below(10)))
    s.append("sample/open")
    if stop == "close":
        s.append("close")
    elif stop in ("eof", "op", "other"):
        s.append("readerr/" + stop); s.append("waitdone")
    elif stop == "closeasync":
        s.append("close/nowait"); s.append("waitdone")
    s.append("settle")
    for i in rng.shuffle(list(range(k))):
        s.append(scn.finish(i, 100 + i))
    for j in range(m):
        s.append("await/c%d" % (j + 1))
    s.append("sample/final")
    return scn.line("scn", ident, s, extra="nt=%d family=stop-with-work-in-flight" % (1 if k + m > 0 else 0))


def fam_cut(rng, ident):
    """the incoming stream of a small session is cut at one byte offset"""
    ch = mp.Chooser()
    fr = []
    nh = 0
    for i in range(2 + rng.below(3)):
        kind = rng.below(3)
        if kind == 0:
            fr.append(frames.frame(frames.content([0, 10 + i, ("s", scn.M), scn.arg(100 + nh)], ch), ch)); nh += 1
        elif kind == 1:
            fr.append(frames.frame(frames.content([2, ("s", scn.M), scn.arg(100 + nh)], ch), ch)); nh += 1
        else:
            fr.append(frames.frame(frames.content([3, 10 + rng.below(4), ("s", scn.M)], ch), ch))
    stream = b"".join(fr)
    out = []
    for cut in range(len(stream) + 1):
        s = ["feed/%s" % (stream[:cut].hex() or "-"), "settle", "readerr/%s" % rng.choice(["eof", "eof", "other"]), "waitdone", "settle"]
        s.append("finishall")
        s.append("sample/final")
        out.append(scn.line("scn", "%s_%d" % (ident, cut), s, extra="nt=1 family=cut-at-offset"))
    return out


def fam_b(rng, ident):
    s = ["park/MakeArg/1", scn.feed_call(10, 100).replace("feed/", "feed/") + "", ]
    # the feed op waits for consumption; the decoder parks in MakeArg after having buffered the frame
    s = ["park/MakeArg/1", "feednowait/" + scn.feed_call(10, 100)[5:], "waitpark/MakeArg", "close/nowait", "waitdone", "settle",
         "release/MakeArg", "settle", "finishall", "settle", "sample/final"]
    return scn.line("scn", ident, s, extra="nt=1 family=close-while-decoding-request")


def fam_c(rng, ident):
    s = []
    n = 0
    exp_open = 0
    for _ in range(3 + rng.below(8)):
        n += 1
        k = rng.below(7)
        if k == 6:      # compressed call whose argument the compressor refuses (msgpackzip: integer map key above int64 max):
                        # it fails before anything is written and must not stay in the table
            s.append("call/c%d/%s/a[i:%d,m{i:9404100041262800253=n}]/2/-/0/nowait" % (n, scn.M.hex(), n)); s.append("await/c%d" % n)
        elif k == 0:      # completed call
            s.append(scn.call(n)); s.append("needseq"); 
        elif k == 1:    # cancelled
            s.append(scn.call(n)); s.append(scn.cancel(n))
        elif k == 2:    # timed out
            s.append(scn.call(n, timeout=10, nowait=True)); s.append("await/c%d" % n)
        elif k == 3:    # refused (too big)
            s.append(scn.call(n, pad=5000, nowait=True)); s.append("await/c%d" % n)
        elif k == 4:    # notification
            s.append(scn.notify(n))
        else:           # stays outstanding
            s.append(scn.call(n))
        if rng.chance(1, 3):
            s.append("sample/open%d" % n)
    s = [x for x in s if x != "needseq"]
    s.append("sample/open")
    return scn.line("scn", ident, s, max_=2000, extra="nt=1 family=open-history")


def fam_d(rng, ident, dup):
    # our call gets seq 0; the reply is duplicated while the caller sits in the ClientReply log hook
    s = ["park/ClientReply/1", scn.call(1)]
    s.append("feednowait/" + scn.feed_resp(0, 1)[5:])
    s.append("waitpark/ClientReply")
    for _ in range(dup):
        s.append("feednowait/" + scn.feed_resp(0, 1)[5:])
    s.append("settle")
    s.append("release/ClientReply")
    s.append("await/c1")
    s.append("sample/open")
    s.append(scn.call(2))               # the transport must still work
    s.append("feednowait/" + scn.feed_resp(1, 2)[5:])
    s.append("await/c2")
    s.append("close")
    s.append("sample/final")
    return scn.line("scn", ident, s, extra="nt=1 family=duplicate-replies-%d" % dup)


def fam_cancelled_then_close(rng, ident):
    """the peer cancels calls whose handlers are still running, the transport stops, and only then do the handlers return"""
    k = 1 + rng.below(3)
    s = []
    for i in range(k):
        s.append(scn.feed_call(30 + i, 500 + i))
    s.append("waithandlers/%d" % k)
    victims = [i for i in range(k) if rng.chance(2, 3)] or [0]
    for i in victims:
        s.append(scn.feed_cancel(30 + i))
    s.append("settle")
    s.append(rng.choice(["close", "readerr/eof", "readerr/op"]))
    s += ["waitdone", "settle", "sleep/2", "finishall", "settle", "sample/final"]
    return scn.line("scn", ident, s, extra="nt=1 family=peer-cancelled-then-stop")


def fam_stalled_close(rng, ident):
    """Close while the writer is blocked inside the connection's Write (the peer has stopped draining)"""
    s = ["stallw/on", scn.notify(1, nowait=True), "waitinwrite"]
    if rng.chance(1, 2):
        s.append(scn.call(2, nowait=True))
    s += ["close", "await/n1", "settle", "sample/final"]
    return scn.line("scn", ident, s, extra="nt=1 family=close-while-write-blocked")


def fam_cancel_behind_busy_writer(rng, ident):
    """calls are cancelled (or time out) while the writer is busy inside Write, so their cancellation frames take the
    deferred path; the peer then drains (or not) and the transport stops: nothing of the library may remain"""
    k = 1 + rng.below(4)
    s = []
    for c in range(1, k + 1):
        s.append(scn.call(c, pad=rng.below(8)))
    s += ["stallw/on", scn.notify(50, nowait=True), "waitinwrite"]
    for c in rng.shuffle(list(range(1, k + 1))):
        s.append(scn.cancel(c))
    s.append("sleep/1")
    drained = rng.chance(2, 3)
    if drained:
        s += ["stallw/off", "await/n50", "settle", "sample/open"]
    stop = rng.choice(["close", "readerr/eof", "readerr/op"])
    s.append(stop)
    if stop != "close":
        s.append("waitdone")
    if not drained:
        s.append("await/n50")
    s += ["settle", "sleep/2", "settle", "sample/final"]
    return scn.line("scn", ident, s, extra="nt=1 family=cancel-behind-busy-writer-then-stop")


def fam_reply_behind_stall_then_stop(rng, ident):
    """replies the library writes itself (handler results, not-found errors) are waiting behind a writer that is stuck inside
    Write when the transport is closed: the goroutines producing them must not stay behind"""
    s = []
    nh = rng.below(3)
    for i in range(nh):
        s += ["feednowait/" + scn.feed_call(50 + i, 500 + i)[5:], "waithandlers/%d" % (i + 1)]
    s += ["stallw/on", scn.notify(1, nowait=True), "waitinwrite"]
    for i in range(nh):
        s.append(scn.finish(i, 500 + i, nowait=True))
    for i in range(1 + rng.below(2)):
        s.append("feednowait/" + scn.feed_call(60 + i, 600 + i, meth=rng.choice([b"p.nosuch", b"q.m"]))[5:])
    s += ["sleep/3", "close", "await/n1", "settle", "sleep/3", "settle", "sample/final"]
    return scn.line("scn", ident, s, extra="nt=1 family=reply-behind-stalled-writer-then-close")


def fam_gave_up_at_notifier(rng, ident):
    """callers give up (cancel / deadline) while their frame is with the writer and the send notifier is still running; the
    frame goes out afterwards: the pending-call table must be empty once they have returned, and stay so"""
    how = rng.choice(["cancel", "deadline"])
    k = 1 + rng.below(3)
    s = ["park/SendNotifier/1"]
    for i in range(1, k + 1):
        s.append(scn.call(i, timeout=(12 if how == "deadline" else 0), nowait=True))
    s.append("waitpark/SendNotifier")
    for i in range(1, k + 1):
        s.append(scn.cancel(i) if how == "cancel" else "await/c%d" % i)
    s += ["sample/gaveup", "release/SendNotifier", "settle", "sleep/3", "settle", "sample/open"]
    return scn.line("scn", ident, s, max_=2000, extra="nt=1 family=gave-up-while-notifier-runs")


def explore(ctx):
    rng, tier = ctx["rng"], ctx["tier"]
    if ctx.get("replay"):
        lines = C.replay_lines(ctx["replay"])
    else:
        lines = C.load_corpus("C11")
        n = 0
        for k in range(0, {"quick": 3, "thorough": 4, "search": 3}[tier]):
            for m in range(0, 3):
                for stop in ("close", "eof", "op", "other", "closeasync"):
                    for rep in range({"quick": 2, "thorough": 8, "search": 3}[tier]):
                        lines.append(fam_a(rng, "a%d" % n, k, m, stop)); n += 1
        for _ in range({"quick": 3, "thorough": 25, "search": 6}[tier]):
            lines += fam_cut(rng, "x%d" % n); n += 1
        for _ in range({"quick": 5, "thorough": 40, "search": 10}[tier]):
            lines.append(fam_b(rng, "b%d" % n)); n += 1
        for _ in range({"quick": 60, "thorough": 1500, "search": 200}[tier]):
            lines.append(fam_c(rng, "c%d" % n)); n += 1
        for _ in range({"quick": 4, "thorough": 30, "search": 8}[tier]):
            lines.append(fam_stalled_close(rng, "w%d" % n)); n += 1
        for dup in (1, 2, 3):
            for _ in range(2):
                lines.append(fam_d(rng, "d%d" % n, dup)); n += 1
        for _ in range({"quick": 12, "thorough": 200, "search": 30}[tier]):
            lines.append(fam_cancelled_then_close(rng, "p%d" % n)); n += 1
        for _ in range({"quick": 12, "thorough": 200, "search": 30}[tier]):
            lines.append(fam_cancel_behind_busy_writer(rng, "q%d" % n)); n += 1
        for _ in range({"quick": 12, "thorough": 200, "search": 30}[tier]):
            lines.append(fam_reply_behind_stall_then_stop(rng, "y%d" % n)); n += 1
        for _ in range({"quick": 8, "thorough": 100, "search": 16}[tier]):
            lines.append(fam_gave_up_at_notifier(rng, "g%d" % n)); n += 1
    triples, tie = C.run_both(ctx, "TestVerifScn", lines, go_timeout=1500)
    fams = {}
    for l in lines:
        f = [t for t in l.split(" ") if t.startswith("family=")]
        fams[f[0][7:] if f else "?"] = fams.get(f[0][7:] if f else "?", 0) + 1
    return dict(verdicts=triples, tie=tie, stats=dict(scenarios=len(lines), families=fams))
