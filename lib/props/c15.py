"""C15 — a command runs only on an established connection and is retried exactly when due."""
import common as C
import conngen as G

RULE = ("scripts of command outcomes (success, io.EOF, io.EOF with the transport dying, retriable, other) combined with "
        "scripts of dial / OnConnect outcomes (success, retriable failure, fatal failure), disconnections, forced reconnects "
        "and cancellation of callers waiting behind a held dial: (seq) per-goroutine event sequences equal to the extracted "
        "transition system's; (conc) the racing version judged by the extracted command monitor: a command function runs "
        "only after a Finalize (with a non-nil client), the k-th execution follows the (k-1)-th, after an execution under "
        "which the transport died the next one follows a later Finalize, a retriable failure is notified exactly once before "
        "the next execution, what DoCommand returns is the last outcome unchanged or - only while waiting - the context's "
        "error, the fatal connect error or the shutdown error; every command returns within the harness bound. "
        "non-trivial = a command was retried, cancelled or failed")
TRUSTED = ["as C14"]
ASSUMPTIONS = ["the command function returns promptly (it is the harness' own)"]


def cancel_sweep(ident, nwait, victim, outs):
    kv = ["conn", ident, "mode=seq", "lazy=1", "dials=ok", "conns=ok"]
    s = ["holddial"]
    for i in range(1, nwait + 1):
        s += ["cmd/%d/%s/0/nowait" % (i, outs), "settle"]
    s += ["cancelcmd/%d" % victim, "settle", "releasedial", "settle", "awaitall", "settle"]
    return " ".join(kv) + " script=" + ";".join(s)


def explore(ctx):
    rng, tier = ctx["rng"], ctx["tier"]
    if ctx.get("replay"):
        lines = C.replay_lines(ctx["replay"])
    else:
        lines = C.load_corpus("C15")
        n = {"quick": 500, "thorough": 8000, "search": 1500}[tier]
        for k in range(n):
            lines.append(G.seq_script(rng, "s%d" % k))
        for k in range(n):
            lines.append(G.conc_script(rng, "c%d" % k))
        # every command-outcome script up to length 3 against a connection that is up, and one that must be dialed first
        outs = ["ok", "eof", "eofdisc", "retriable", "other"]
        k = 0
        import itertools
        for d in range(1, 4):
            for seq in itertools.product(outs, repeat=d):
                for lazy, dials in ((1, "ok"), (1, "fail,ok"), (0, "ok")):
                    lines.append("conn o%d mode=seq lazy=%d dials=%s conns=- script=settle;cmd/1/%s/0/nowait;settle;awaitall;settle" % (k, lazy, dials, ",".join(seq))); k += 1
        # the built-in connection transports with a dial that takes its time: the command that started the sequence and one
        # submitted during the dial both return promptly when their contexts end
        for rep in range({"quick": 2, "thorough": 12, "search": 3}[tier]):
            for kind in ("tls", "plain"):
                for how in ("timeout", "cancel"):
                    lines.append("slowdial w%d kind=%s how=%s" % (k, kind, how)); k += 1
        # a command that meets io.EOF many times in a row, every reconnect succeeding: it is executed again each time
        for n_eof in (4, 5, 7, 12):
            for kind in ("eofdisc", "eof"):
                seq = ",".join([kind] * n_eof + ["ok"])
                lines.append("conn q%d mode=seq lazy=1 dials=%s conns=- script=settle;cmd/1/%s/0/nowait;settle;awaitall;settle" % (k, ",".join(["ok"] * (n_eof + 2)), seq)); k += 1
        for fatal_at in ("dials=fatal conns=-", "dials=ok conns=fatal", "dials=fail,fatal conns=-", "dials=ok,ok conns=fail,fatal"):
            lines.append("conn f%d mode=seq lazy=1 %s script=cmd/1/ok/0/nowait;settle;cmd/2/ok/0/nowait;settle;awaitall;settle" % (k, fatal_at)); k += 1
        for nwait in (1, 2, 3):
            for victim in range(1, nwait + 1):
                lines.append(cancel_sweep("v%d" % k, nwait, victim, rng.choice(["ok", "eof,ok", "retriable,ok"]))); k += 1
        for k in range({"quick": 60, "thorough": 1500, "search": 200}[tier]):
            lines.append(G.held_onconnect(rng, "h%d" % k))
    triples, tie = C.run_both(ctx, "TestVerifC15", lines, go_timeout=1500)
    return dict(verdicts=triples, tie=tie, stats=dict(cases=len(lines)))
