"""C17 — TLS connections authenticate the server and bound the handshake."""
import itertools
import common as C

RULE = ("real TLS handshakes over loopback connections supplied by a custom dialer, against certificates minted for the run "
        "(two CAs; server certificates: valid, other CA, other name, expired, self-signed, expired+other CA, other name+other "
        "CA): every combination of constructor (root PEM, root PEM with custom dialer, unparsable PEM, explicit tls.Config "
        "with roots ca1/ca2/none x server name right/wrong/absent x InsecureSkipVerify, neither), dialed host (matching / "
        "other), server certificate and server behaviour (completes the handshake, never answers, closes mid-handshake, "
        "answers garbage), with and without the caller mutating its tls.Config after construction: the dial must succeed "
        "exactly when Model/Tls.v says so, never create a transport otherwise, fail with 'handshake timeout' within "
        "[T, T+400 ms] for a silent peer, and never hold the caller's config object. non-trivial = every case")
TRUSTED = ["crypto/tls and crypto/x509 (their three checks are the model's primitives)", "certificates are minted by the harness with crypto/x509"]
ASSUMPTIONS = ["the system root pool does not contain the harness' CAs"]

CERTS = ["valid", "otherca", "othername", "expired", "selfsigned", "expired-otherca", "othername-otherca"]
BEH = ["handshake", "stall", "closemid", "garbage"]


def all_cases(tier, rng):
    out = []
    n = 0
    timeouts = [250] if tier == "quick" else [150, 400]
    ctors = []
    for roots in ("ca1", "ca2"):
        ctors.append("ctor=pem roots=%s" % roots)
        ctors.append("ctor=pemdialable roots=%s" % roots)
    ctors.append("ctor=pembad roots=ca1")
    ctors.append("ctor=pemempty roots=ca1")      # a bundle that is present but holds no certificate: empty, blank, text without a PEM block
    ctors.append("ctor=pemblank roots=ca1")
    ctors.append("ctor=pemtext roots=ca1")
    ctors.append("ctor=default")
    for roots in ("ca1", "ca2", "none"):
        for name in ("srv.test", "other.test", "-"):
            for skip in (0, 1):
                for mutate in (0, 1):
                    ctors.append("ctor=config roots=%s name=%s skip=%d mutate=%d" % (roots, name, skip, mutate))
    for ctor in ctors:
        for host in ("srv.test", "other.test"):
            for cert in CERTS:
                for beh in BEH:
                    if beh != "handshake" and cert != "valid" and not (tier != "quick" and cert == "otherca"):
                        continue            # the certificate is never looked at
                    if beh == "stall" and tier == "quick" and rng.below(4) != 0:
                        continue
                    dctx = rng.choice(["", "", " dialctx=cancelonly", " dialctx=laterdeadline"])     # the context the caller dials with
                    out.append("tls t%d %s host=%s cert=%s behaviour=%s timeout=%d%s" % (n, ctor, host, cert, beh, rng.choice(timeouts), dctx))
                    n += 1
    # a peer that never reads, over a link whose writes block until read (unbuffered pipe) and over loopback TCP
    for ctor in ("ctor=pem roots=ca1", "ctor=pemdialable roots=ca1", "ctor=config roots=ca1 name=srv.test skip=0 mutate=0", "ctor=default"):
        for link in ("pipe", "tcp"):
            out.append("tls t%d %s host=srv.test cert=valid behaviour=stall link=%s timeout=%d" % (n, ctor, link, rng.choice(timeouts))); n += 1
            out.append("tls t%d %s host=srv.test cert=valid behaviour=stall link=%s timeout=%d dialctx=laterdeadline" % (n, ctor, link, rng.choice(timeouts))); n += 1
        if ctor != "ctor=default":      # a rejected certificate deadlocks an unbuffered pipe (both ends writing): only successful handshakes there
            out.append("tls t%d %s host=srv.test cert=valid behaviour=handshake link=pipe timeout=%d" % (n, ctor, rng.choice(timeouts))); n += 1
    # several dials on one transport through a remote that walks over two host names (failover)
    hosts = ["srv.test", "other.test"]
    k = 0
    for length in (2, 3):
        for combo in itertools.product(itertools.product(hosts, ["valid", "othername", "otherca"], ["handshake"], ["fin", "-"]), repeat=length):
            if tier == "quick" and length == 3 and rng.below(12) != 0:
                continue
            if tier != "thorough" and length == 3 and rng.below(3) != 0:
                continue
            for ctor in ("ctor=pem roots=ca1", "ctor=pemdialable roots=ca1"):
                out.append("tlsseq q%d %s timeout=300 dials=%s" % (k, ctor, ",".join(":".join(st) for st in combo))); k += 1
    # two transports in one process, same host, a server that honours session tickets across connections: the second dial
    # is judged on ITS roots / configuration
    k = 0
    for tlsmax in ("12", "13"):
        for c1, c2 in (("ctor1=pem roots1=ca1", "ctor2=pem roots2=ca2"), ("ctor1=pem roots1=ca1", "ctor2=default"),
                       ("ctor1=pem roots1=ca1", "ctor2=config roots2=ca2 name2=srv.test"), ("ctor1=pem roots1=ca1", "ctor2=config roots2=ca1 name2=other.test"),
                       ("ctor1=config roots1=ca1 name1=srv.test", "ctor2=pem roots2=ca2"), ("ctor1=pem roots1=ca1", "ctor2=pem roots2=ca1"),
                       ("ctor1=pemdialable roots1=ca1", "ctor2=pemdialable roots2=ca2")):
            for rep in range(2):
                out.append("tlspair w%d %s %s host=pair.test cert=pairvalid tlsmax=%s timeout=400" % (k, c1.replace("srv.test", "pair.test"), c2.replace("srv.test", "pair.test"), tlsmax)); k += 1
    return out


def explore(ctx):
    rng, tier = ctx["rng"], ctx["tier"]
    if ctx.get("replay"):
        lines = C.replay_lines(ctx["replay"])
    else:
        lines = C.load_corpus("C17") + all_cases(tier, rng)
        ops = ["dialok", "dialfail", "finalize", "close"]
        k = 0
        for d in range(1, {"quick": 4, "thorough": 6, "search": 5}[tier] + 1):
            for seq in itertools.product(ops, repeat=d):
                lines.append("ctrans x%d kind=tls ops=%s" % (k, ",".join(seq))); k += 1
    tls = [l for l in lines if l.startswith("tls")]       # tls and tlsseq
    ct = [l for l in lines if l.startswith("ctrans")]
    triples, tie = C.run_both(ctx, "TestVerifC17", tls, go_timeout=1500)
    if ct:
        ctx2 = dict(ctx); ctx2["prop"] = "C14"
        t2, tie2 = C.run_both(ctx2, "TestVerifC14", ct, go_timeout=1500)
        triples += t2; tie += tie2
    return dict(verdicts=triples, tie=tie, stats=dict(tls_cases=len(tls), ctrans_cases=len(ct)))
