"""C18 — remote rotation and address parsing: case generation."""
import itertools
import common as C

RULE = ("remote: address groups drawn from a 10-token alphabet with blanks, case variants and duplicates (<=3 groups x <=3 "
        "addresses), op sequences over Get/Peek/Reset enumerated exhaustively up to the tier bound for a few shapes and "
        "randomly (longer) for the rest; non-trivial = >=2 cleaned groups and more ops than one full cycle. conc: 2-8 "
        "goroutines over k full cycles. uri: grammar-generated strings plus byte mutations; non-trivial = inside the "
        "modelled zone of net/url (model says accept or reject, not unspecified)")
TRUSTED = ["modelled, not verified: strings.TrimSpace/ToLower on ASCII (bytes >= 128 are not generated for addresses)",
           "modelled, not verified: net/url.Parse + net.SplitHostPort inside the zone scheme://[A-Za-z0-9.-:]*[/path]; outside it only the property predicate is evaluated",
           "section hypothesis: rand.Perm returns a permutation",
           "GoLite refinement (C18_source_*): the generic statement translator in go/gen prints what it walked (unsupported constructs become explicit nodes, proved absent); slices have value semantics; the mutex is a pair of counters and one call runs alone; int is 64 bits"]
ASSUMPTIONS = ["rand.Perm(n) returns a permutation of 0..n-1", "sync.Mutex gives mutual exclusion (concurrent cases check the multiset only)"]

TOKENS = ["a", "B", " a ", "", "  ", "c:1", "A", "b\t", "x.y:2", "C:1"]


def enc_groups(gs):
    return ";".join(",".join((a.encode().hex() or "-") for a in g) for g in gs)


def rand_groups(rng):
    ng = rng.below(4)
    return [[rng.choice(TOKENS) for _ in range(rng.below(4))] for _ in range(ng)]


def uri_gen(rng):
    schemes = ["fmprpc", "fmprpc+tls", "FMPRPC", "Fmprpc+TLS", "http", "fmprpc+tl", "fmp", "fmprpc-tls", "f", "fmprpc+tls2",
               # every way of being almost one of the two schemes: a bare separator, a cut-off or doubled suffix, stray parts
               "fmprpc+", "FMPRPC+", "fmprpc++", "fmprpc++tls", "fmprpc+tls+", "fmprpc+t", "fmprpc+tlss", "+tls", "tls", "fmprpc+tls+tls",
               "fmprpc.tls", "fmprpcs", "fmprpc+ssl", "xfmprpc"]
    hosts = ["h", "example.com", "a-b.c", "10.0.0.1", "", "A.b", "localhost", "x" * 20, "[::1]", "[2001:db8::1]", "[::]", "[fe80::1%25eth0]"]
    ports = [":1", ":443", ":", "", ":65536", ":x", ":1:2", ":12a", "::", ":0"]
    paths = ["", "", "/", "/a/b", "/a_b.c", "/x-y/z.w", "?q", "#f", "/a?b"]
    s = rng.choice(schemes) + rng.choice(["://"] * 12 + [":/", ":", "//", ""]) + rng.choice(hosts) + rng.choice(ports) + rng.choice(paths)
    if rng.chance(1, 6):
        b = bytearray(s.encode())
        for _ in range(1 + rng.below(2)):
            k = rng.below(3)
            if k == 0 and b:
                b[rng.below(len(b))] = rng.below(128)
            elif k == 1 and b:
                del b[rng.below(len(b))]
            else:
                b.insert(rng.below(len(b) + 1), rng.choice(list(b":/@[]%.+-a1 ")))
        s = bytes(b).decode("latin1")
    return s


def explore(ctx):
    rng, tier = ctx["rng"], ctx["tier"]
    lines = []
    if ctx.get("replay"):
        lines = C.replay_lines(ctx["replay"])
    else:
        lines += C.load_corpus("C18")
        n_ex = {"quick": 6, "thorough": 8, "search": 7}[tier]
        n_rand = {"quick": 1500, "thorough": 20000, "search": 6000}[tier]
        n_uri = {"quick": 2500, "thorough": 50000, "search": 10000}[tier]
        k = 0
        # exhaustive op sequences on a few fixed shapes
        shapes = [[["a", "B"], ["c:1"]], [[" a ", "", "A"], ["  "], ["b\t", "x.y:2"]], [["a"]], [["a", "b\t", "C:1"], ["x.y:2", "A"]]]
        for sh in shapes:
            for L in range(0, n_ex + 1):
                for ops in itertools.product("GPR", repeat=L):
                    lines.append("remote r%d groups=%s ops=%s" % (k, enc_groups(sh), "".join(ops)))
                    k += 1
        for _ in range(n_rand):
            gs = rand_groups(rng)
            L = rng.below(25)
            ops = "".join(rng.choice("GGGGPPR") for _ in range(L))
            lines.append("remote r%d groups=%s ops=%s" % (k, enc_groups(gs), ops))
            k += 1
        # the caller's own slices: one slice used for two groups, a second construction from the same slices, and the caller
        # writing into its slices after construction - the remote must behave as constructed from the VALUES it was given
        for _ in range({"quick": 300, "thorough": 4000, "search": 800}[tier]):
            gs = rand_groups(rng) or [["a"]]
            if rng.chance(1, 2):
                gs[rng.below(len(gs))] = rng.choice([["", "A:1", "b:2"], [" ", "x", "", "Y"], ["a", "", "", "B", "c"]])
            extra = []
            how = rng.below(4)
            if how == 0 and len(gs) <= 8:
                i = rng.below(len(gs))
                gs.append(list(gs[i]))
                extra.append("alias=%d:%d" % (i, len(gs) - 1))
            elif how == 1:
                extra.append("twice=1")
            elif how == 2:
                extra.append("scribble=1")
            else:
                extra += ["twice=1", "scribble=1"]
            ops = "".join(rng.choice("GGGGGPRR") for _ in range(5 + rng.below(30)))
            lines.append("remote r%d groups=%s ops=%s %s" % (k, enc_groups(gs), ops, " ".join(extra)))
            k += 1
        # raw text straight into the parser: one address, several, blanks, mixed case, stray separators and white space
        for _ in range({"quick": 400, "thorough": 6000, "search": 1000}[tier]):
            toks = ["a", "B", "Host:1", "X.y:2", " a ", "", "  ", "c:1", "A", "b\t", "MiXeD.example:443"]
            shape = rng.below(5)
            if shape == 0:
                txt = rng.choice(toks)                               # exactly one address, no separator at all
            elif shape == 1:
                txt = rng.choice(toks) + rng.choice([";", ",", " ;", ", "])
            else:
                txt = ";".join(",".join(rng.choice(toks) for _ in range(rng.below(4))) for _ in range(1 + rng.below(3)))
            lines.append("parse q%d s=%s" % (k, txt.encode().hex() or "-"))
            k += 1
        for _ in range({"quick": 30, "thorough": 400, "search": 100}[tier]):
            gs = rand_groups(rng)
            lines.append("conc c%d groups=%s cycles=%d workers=%d" % (k, enc_groups(gs), 1 + rng.below(4), 2 + rng.below(7)))
            k += 1
        for _ in range(n_uri):
            s = uri_gen(rng)
            lines.append("uri u%d s=%s" % (k, s.encode("latin1").hex()))
            k += 1
    triples, tie = C.run_both(ctx, "TestVerifC18", lines)
    stats = dict(remote=sum(1 for l in lines if l.startswith("remote")), conc=sum(1 for l in lines if l.startswith("conc")),
                 uri=sum(1 for l in lines if l.startswith("uri")),
                 uri_in_zone=sum(1 for t in triples if t[0].startswith("uri") and "nontrivial" in t[1]),
                 uri_unspecified=sum(1 for t in triples if t[0].startswith("uri") and "unspec" in t[1]))
    return dict(verdicts=triples, tie=tie, stats=stats)
