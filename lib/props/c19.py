"""C19 — RPC tags travel with the call and contexts are never mutated."""
import itertools
import common as C
import scn, mp

T = mp.vtext
RULE = ("(1) every derivation sequence of <= N operations (quick 5, thorough 7) over: build a map, AddRPCTagsToContext on any "
        "existing context with any client-held map, TagsFromContext on any context, mutate any client-held map; after every "
        "operation the tags seen through EVERY context created so far are compared with the model's (and a changed view of an "
        "older context is a violation by itself). (2) calls, compressed calls (4 ctypes) and notifications through the real "
        "client with generated context tags, a tag-extraction function selecting context values (or none), with and without a "
        "timeout: the tags on the written frame must be the model's traveling_tags. non-trivial = the sequence contains an Add "
        "on a tagged context followed by a mutation, or the message carries tags")
TRUSTED = ["tag values are compared in the canonical value text form (msgpack's normalisation of value types)"]
ASSUMPTIONS = []

KEYS = [b"a", b"b", b"k"]


def small_map(rng):
    n = rng.below(3)
    return ("m", [(("s", KEYS[i]), rng.choice([1, 2, ("s", b"x"), True, None, ("s", b""), 0])) for i in sorted(set(rng.below(3) for _ in range(n)))])


def tree_cases(rng, maxlen, count):
    out = []
    for k in range(count):
        ops = []
        nctx, nmap = 1, 0
        for _ in range(1 + rng.below(maxlen)):
            r = rng.below(9)
            if r == 8:
                ops.append("der:%d:%s" % (rng.below(nctx), rng.choice("vctf"))); nctx += 1
            elif r <= 1 or nmap == 0:
                ops.append("new:" + T(small_map(rng))); nmap += 1
            elif r <= 4:
                ops.append("add:%d:%d" % (rng.below(nctx), rng.below(nmap))); nctx += 1
            elif r == 5:
                c = rng.below(nctx)
                ops.append("read:%d" % c)
                nmap += 1        # only if that context has tags; the harness and the driver skip the id otherwise
                # keep ids aligned: a read on an untagged context creates nothing on both sides, so re-base conservatively
                if c == 0:
                    nmap -= 1
            else:
                ops.append("mut:%d:%s:%s" % (rng.below(nmap), rng.choice(KEYS).hex(), T(rng.choice([7, 8, ("s", b"mut"), None]))))
        out.append("tags t%d ops=%s" % (k, ";".join(ops)))
    return out


def exhaustive_trees(maxlen):
    """all sequences over a small op alphabet with indices bounded by what exists"""
    out = []
    base_maps = ["new:" + T(("m", [(("s", b"a"), 1)])), "new:" + T(("m", [(("s", b"b"), 2), (("s", b"a"), 9)]))]

    def rec(prefix, nctx, nmap, depth):
        if depth == 0:
            return
        cands = []
        if nmap < 2:
            cands.append((base_maps[nmap], nctx, nmap + 1))
        for c in range(nctx):
            for m in range(nmap):
                cands.append(("add:%d:%d" % (c, m), nctx + 1, nmap))
        for m in range(nmap):
            cands.append(("mut:%d:%s:%s" % (m, b"a".hex(), T(7)), nctx, nmap))
        for c in range(1, nctx):
            cands.append(("read:%d" % c, nctx, nmap + 1))
        if nctx >= 2 and depth <= 3:
            cands.append(("der:%d:f" % (nctx - 1), nctx + 1, nmap))
        for op, nc, nm in cands:
            seq = prefix + [op]
            out.append(seq)
            rec(seq, nc, nm, depth - 1)
    rec([], 1, 0, maxlen)
    return out


def e2e(rng, ident):
    kind = rng.choice(["call", "callc", "notify"])
    ctx_tags = small_map(rng) if rng.chance(2, 3) else None
    if ctx_tags is not None and not ctx_tags[1]:
        ctx_tags = None if rng.chance(1, 2) else ctx_tags
    if ctx_tags is not None and rng.chance(1, 3):
        # the context already carries a tag under a NAME the tag-extraction function also produces (a forwarded call): the
        # selected value replaces it, as the model's merge says
        ctx_tags = ("m", ctx_tags[1] + [(("s", rng.choice([b"t1", b"t2"])), rng.choice([9, ("s", b"old")]))])
    tagsfunc = rng.chance(2, 3)
    # context values under keys K1,K2; the tag function maps K1->"t1", K2->"t2", K3->"t3" (K3 has no value)
    vals = {}
    if rng.chance(2, 3):
        vals[b"K1"] = rng.choice([5, ("s", b"v1")])
    if rng.chance(1, 2):
        vals[b"K2"] = rng.choice([6, True])
    selected = []
    if tagsfunc:
        for ck, tn in ((b"K1", b"t1"), (b"K2", b"t2")):
            if ck in vals:
                selected.append((("s", tn), vals[ck]))
    tagspec = (T(ctx_tags) if ctx_tags is not None else "-")
    if vals:
        tagspec += "~" + "+".join("%s:%s" % (ck.hex(), T(v)) for ck, v in vals.items())
    if rng.chance(1, 4):
        tagspec += ("~" if not vals else "") + "~fn"      # the context is also marked fire-now, after the tags were attached
    timeout = rng.choice([0, 0, 30000])
    ct = 0 if kind != "callc" else rng.choice([1, 2, 3, 77])
    if kind == "notify":
        s = ["notify/n1/%s/%s/%s/%d" % (scn.M.hex(), T(scn.arg(1)), tagspec, timeout)]
    else:
        s = ["call/c1/%s/%s/%d/%s/%d" % (scn.M.hex(), T(scn.arg(1)), ct, tagspec, timeout), scn.cancel(1)]
    s.append("settle")
    extra = "nt=1 tkind=%s tagsfunc=%d ctxtags=%s selected=%s" % (kind, 1 if tagsfunc else 0, T(ctx_tags) if ctx_tags is not None else "-",
                                                                  T(("m", selected)))
    if tagsfunc:
        extra += " tagkeys=%s:%s,%s:%s,%s:%s" % (b"K1".hex(), b"t1".hex(), b"K2".hex(), b"t2".hex(), b"K3".hex(), b"t3".hex())
    return "scn %s max=1048576 protocols=%s %s script=%s" % (ident, scn.PROTO, extra, ";".join(s))


def served(rng, ident):
    """several tagged / untagged calls, compressed calls and notifications arriving on ONE connection: each handler sees
    exactly the tags of its own message (a later message lacking a key an earlier one carried must not show it)"""
    import frames
    pool = [b"user", b"trace", b"device", b"hello"]
    s, inv = [], []
    k = 2 + rng.below(4)
    for i in range(k):
        nonce = 100 + i
        keys = [x for x in pool if rng.chance(1, 3)]
        tags = ("m", [(("s", x), rng.choice([("s", b"v%d" % i), i, True, None])) for x in keys]) if (keys and rng.chance(4, 5)) else None
        kind = rng.below(3)
        if kind == 0:
            s.append(scn.feed_call(50 + i, nonce, tags=tags))
        elif kind == 1:
            s.append(scn.feed_notify(nonce, tags=tags))
        else:
            s.append("feedcallc/%d/%d/%s/%s/%s" % (50 + i, rng.choice([0, 1, 2]), scn.M.hex(), T(scn.arg(nonce)), T(tags) if tags is not None else "-"))
        s.append("waithandlers/%d" % (i + 1))
        if rng.chance(1, 2):
            s += [scn.finish(i, nonce), "settle"]
        inv.append("%d~%s~%s" % (nonce, T(scn.arg(nonce)), T(tags) if tags is not None else "-"))
    s += ["finishall", "settle"]
    return scn.line("scn", ident, s, extra="nt=1 quiescent=1 family=served-tags expectinv=%s" % "|".join(inv))


def explore(ctx):
    rng, tier = ctx["rng"], ctx["tier"]
    if ctx.get("replay"):
        lines = C.replay_lines(ctx["replay"])
    else:
        lines = C.load_corpus("C19")
        depth = {"quick": 5, "thorough": 6, "search": 5}[tier]
        for k, seq in enumerate(exhaustive_trees(depth)):
            lines.append("tags x%d ops=%s" % (k, ";".join(seq)))
        lines += tree_cases(rng, {"quick": 8, "thorough": 12, "search": 10}[tier], {"quick": 500, "thorough": 20000, "search": 3000}[tier])
        for k in range({"quick": 300, "thorough": 3000, "search": 800}[tier]):
            lines.append(e2e(rng, "e%d" % k))
        for k in range({"quick": 60, "thorough": 1000, "search": 150}[tier]):
            lines.append(served(rng, "v%d" % k))
    triples, tie = C.run_both(ctx, "TestVerifC19", lines, go_timeout=1500)
    return dict(verdicts=triples, tie=tie, stats=dict(tree_cases=sum(1 for l in lines if l.startswith("tags")), e2e=sum(1 for l in lines if l.startswith("scn"))))
