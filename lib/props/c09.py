"""C09 — a handler's context is cancelled only for its own cancellation or on close."""
import itertools
import common as C
import scn

RULE = ("every set of k concurrently running handlers (each a call or a notification), every order in which they finish or "
        "are cancelled by the peer, and a local Close / peer EOF inserted at every position of that order (or not at all); "
        "after each step the harness waits for quiescence so that a context cancelled for the wrong reason is seen before "
        "the next step. k <= 3 exhaustively in the quick tier, <= 4 exhaustively and 5 sampled in the thorough tier. "
        "non-trivial = k >= 2")
TRUSTED = ["each handler's context is watched by a harness goroutine; 'cancelled' means Done() was observed closed"]
ASSUMPTIONS = ["the peer uses pairwise distinct seqnos for calls that are in flight together"]


def scenarios(k, kinds, order, acts, closepos, closekind, ident, tagged=None):
    """kinds[i] in 'c','n'; order: permutation of range(k); acts[i] in 'f' (finish), 'x' (peer cancels, then finish);
    closepos in 0..k or None"""
    s = []
    # the peer's call seqnos start at 0 in half of the histories (the first notification's task must not meet call 0's) and at 10
    # in the others
    base = 0 if order[0] % 2 == 0 else 10
    for i in range(k):
        tg = ("m", [(("s", b"tag%d" % i), ("s", b"v%d" % i))]) if tagged and tagged[i] else None
        if kinds[i] == "c":
            s.append(scn.feed_call(base + i, 100 + i, tags=tg))
        else:
            s.append(scn.feed_notify(100 + i, tags=tg))
        s.append("waithandlers/%d" % (i + 1))
    s.append("settle")

    def do_close():
        if closekind == "close":
            s.append("close")
        else:
            s.append("readerr/eof")
            s.append("waitdone")
        s.append("settle")
    for pos, h in enumerate(order):
        if closepos == pos:
            do_close()
        if acts[h] == "x" and kinds[h] == "c":
            s.append(scn.feed_cancel(base + h))
            s.append("settle")
        s.append(scn.finish(h, 100 + h))
        s.append("settle")
    if closepos == k:
        do_close()
    fam = "notify-overlap" if kinds.count("n") >= 2 else ("single-notify" if "n" in kinds else "calls")
    if tagged and any(tagged):
        fam += "-tagged"
    return scn.line("scn", ident, s, extra="nt=%d family=%s" % (1 if k >= 2 else 0, fam))


def explore(ctx):
    rng, tier = ctx["rng"], ctx["tier"]
    if ctx.get("replay"):
        lines = C.replay_lines(ctx["replay"])
    else:
        lines = C.load_corpus("C09")
        kmax = {"quick": 3, "thorough": 4, "search": 3}[tier]
        n = 0
        for k in range(1, kmax + 1):
            for kinds in itertools.product("cn", repeat=k):
                for order in itertools.permutations(range(k)):
                    for acts in itertools.product("fx", repeat=k):
                        if any(a == "x" and kd == "n" for a, kd in zip(acts, kinds)):
                            continue
                        for closepos in [None] + list(range(k + 1)):
                            for closekind in (["close", "eof"] if closepos is not None else ["-"]):
                                if k >= 3 and tier != "thorough" and rng.below(4) != 0:
                                    continue
                                if k >= 4 and rng.below(12) != 0:
                                    continue
                                tagged = [rng.chance(1, 2) for _ in range(k)] if rng.chance(1, 2) else None
                                lines.append(scenarios(k, kinds, order, acts, closepos, closekind, "s%d" % n, tagged))
                                n += 1
        if tier == "thorough":
            for _ in range(1500):
                k = 5
                kinds = [rng.choice("cn") for _ in range(k)]
                order = rng.shuffle(list(range(k)))
                acts = ["x" if kinds[i] == "c" and rng.chance(1, 3) else "f" for i in range(k)]
                closepos = rng.choice([None] + list(range(k + 1)))
                lines.append(scenarios(k, kinds, order, acts, closepos, rng.choice(["close", "eof"]), "s%d" % n,
                                       [rng.chance(1, 2) for _ in range(k)]))
                n += 1
        # long histories: one call is cancelled by the peer but its handler keeps running while many more requests
        # arrive; when it finally returns nobody else may be affected
        for _ in range({"quick": 6, "thorough": 60, "search": 15}[tier]):
            m = rng.choice([33, 40, 70, 100])
            s = [scn.feed_call(10, 100), "waithandlers/1", scn.feed_cancel(10), "settle"]
            for i in range(1, m + 1):
                s.append(scn.feed_call(10 + i, 100 + i) if rng.chance(3, 4) else scn.feed_notify(100 + i))
            s.append("waithandlers/%d" % (m + 1))
            s.append("settle")
            s.append(scn.finish(0, 100))
            s.append("settle")
            for i in rng.shuffle(list(range(1, m + 1)))[:10]:
                s.append(scn.finish(i, 100 + i))
            s.append("settle")
            lines.append(scn.line("scn", "s%d" % n, s, extra="nt=1 family=cancelled-handler-outlives-many-requests")); n += 1
        # a request is being decoded while Close runs: it must either not be served or be cancelled
        for _ in range({"quick": 6, "thorough": 60, "search": 15}[tier]):
            s = ["park/MakeArg/1", "feednowait/" + (scn.feed_call(10, 100) if rng.chance(1, 2) else scn.feed_notify(100))[5:], "waitpark/MakeArg",
                 "close/nowait", "waitdone", "settle", "release/MakeArg", "settle", "sleep/5", "settle"]
            lines.append(scn.line("scn", "s%d" % n, s, extra="nt=1 family=close-while-decoding-request")); n += 1
        # cancellation frames that name no call of the peer (negative sequence numbers) while notification handlers run
        for _ in range({"quick": 8, "thorough": 80, "search": 20}[tier]):
            m = 1 + rng.below(3)
            s = []
            for i in range(m):
                s.append(scn.feed_notify(100 + i))
            s.append("waithandlers/%d" % m)
            for _ in range(1 + rng.below(3)):
                s.append(scn.feed_cancel(-1 - rng.below(4)))
            s += ["settle", "sleep/2", "settle"]
            for i in range(m):
                s.append(scn.finish(i, 100 + i))
            s.append("settle")
            lines.append(scn.line("scn", "s%d" % n, s, extra="nt=1 family=cancel-naming-no-call")); n += 1
    if not ctx.get("replay"):
        k = 0
        for rep in range({"quick": 2, "thorough": 20, "search": 4}[tier]):
            for when in ("inflight", "afterwrite"):
                for how in ("cancel", "deadline"):
                    lines.append("e2ec y%d when=%s how=%s" % (k, when, how)); k += 1
            # many calls given up together while the peer is not reading: every handler still hears of it afterwards
            lines.append("e2eb x%d n=%d" % (k, rng.choice([80, 100, 150]))); k += 1
            for how in ("cancel", "deadline"):
                lines.append("e2en z%d how=%s" % (k, how)); k += 1
    triples, tie = C.run_both(ctx, "TestVerifScn", lines, go_timeout=1500)
    return dict(verdicts=triples, tie=tie, stats=dict(scenarios=len(lines)), exhaustive=not ctx.get("replay"))
