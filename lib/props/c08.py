"""C08 — cancellation and timeouts end the call promptly and reach its handler."""
import common as C
import scn, frames, mp

RULE = ("client side: one call (sometimes with bystanders) whose context is cancelled or whose timeout expires while "
        "goroutines of the library are parked at each public hook: writer (send notifier, inside the connection's Write), "
        "reader (ErrorUnwrapper.MakeArg / UnwrapError, k-th FrameRead of the reply), caller (profiler, ClientCall, "
        "ClientReply log hooks); peer responsive (reply before / during / after), silent, or not reading at all (Write "
        "stalled for good); the call must return within the bound, with the context's error unless its reply had arrived, "
        "and if its frame was written a cancel frame with its seqno follows it. server side: a cancel frame for a running "
        "call, right behind its call frame in the same read or later, must cancel that handler's context. non-trivial = "
        "every scenario (each has a cancellation)")
TRUSTED = ["'promptly' = within the harness' 5 s bound; timeouts are real time (10-15 ms) against parks that last longer"]
ASSUMPTIONS = ["cancellation instants are the public hooks, not every statement (DESIGN 4.3 instrumenter not built)"]

OTHER_HOOKS = [("SendNotifier", 1), ("UnwrapMakeArg", 1), ("UnwrapError", 1), ("FrameRead", 1), ("FrameRead", 3), ("FrameRead", 6)]
CALLER_HOOKS = [("StartProfiler", 1), ("ClientCall", 1), ("ClientReply", 1)]


def client(rng, ident):
    how = rng.choice(["cancel", "cancel", "deadline"])
    peer = rng.choice(["silent", "silent", "reply-parked", "reply-after", "not-reading"])
    to = rng.choice([10, 15]) if how == "deadline" else 0
    s = []
    fam = "%s-%s" % (how, peer)
    bystander = rng.chance(1, 3)
    if peer == "not-reading":
        # the peer never drains: the writer blocks inside Write
        s += ["stallw/on", scn.call(1, timeout=to, nowait=True), "waitinwrite"]
        if rng.chance(1, 2):
            s.append(scn.call(2, timeout=to, nowait=True))      # queued behind the blocked write
            s.append("sleep/1")
            s.append(scn.cancel(2) if how == "cancel" else "await/c2")
        s.append(scn.cancel(1) if how == "cancel" else "await/c1")
        s += ["stallw/off", "settle"]
        return scn.line("scn", ident, s, extra="nt=1 family=%s" % fam)
    if peer == "reply-parked":
        hook, nth = rng.choice(OTHER_HOOKS[1:])
        s += ["park/%s/%d" % (hook, nth), scn.call(1, timeout=to)]
        if bystander:
            s.append(scn.call(2))
        s += ["feednowait/" + scn.feed_resp(0, 1, pad=8)[5:], "waitpark/" + hook]
        s.append(scn.cancel(1) if how == "cancel" else "await/c1")
        s += ["release/" + hook, "settle"]
        fam += "-" + hook
    elif peer == "reply-after":
        s += [scn.call(1, timeout=to)]
        s.append(scn.cancel(1) if how == "cancel" else "await/c1")
        s += [scn.feed_resp(0, 1), "settle"]
    else:
        # silent peer; cancel at a hook of the writer or of the caller itself
        if rng.chance(1, 2):
            hook, nth = OTHER_HOOKS[0]
            s += ["park/%s/%d" % (hook, nth), scn.call(1, timeout=to, nowait=True), "waitpark/" + hook]
            s.append(scn.cancel(1) if how == "cancel" else "await/c1")
            s += ["release/" + hook, "settle"]
            fam += "-" + hook
        else:
            hook, nth = rng.choice(CALLER_HOOKS[:2])
            s += ["park/%s/%d" % (hook, nth), scn.call(1, timeout=to, nowait=True), "waitpark/" + hook]
            if how == "cancel":
                s.append(scn.cancel(1, nowait=True))
            else:
                s.append("sleep/%d" % (to + 5))
            s += ["release/" + hook, "await/c1", "settle"]
            fam += "-" + hook
    if bystander:
        s.append(scn.cancel(2))
    s.append("waitev/write~/2") if False else None
    s = [x for x in s if x]
    s.append("settle")
    return scn.line("scn", ident, s, extra="nt=1 family=%s" % fam)


def server(rng, ident):
    ch = mp.Chooser()
    k = 1 + rng.below(3)
    s = []
    victim = rng.below(k)
    together = rng.chance(1, 2)
    blob = b""
    for i in range(k):
        fr = frames.frame(frames.content([0, 10 + i, ("s", scn.M), scn.arg(100 + i)], ch), ch)
        if together and i == victim:
            fr += frames.frame(frames.content([3, 10 + i, ("s", scn.M)], ch), ch)
        blob += fr
    if together:
        # call and cancel arrive in the same read
        s += ["feed/" + blob.hex(), "waithandlers/%d" % k, "settle"]
    else:
        for i in range(k):
            s += [scn.feed_call(10 + i, 100 + i), "waithandlers/%d" % (i + 1)]
        s += [scn.feed_cancel(10 + victim), "settle"]
    s += ["sleep/2", "settle"]
    return scn.line("scn", ident, s, extra="nt=1 family=server-%s" % ("same-read" if together else "later"))


def server_burst(rng, ident):
    """many calls, each immediately followed by its cancellation, delivered in one read"""
    ch = mp.Chooser()
    k = rng.choice([8, 20, 40])
    blob = b""
    for i in range(k):
        blob += frames.frame(frames.content([0, 10 + i, ("s", scn.M), scn.arg(100 + i)], ch), ch)
        blob += frames.frame(frames.content([3, 10 + i, ("s", scn.M)], ch), ch)
    s = ["feed/" + blob.hex(), "waithandlers/%d" % k, "settle", "sleep/2", "settle"]
    return scn.line("scn", ident, s, extra="nt=1 family=server-burst-same-read")


def explore(ctx):
    rng, tier = ctx["rng"], ctx["tier"]
    if ctx.get("replay"):
        lines = C.replay_lines(ctx["replay"])
    else:
        lines = C.load_corpus("C08")
        n = 0
        for _ in range({"quick": 250, "thorough": 5000, "search": 800}[tier]):
            lines.append(client(rng, "c%d" % n)); n += 1
        for _ in range({"quick": 150, "thorough": 2500, "search": 400}[tier]):
            lines.append(server(rng, "v%d" % n)); n += 1
        for _ in range({"quick": 40, "thorough": 600, "search": 100}[tier]):
            lines.append(server_burst(rng, "b%d" % n)); n += 1
    if not ctx.get("replay"):
        # the writer is stuck inside Write (peer not reading), a second caller is blocked at the hand-off behind it, and a THIRD
        # (fourth ...) call is cancelled / times out: it must return at once, whoever else is stuck
        for rep in range({"quick": 6, "thorough": 60, "search": 12}[tier]):
            how = rng.choice(["cancel", "deadline"])
            extra_calls = 1 + rng.below(3)
            s = ["stallw/on", scn.call(1, nowait=True), "waitinwrite", scn.call(2, nowait=True), "sleep/2"]
            victims = []
            for j in range(extra_calls):
                c = 3 + j
                victims.append(c)
                s.append(scn.call(c, timeout=(15 if how == "deadline" else 0), nowait=True))
                s.append("sleep/1")
            for c in victims:
                s.append(scn.cancel(c) if how == "cancel" else "await/c%d" % c)
            s += ["stallw/off", "settle", scn.cancel(1), scn.cancel(2), "settle"]
            lines.append(scn.line("scn", "q%d" % rep, s, extra="nt=1 family=cancel-behind-stuck-writer"))
        # bursts of cancellations of calls whose frames are on the wire, while the writer is stuck inside Write and drains
        # one frame at a time: every one of them must be followed by its cancellation frame once the peer reads again
        for rep in range({"quick": 10, "thorough": 120, "search": 24}[tier]):
            how = rng.choice(["cancel", "cancel", "deadline"])
            nw = 4 + rng.below(6)
            s = []
            for c in range(1, nw + 1):
                s.append(scn.call(c, timeout=(400 if how == "deadline" else 0)))
            s += ["stallw/on", scn.call(nw + 1, nowait=True), "waitinwrite"]
            todo = list(range(1, nw + 1))
            if rng.chance(1, 2):
                todo = rng.shuffle(todo)
            if how == "deadline":
                s.append("sleep/450")
                for c in todo:
                    s.append("await/c%d" % c)
                for _ in range(rng.below(3)):
                    s += ["stepw/1", "sleep/1"]
            else:
                while todo:
                    b = 1 + rng.below(min(4, len(todo)))
                    for c in todo[:b]:
                        s.append(scn.cancel(c))
                    todo = todo[b:]
                    s.append("sleep/1")
                    if rng.chance(2, 3):
                        s += ["stepw/1", "sleep/1"]
            s += ["stallw/off", "settle", scn.cancel(nw + 1), "settle"]
            lines.append(scn.line("scn", "u%d" % rep, s, extra="nt=1 family=cancel-bursts-behind-busy-writer"))
        # the client has a tag-extraction function that selects context values: the timeout argument must still become the
        # deadline of the call (plain, compressed, notification), also under a parent deadline that is further away
        for rep in range({"quick": 6, "thorough": 60, "search": 12}[tier]):
            kind = rng.choice(["call", "callc", "notify-stalled"])
            vals = "%s:%s" % (b"K1".hex(), scn.T(rng.choice([5, ("s", b"v1")])))
            tagspec = rng.choice(["-", scn.T(("m", [(("s", b"a"), 1)]))]) + "~" + vals
            if kind == "notify-stalled":
                s = ["stallw/on", scn.notify(1, nowait=True), "waitinwrite", scn.notify(2, tags=tagspec, timeout=15, nowait=True), "await/n2", "stallw/off", "await/n1", "settle"]
                exp = "2:ctx"
            else:
                ct = 0 if kind == "call" else rng.choice([1, 2])
                s = ["call/c1/%s/%s/%d/%s/15/nowait" % (scn.M.hex(), scn.T(scn.arg(1)), ct, tagspec), "await/c1", "settle"]
                exp = "1:ctx"
            tk = "%s:%s,%s:%s" % (b"K1".hex(), b"t1".hex(), b"K2".hex(), b"t2".hex())
            lines.append(scn.line("scn", "g%d" % rep, s, extra="nt=1 family=deadline-with-tag-extraction tagkeys=%s expect=%s" % (tk, exp)))
        # the connection refuses the call frame's write whole with an error that calls itself temporary, and the caller gives up
        # right then: whatever the library does about the write, a cancellation frame never precedes its call frame, and a call
        # frame that does go out is followed by its cancellation
        for rep in range({"quick": 8, "thorough": 80, "search": 16}[tier]):
            how = rng.choice(["cancel", "deadline"])
            s = [scn.notify(9), "writetemp/%d" % (1 + rng.below(2)), scn.call(1, timeout=(4 if how == "deadline" else 0), nowait=True), "sleep/%d" % rng.choice([0, 1, 3])]
            s.append(scn.cancel(1) if how == "cancel" else "await/c1")
            s += ["writeok", "settle", "sleep/60", "settle"]
            lines.append(scn.line("scn", "m%d" % rep, s, extra="nt=1 family=gave-up-during-temporary-write-error"))
        # calls with a timeout through a Connection's OWN client over real transports: the first attempt is throttled, the
        # retry (after a command backoff longer than what was left of the timeout) meets a peer that takes 3 s to answer:
        # every attempt carries the timeout, so the call returns its deadline error long before that
        for rep in range({"quick": 2, "thorough": 12, "search": 3}[tier]):
            T_, b, d1 = rng.choice([(100, 400, 20), (150, 300, 30), (80, 200, 10)])
            lines.append("cc v%d timeout=%d backoff=%d cancelat=- attempts=%d:throttle,3000:ok maxret=%d" % (rep, T_, b, d1, d1 + b + T_ + 1500))
        k = 0
        for rep in range({"quick": 2, "thorough": 20, "search": 4}[tier]):
            for when in ("inflight", "afterwrite"):
                for how in ("cancel", "deadline"):
                    lines.append("e2ec y%d when=%s how=%s" % (k, when, how)); k += 1
            # many calls given up together while the peer is not reading: every handler still hears of it afterwards
            lines.append("e2eb x%d n=%d" % (k, rng.choice([80, 100, 150]))); k += 1
    triples, tie = C.run_both(ctx, "TestVerifScn", lines, go_timeout=1500)
    if not ctx.get("replay"):
        # the serving-side families once more on a single P: a different, much coarser interleaving of the receive
        # goroutine with the goroutines it spawns
        sub = [l.replace("scn ", "scn g1_", 1) for l in lines if "family=server" in l]
        t2, tie2 = C.run_both(ctx, "TestVerifScn", sub, go_timeout=1500, env_extra={"GOMAXPROCS": "1"})
        triples += t2
        tie += tie2
    fams = {}
    for l in lines:
        f = [t for t in l.split(" ") if t.startswith("family=")]
        fams[f[0][7:] if f else "?"] = fams.get(f[0][7:] if f else "?", 0) + 1
    return dict(verdicts=triples, tie=tie, stats=dict(scenarios=len(lines), families=fams))
