"""C20 — each RPC is accounted exactly once, under its tag, with its wire size."""
import common as C
import scn, frames, mp

T = mp.vtext
RULE = ("mixes of calls (answered, cancelled, timed out, refused as too big, interrupted by Close), compressed calls, "
        "notifications and served calls, each operation under its own method name so that records can be attributed; every "
        "payload size random; the record of an operation whose frame was written must exist exactly once under "
        "'<Type> <method>' with Size = bytes of its frame, plus the payload length of the peer's matching frame when that "
        "frame was received before the record was finished (sizes are recomputed from the raw frames of the event log); "
        "plus NetworkInstrumenter driven directly by random operation lists against Model/Instrument.v. non-trivial = the "
        "scenario contains a non-successful RPC or a served call")
TRUSTED = ["records are attributed through the method name in their tag (each operation uses its own method)",
           "GoLite refinement (C20_source_*): the generic statement translator in go/gen prints what it walked (unsupported constructs become explicit nodes, proved absent); r.storage.Put is an external call whose only modelled effect is the recorded event; time.Since is an opaque value; the mutex is a pair of counters and one call runs alone; int64 wraps at 2^63"]
ASSUMPTIONS = []


def scenario(rng, ident):
    s = []
    wants = []
    meths = []
    n = 0
    hid = 0
    calls_started = 0
    for _ in range(2 + rng.below(6)):
        n += 1
        me = b"p.m%d" % n
        meths.append(me)
        k = rng.below(10)
        pad = rng.below(60)
        if k == 0:      # answered call
            s += [scn.call(n, pad=pad, meth=me), "replyto/%d" % n, "await/c%d" % n]
            wants.append("call~%d~withreply" % n)
        elif k == 1:    # cancelled call
            s += [scn.call(n, pad=pad, meth=me), scn.cancel(n)]
            wants += ["call~%d~plain" % n, "cancel~%d~cancelof" % n]
        elif k == 2:    # timed-out call
            s += [scn.call(n, pad=pad, meth=me, timeout=8, nowait=True), "await/c%d" % n]
            wants += ["call~%d~plain" % n, "cancel~%d~cancelof" % n]
        elif k == 3:    # notification
            s += [scn.notify(n, pad=pad, meth=me)]
            wants.append("notify~%d~plain" % n)
        elif k == 4:    # compressed call, answered (the peer answers with a compressed result through the engine)
            ct = rng.choice([1, 2, 3, 77])      # unknown types travel as plain values
            rpad = rng.below(80)
            s += ["call/c%d/%s/%s/%d/-/0" % (n, me.hex(), T(scn.arg(n, pad)), ct),
                  "replyto/%d/%s/%d" % (n, T(scn.arg(n, rpad)), ct if ct in (1, 2) else 0), "await/c%d" % n]
            wants.append("callc~%d~withreply" % n)
        elif k == 5:    # served call (now and then with a result too large for the frame limit: whatever is then written back is accounted)
            seq = 200 + n
            s += [scn.feed_call(seq, n, meth=me, pad=pad), "waithandlers/%d" % (hid + 1), scn.finish(hid, n, pad=(2500 if rng.chance(1, 4) else rng.below(40))), "settle"]
            hid += 1
            wants.append("call~%d~served" % n)
        elif k == 9:    # incoming call for a method / protocol nobody registered: answered with an error, and accounted
            seq = 400 + n
            bad = rng.choice([b"p.nothere%d" % n, b"q%d.m" % n])
            if rng.chance(1, 2):
                s += [scn.feed_call(seq, n, meth=bad, pad=pad), "settle"]
                wants.append("call~%d~served" % n)
            else:
                s += ["feedcallc/%d/%d/%s/%s/-" % (seq, rng.choice([1, 2]), bad.hex(), T(scn.arg(n, pad))), "settle"]
                wants.append("callc~%d~served" % n)
        elif k == 8:    # served compressed call (the record must be filed as CallCompressed)
            seq = 300 + n
            ct = rng.choice([1, 2])
            s += ["feedcallc/%d/%d/%s/%s/-" % (seq, ct, me.hex(), T(scn.arg(n, pad))), "waithandlers/%d" % (hid + 1), scn.finish(hid, n, pad=rng.below(40)), "settle"]
            hid += 1
            wants.append("callc~%d~served" % n)
        elif k == 6:    # answered after a delay: reply arrives while the caller is parked in ClientReply? keep simple: either
            s += [scn.call(n, pad=pad, meth=me), "replyto/%d" % n, "await/c%d" % n]
            wants.append("call~%d~withreply" % n)
        else:           # refused: nothing written, still exactly one record (size unspecified)
            s += [scn.call(n, pad=3000, meth=me, nowait=True), "await/c%d" % n]
    if rng.chance(1, 3):
        n += 1
        me = b"p.m%d" % n
        meths.append(me)
        s += [scn.call(n, meth=me), "close", "await/c%d" % n]
        wants.append("call~%d~plain" % n)
    s.append("settle")
    protos = "70:" + "+".join(m[2:].hex() for m in meths)
    return "scn %s max=2000 protocols=%s nt=1 family=mix wants=%s script=%s" % (ident, protos, ",".join(wants), ";".join(s))


def busy_writer(rng, ident):
    """calls cancelled / timing out while the writer is busy inside Write: their cancellation frames are queued behind it and
    written once the peer drains; each must be accounted once with the bytes of its frame"""
    s, wants, meths = [], [], []
    k = 1 + rng.below(4)
    for n in range(1, k + 1):
        me = b"p.m%d" % n
        meths.append(me)
        s.append(scn.call(n, pad=rng.below(40), meth=me, timeout=rng.choice([0, 0, 300])))
        wants += ["call~%d~plain" % n, "cancel~%d~cancelof" % n]
    me = b"p.m%d" % (k + 1)
    meths.append(me)
    s += ["stallw/on", scn.notify(k + 1, pad=rng.below(40), meth=me, nowait=True), "waitinwrite"]
    wants.append("notify~%d~plain" % (k + 1))
    s.append("sleep/320")
    for n in range(1, k + 1):
        s.append(scn.cancel(n))
    s += ["sleep/1", "stallw/off", "await/n%d" % (k + 1), "settle", "sleep/2", "settle"]
    protos = "70:" + "+".join(m[2:].hex() for m in meths)
    return "scn %s max=2000 protocols=%s nt=1 family=cancel-behind-busy-writer wants=%s script=%s" % (ident, protos, ",".join(wants), ";".join(s))


def undecodable_reply(rng, ident):
    """the reply to a call arrives whole but its result does not decode into the caller's result type: the receive loop stops
    with the decoding error, the call fails - and is still accounted once, with its frame plus the reply payload that had been
    received when the record was finished"""
    me = b"p.m1"
    bad = rng.choice([("m", [(("s", b"A"), 7), (("s", b"B"), ("s", b"seven"))]), ("s", b"not-a-struct"), [1, ("s", b"x")]])
    ch = mp.Chooser()
    resp = frames.frame(frames.content([1, 0, None, bad] + ([mp.gen_value(rng, 1)] if rng.chance(1, 3) else []), ch), ch)
    s = ["calltyped/c1/%s/%s" % (me.hex(), T(scn.arg(1, rng.below(40)))), "feednowait/" + resp.hex(), "await/c1", "settle"]
    return "scn %s max=2000 protocols=70:%s nt=1 family=undecodable-reply wants=call~1~withreply script=%s" % (ident, me[2:].hex(), ";".join(s))


def explore(ctx):
    rng, tier = ctx["rng"], ctx["tier"]
    if ctx.get("replay"):
        lines = C.replay_lines(ctx["replay"])
    else:
        lines = C.load_corpus("C20")
        for k in range({"quick": 200, "thorough": 5000, "search": 800}[tier]):
            lines.append(scenario(rng, "s%d" % k))
        for k in range({"quick": 8, "thorough": 100, "search": 20}[tier]):
            lines.append(busy_writer(rng, "w%d" % k))
        for k in range({"quick": 6, "thorough": 60, "search": 12}[tier]):
            lines.append(undecodable_reply(rng, "u%d" % k))
        for k in range({"quick": 300, "thorough": 5000, "search": 800}[tier]):
            ops = []
            for _ in range(rng.below(7)):
                r = rng.below(3)
                ops.append("i%d" % rng.below(1000) if r == 0 else ("f" if r == 1 else "r%d" % rng.below(1000)))
            lines.append("inst i%d ops=%s" % (k, ",".join(ops) or "-"))
            if k % 3 == 0 and any(o[0] in "fr" for o in ops):
                # the same operations against a storage that stores and then reports an error, and with all finishing operations
                # racing each other against a slow storage
                lines.append("inst j%d storage=errs ops=%s" % (k, ",".join(ops)))
                lines.append("inst h%d storage=slow conc=1 ops=%s" % (k, ",".join(ops + ["f", "r%d" % rng.below(100)])))
    triples, tie = C.run_both(ctx, "TestVerifC20", lines, go_timeout=1500)
    return dict(verdicts=triples, tie=tie, stats=dict(cases=len(lines)))
