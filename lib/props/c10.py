"""C10 — no caller or closer blocks forever when the connection dies or is closed."""
import common as C
import scn, frames, mp

RULE = ("a two-way session (our calls answered by the peer, the peer's calls served by handlers, notifications both ways) "
        "whose incoming byte stream is cut at EVERY byte offset (EOF / closed-connection error / other read error), and "
        "whose outgoing direction fails at every write; a local Close, from the harness and from inside a handler, with 1-4 "
        "concurrent closers, issued while goroutines of the library are parked at every public hook (request decoding, reply "
        "decoding, the log callbacks of caller, receiver and handler paths) and while the writer is blocked in Write; after "
        "the fault every outstanding call / notification / reply / Close must return within the bound with io.EOF, the write "
        "error or its context's error, and operations started afterwards must fail with io.EOF. non-trivial = at least one "
        "API call or handler was in flight when the fault hit")
TRUSTED = ["'within bounded time' = the harness' 5 s wait (typical completion is milliseconds); a wait that times out is reported with its name"]
ASSUMPTIONS = ["check-time statement-level fault sites (DESIGN 4.3) are replaced by parks at the public hooks the library offers"]

HOOKS = ["MakeArg", "ServerCall", "ServerReply", "ClientCall", "ClientReply", "ClientCancel", "FrameRead", "StartProfiler", "ServerNotifyCall", "ClientNotify"]


def session_in(rng):
    """peer -> us: frames and how many handlers they start"""
    ch = mp.Chooser()
    fr = []
    nh = 0
    for i in range(2 + rng.below(3)):
        k = rng.below(4)
        if k == 0:
            fr.append(frames.frame(frames.content([0, 10 + i, ("s", scn.M), scn.arg(100 + nh)], ch), ch)); nh += 1
        elif k == 1:
            fr.append(frames.frame(frames.content([2, ("s", scn.M), scn.arg(100 + nh)], ch), ch)); nh += 1
        elif k == 2:
            fr.append(frames.frame(frames.content([1, 0, None, scn.arg(1)], ch), ch))     # answer to our first call
        else:
            fr.append(frames.frame(frames.content([3, 10 + rng.below(4), ("s", scn.M)], ch), ch))
    return b"".join(fr)


def cut_family(rng, ident):
    stream = session_in(rng)
    out = []
    for cut in range(len(stream) + 1):
        end = rng.choice(["eof", "eof", "op", "other", "optimeout", "deadline"])
        s = [scn.call(1), scn.call(2), scn.notify(3),
             "feednowait/%s" % (stream[:cut].hex() or "-"), "settle", "readerr/" + end, "waitdone", "settle",
             "finishall", "await/c1", "await/c2", "settle",
             scn.call(8, nowait=True), "await/c8", scn.notify(9)]
        out.append(scn.line("scn", "%s_%d" % (ident, cut), s,
                            extra="nt=1 family=cut-incoming expect=1:eof+ok,2:eof,3:ok,8:eof,9:eof"))
    return out


def read_fault_family(rng, ident, kind):
    """the connection's Read fails between two frames, with every class of error a net.Conn produces (end of stream,
    closed connection, an expired read deadline, anything else) while calls are outstanding and handlers running: the
    receive loop must close the transport itself and everybody must be released"""
    s = [scn.call(1), scn.call(2), scn.notify(3), "feednowait/" + scn.feed_call(10, 100)[5:], "waithandlers/1"]
    if rng.chance(1, 2):
        s += ["feednowait/" + scn.feed_notify(101)[5:], "waithandlers/2"]
    s += ["settle", "readerr/" + kind, "waitdone", "settle", "finishall", "await/c1", "await/c2", "settle",
          scn.call(8, nowait=True), "await/c8", scn.notify(9)]
    return scn.line("scn", ident, s, extra="nt=1 family=read-fault-%s expect=1:eof,2:eof,3:ok,8:eof,9:eof" % kind)


def idle_family(rng, ident, v):
    """a transport that has never written a frame (a peer that connects and leaves, a server that only ever received
    notifications, a client closed before its first call): Close returns, may be repeated, and later operations fail"""
    s = []
    if v in (1, 3, 4):
        s.append("run")
    if v == 3:
        s += [scn.feed_notify(100), "waithandlers/1", "finishall", "settle"]
    if v == 4:
        s += ["readerr/eof", "waitdone"]
    s += ["close", "closewait", "settle", scn.call(8, nowait=True), "await/c8", scn.notify(9)]
    return scn.line("scn", ident, s, extra="nt=1 family=idle-transport-%d expect=8:eof,9:eof" % v)


def crowded_family(rng, ident, n):
    """n requests are being served at once (handlers that run until released) and one call of ours is outstanding when the
    peer leaves: the receive loop notices, the transport stops, everybody is released"""
    s = [scn.call(1)]
    for i in range(n):
        s.append("feednowait/" + (scn.feed_call(1000 + i, 2000 + i) if rng.chance(2, 3) else scn.feed_notify(2000 + i))[5:])
    s += ["waithandlers/%d" % n, "settle", "readerr/%s" % rng.choice(["eof", "op"]), "waitdone", "settle", "finishall", "await/c1", "settle",
          scn.call(8, nowait=True), "await/c8"]
    return scn.line("scn", ident, s, extra="nt=1 family=crowded-then-peer-leaves expect=1:eof,8:eof")


def write_fail_family(rng, ident, after):
    s = ["writefail/%d" % after, scn.call(1, nowait=True), scn.notify(2, nowait=True), scn.call(3, nowait=True), "settle",
         scn.cancel(1), scn.cancel(3), "await/n2", "close", scn.call(8, nowait=True), "await/c8"]
    return scn.line("scn", ident, s, extra="nt=1 family=write-fails expect=1:werr+ctx,2:werr+ok,3:werr+ctx,8:eof")


def close_family(rng, ident):
    """Close (or a dying connection) while something is parked at a public hook"""
    hook = rng.choice(HOOKS)
    closers = 1 + rng.below(4)
    stop = rng.choice(["close", "close", "eof", "fromhandler"])
    s = ["park/%s/%d" % (hook, 1 + rng.below(2))]
    s += [scn.call(1, nowait=True), scn.notify(2, nowait=True)]
    s += ["feednowait/" + scn.feed_call(10, 100)[5:], "feednowait/" + scn.feed_notify(101)[5:]]
    s += ["settle"]
    if rng.chance(1, 2):
        s += ["replytonowait/1", "settle"]
    if stop == "close":
        s += ["close/nowait"] * closers
    elif stop == "eof":
        s += ["readerr/eof"]
    else:
        s += ["closefromhandler"]
    s += ["sleep/2", "release/" + hook, "waitdone", "settle", "finishall", "await/c1", "await/n2", "closewait", "settle",
          scn.call(8, nowait=True), "await/c8"]
    return scn.line("scn", ident, s, extra="nt=1 family=close-while-parked-at-%s expect=1:eof+ok,2:eof+ok+werr,8:eof" % hook)


def stalled_family(rng, ident):
    s = ["stallw/on", scn.notify(1, nowait=True), "waitinwrite", scn.call(2, nowait=True), scn.notify(3, nowait=True),
         "feednowait/" + scn.feed_call(10, 100)[5:], "waithandlers/1", "finish/0/%s/-/nowait" % mp.vtext(scn.arg(100)), "settle"]
    s += ["close/nowait"] * (1 + rng.below(3))
    s += ["closewait", "await/n1", "await/c2", "await/n3", "settle", scn.notify(9)]
    return scn.line("scn", ident, s, extra="nt=1 family=close-while-write-blocked expect=1:eof+werr+ok,2:eof,3:eof,9:eof")


def explore(ctx):
    rng, tier = ctx["rng"], ctx["tier"]
    if ctx.get("replay"):
        lines = C.replay_lines(ctx["replay"])
    else:
        lines = C.load_corpus("C10")
        n = 0
        for _ in range({"quick": 2, "thorough": 12, "search": 4}[tier]):
            lines += cut_family(rng, "x%d" % n); n += 1
        for _ in range({"quick": 2, "thorough": 20, "search": 4}[tier]):
            for kind in ("eof", "op", "other", "optimeout", "deadline"):
                lines.append(read_fault_family(rng, "r%d" % n, kind)); n += 1
        for v in range(5):
            lines.append(idle_family(rng, "i%d" % n, v)); n += 1
        for nn in {"quick": [140], "thorough": [70, 140, 300, 600], "search": [140, 300]}[tier]:
            lines.append(crowded_family(rng, "m%d" % n, nn)); n += 1
        for after in range(0, {"quick": 30, "thorough": 60, "search": 40}[tier], 1 if tier != "quick" else 2):
            lines.append(write_fail_family(rng, "w%d" % n, after)); n += 1
        for _ in range({"quick": 120, "thorough": 2500, "search": 400}[tier]):
            lines.append(close_family(rng, "p%d" % n)); n += 1
        for _ in range({"quick": 10, "thorough": 100, "search": 25}[tier]):
            lines.append(stalled_family(rng, "s%d" % n)); n += 1
    triples, tie = C.run_both(ctx, "TestVerifScn", lines, go_timeout=1800)
    return dict(verdicts=triples, tie=tie, stats=dict(scenarios=len(lines)))
