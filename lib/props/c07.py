"""C07 — only framing/decoding violations are fatal, and lifecycle observers agree."""
import common as C
import scn, frames, mp

RULE = ("(A) traffic histories: valid calls in both directions interleaved with calls/notifications naming unregistered "
        "protocols or methods, stray responses and stray cancellations; every not-found call must be answered with an error "
        "reply of the same seqno naming what is missing, no handler may run for it, the valid calls complete, the transport "
        "stays up. (B) every fatal class (bad prefix, bad header, bad type, wrong length, truncated body, EOF, read error) "
        "stops the transport. (C) a local Close raced with the receive loop's own exit (both orders, with the loop parked "
        "between its error and its close), Close without the receive loop ever started, double Close; the three accessors "
        "are read at every step and polled by three goroutines. non-trivial = a history with >= 1 anomaly and >= 1 valid "
        "call, or a close race")
TRUSTED = ["lifecycle observations are triples (Done closed?, IsConnected, class of Err) read by the harness"]
ASSUMPTIONS = []


def hist(rng, ident, big=False):
    s = ["observe/start", "watch/on"]
    # big: the not-found / stray frames carry arguments larger than the 4 KiB read buffer (and than 64 KiB)
    bigpad = (lambda: rng.choice([4090, 4097, 5000, 9000, 70000])) if big else (lambda: 0)
    nfs = []
    exp = []
    n = 0
    hcount = 0
    seq_in = 20
    for _ in range(2 + rng.below(6)):
        k = rng.below(7)
        if k == 0:      # our valid call answered by the peer
            n += 1
            s.append(scn.call(n))
            s.append("replyto/%d" % n)
            s.append("await/c%d" % n)
            exp.append("%d:ok" % n)
        elif k == 1:    # incoming valid call served
            seq_in += 1
            s.append(scn.feed_call(seq_in, 300 + hcount))
            s.append("waithandlers/%d" % (hcount + 1))
            s.append(scn.finish(hcount, 300 + hcount))
            hcount += 1
        elif k == 2:    # incoming call, unknown method / protocol
            seq_in += 1
            me = rng.choice([b"p.x", b"q.m", b"nodot", b"p.", b"a.b.c"])
            s.append(scn.feed_call(seq_in, 900, meth=me, pad=bigpad()))
            i = me.rfind(b".")
            prot, m = (b"", me) if i < 0 else (me[:i], me[i + 1:])
            missing = prot if prot != b"p" else m
            nfs.append("%d:%s" % (seq_in, missing.hex()))
            s.append("settle")
        elif k == 3:    # incoming notification, unknown method
            s.append(scn.feed_notify(901, meth=rng.choice([b"p.x", b"zz.y"]), pad=bigpad()))
            s.append("settle")
        elif k == 4:    # stray response
            s.append(scn.feed_resp(5000 + rng.below(100), 902, pad=bigpad()))
            s.append("settle")
        elif k == 5:    # stray cancellation
            s.append(scn.feed_cancel(6000 + rng.below(100)))
            s.append("settle")
        else:
            n += 1
            s.append(scn.notify(n))
            exp.append("%d:ok" % n)
        s.append("observe/step")
    # the transport must still work
    n += 1
    s.append(scn.call(n)); s.append("replyto/%d" % n); s.append("await/c%d" % n); exp.append("%d:ok" % n)
    s.append("settle"); s.append("observe/end")
    extra = "nt=%d family=history expectend=open handlers=%d expect=%s" % (1 if nfs else 0, hcount, ",".join(exp))
    if nfs:
        extra += " expectnf=" + ",".join(nfs)
    return scn.line("scn", ident, s, extra=extra)


def fatal(rng, ident):
    ch = mp.Chooser()
    good = frames.frame(frames.content([2, ("s", scn.M), scn.arg(100)], ch), ch)
    kind = rng.below(15)
    if kind >= 12:
        # a compressed call for a REGISTERED method whose payload does not inflate (gzip: bad magic, truncated, bad checksum;
        # msgpackzip: garbage) or inflates to bytes that are not one msgpack value: a decoding violation like any other
        import gzip as _gz
        z = _gz.compress(mp.enc(scn.arg(101), mp.Chooser()), 6, mtime=0)
        payload, ct = rng.choice([(bytes([0x1f, 0x8c]) + z[2:], 1), (z[: len(z) - 5], 1), (z[:-8] + bytes([z[-8] ^ 0x33]) + z[-7:], 1),
                                  (rng.bytes(9), 1), (rng.bytes(7), 2), (_gz.compress(b"\xc1\xc1", 6, mtime=0), 1)])
        bad = frames.frame(frames.content([4, 79, ct, ("s", scn.M), ("b", payload)], ch), ch)
    elif kind >= 8:
        # a request for a REGISTERED method whose trailing tags field does not decode as a string-keyed map
        badtags = rng.choice([5, ("s", b"tags"), [1, 2], ("m", [(7, 1)]), True])
        if kind in (8, 9):
            bad = frames.frame(frames.content([0, 77, ("s", scn.M), scn.arg(101), badtags], ch), ch)
        elif kind == 10:
            bad = frames.frame(frames.content([2, ("s", scn.M), scn.arg(101), badtags], ch), ch)
        else:
            bad = frames.frame(frames.content([4, 78, 0, ("s", scn.M), scn.arg(101), badtags], ch), ch)
    elif kind == 0:
        bad = b"\xc1\x01\x02"
    elif kind == 1:
        bad = b"\x00"
    elif kind == 2:
        bad = mp.enc(-5) + b"\x93\x01"
    elif kind == 3:
        bad = frames.frame(b"\x80\x01", ch)
    elif kind == 4:
        bad = frames.frame(frames.content([9, 1, ("s", b"p.m"), None], ch), ch)
    elif kind == 5:
        bad = frames.frame(frames.content([0, 1], ch), ch)
    elif kind == 6:
        bad = good[: len(good) - 2]
    else:
        bad = b""
    s = ["observe/start", "watch/on", "feed/" + good.hex(), "waithandlers/1", "observe/mid"]
    if bad:
        s.append("feednowait/" + bad.hex())
    # a violation that is complete in the stream must stop the transport by itself, before the stream ends
    alone = bool(bad) and kind not in (6, 7) and rng.chance(1, 2)
    if alone:
        s.append("waitdone")
    s.append("readerr/%s" % rng.choice(["eof", "op", "other", "optimeout", "deadline"]))
    s += ["waitdone", "observe/stopped", "settle", "observe/stopped2", "finishall", "observe/end"]
    return scn.line("scn", ident, s, extra="nt=1 family=fatal expectend=stopped handlers=1 alone=%d" % (1 if alone else 0))


def close_race(rng, ident):
    v = rng.below(8)
    s = ["observe/start", "watch/on"]
    if v == 0:      # Close without the receive loop ever started
        s += ["close", "observe/a", "settle", "observe/b"]
        fam = "close-without-run"
    elif v == 1:    # plain local close on a running transport
        s += ["run", "observe/a", "close", "observe/b", "close", "observe/c"]
        fam = "local-close"
    elif v == 2:    # the receive loop has its error and is parked before closing; a local Close wins
        s += ["park/TransportError/1", "run", "readerr/%s" % rng.choice(["eof", "other"]), "waitpark/TransportError", "observe/a",
              "close", "observe/b", "release/TransportError", "settle", "observe/c"]
        fam = "local-close-wins"
    elif v == 7:    # the receive loop has met a framing / decoding violation and is parked before closing; a local Close wins: the error
                    # observers read afterwards is the one Close recorded and it stays that way
        bad = rng.choice([b"\xc1\x01\x02", b"\x00", frames.frame(b"\x80\x01", mp.Chooser()), frames.frame(frames.content([9, 1, ("s", b"p.m"), None], mp.Chooser()), mp.Chooser())])
        s += ["park/TransportError/1", "run", "feednowait/" + bad.hex(), "waitpark/TransportError", "observe/a",
              "close", "observe/b", "release/TransportError", "settle", "observe/c", "sleep/2", "observe/d"]
        fam = "local-close-wins-over-violation"
    elif v == 3:    # the loop's own exit first, then a local Close
        s += ["run", "readerr/%s" % rng.choice(["eof", "other", "op", "optimeout", "deadline"]), "waitdone", "observe/a", "close", "observe/b", "settle", "observe/c"]
        fam = "loop-exit-first"
    elif v == 4:    # concurrent closers
        s += ["run", "close/nowait", "close/nowait", "close/nowait", "waitdone", "observe/a", "settle", "observe/b"]
        fam = "concurrent-closers"
    elif v == 5:    # close while the connection's own Close is slow
        s += ["run", "holdclose", "close/nowait", "waitdone", "observe/a", "observe/b", "releaseclose", "settle", "observe/c"]
        fam = "slow-conn-close"
    else:           # local close and read error at the same time
        s += ["run", "close/nowait", "readerr/eof", "waitdone", "observe/a", "settle", "observe/b"]
        fam = "simultaneous"
    return scn.line("scn", ident, s, extra="nt=1 family=%s expectend=stopped" % fam)


def read_fault(rng, ident):
    """every class of read error (end of stream, closed connection, an expired read deadline as a net.Conn reports it, net.Pipe's
    bare deadline error, anything else), arriving between two frames / inside a length prefix / inside a frame body, after
    some traffic was served: the transport must stop, and calls made afterwards must fail"""
    kind = rng.choice(["eof", "op", "other", "optimeout", "deadline"])
    where = rng.choice(["between", "between", "prefix", "body"])
    ch = mp.Chooser()
    good = frames.frame(frames.content([2, ("s", scn.M), scn.arg(100)], ch), ch)
    s = ["observe/start", "watch/on"]
    hs = 0
    if rng.chance(2, 3):
        s += ["feed/" + good.hex(), "waithandlers/1", "finishall"]
        hs = 1
    exp = []
    if rng.chance(1, 2):
        s += [scn.call(1), "replyto/1", "await/c1"]; exp.append("1:ok")
    s.append("observe/mid")
    if where == "prefix":
        s.append("feednowait/ce0000")
    elif where == "body":
        s.append("feednowait/" + good[: 2 + rng.below(len(good) - 3)].hex())
    s += ["readerr/" + kind, "waitdone", "observe/stopped", "settle", "observe/stopped2"]
    s += [scn.call(2, nowait=True), "await/c2", "observe/end"]; exp.append("2:eof+werr+other")
    return scn.line("scn", ident, s, extra="nt=1 family=read-fault-%s-%s expectend=stopped handlers=%d expect=%s" % (kind, where, hs, ",".join(exp)))


def notfound_behind_stalled_writer(rng, ident, pause):
    """a call naming an unregistered method arrives while the writer is stuck inside Write (the peer has stopped reading for a
    while): however long that lasts, once the peer reads again the call is answered with the not-found error, and the
    connection goes on working"""
    bad = rng.choice([b"p.nosuch", b"q.m"])
    s = ["observe/start", "watch/on", "stallw/on", scn.notify(1, nowait=True), "waitinwrite",
         "feednowait/" + scn.feed_call(77, 500, meth=bad)[5:], "sleep/%d" % pause, "stallw/off", "await/n1", "settle",
         scn.call(2), "replyto/2", "await/c2", "settle", "observe/end"]
    name = b"nosuch" if bad.startswith(b"p.") else b"q"
    return scn.line("scn", ident, s, extra="nt=1 family=not-found-behind-stalled-writer expectend=open handlers=0 expect=1:ok,2:ok expectnf=77:%s" % name.hex())


def explore(ctx):
    rng, tier = ctx["rng"], ctx["tier"]
    if ctx.get("replay"):
        lines = C.replay_lines(ctx["replay"])
    else:
        lines = C.load_corpus("C07")
        n = 0
        for _ in range({"quick": 200, "thorough": 5000, "search": 800}[tier]):
            lines.append(hist(rng, "h%d" % n)); n += 1
        for _ in range({"quick": 60, "thorough": 1000, "search": 200}[tier]):
            lines.append(hist(rng, "b%d" % n, big=True)); n += 1
        for _ in range({"quick": 60, "thorough": 800, "search": 200}[tier]):
            lines.append(fatal(rng, "f%d" % n)); n += 1
        for _ in range({"quick": 80, "thorough": 1500, "search": 300}[tier]):
            lines.append(close_race(rng, "r%d" % n)); n += 1
        for _ in range({"quick": 60, "thorough": 600, "search": 120}[tier]):
            lines.append(read_fault(rng, "t%d" % n)); n += 1
        for pause in {"quick": [50, 2600], "thorough": [10, 300, 1200, 2600, 5200], "search": [50, 2600]}[tier]:
            lines.append(notfound_behind_stalled_writer(rng, "s%d" % n, pause)); n += 1
    scn_lines = [l for l in lines if not l.startswith("e2e ")]
    triples, tie = C.run_both(ctx, "TestVerifScn", scn_lines, go_timeout=1500) if scn_lines else ([], [])
    if not ctx.get("replay") or any(l.startswith("e2e ") for l in lines):
        # both ends being the package: plain / compressed / plain calls naming an unregistered protocol or method
        e2e = [l for l in lines if l.startswith("e2e ")]
        if not ctx.get("replay"):
            for k in range({"quick": 24, "thorough": 300, "search": 60}[tier]):
                # (integer map keys msgpackzip cannot round-trip are C06's known finding about the dependency: kept out of here)
                arg = rng.choice(["-", "n", mp.vtext(mp.zip_safe(mp.gen_value(rng, 2))), mp.vtext([1, mp.zip_safe(mp.gen_value(rng, 1))])])
                e2e.append("e2e e%d ctype=%d arg=%s res=- err=- method=%s" % (k, rng.choice([1, 2, 1, 2, 3, 0]), arg, rng.choice(["missing", "noproto"])))
        t2, tie2 = C.run_both(ctx, "TestVerifC06", e2e, go_timeout=900)
        triples += t2
        tie += tie2
        lines = scn_lines + e2e
    return dict(verdicts=triples, tie=tie, stats=dict(scenarios=len(lines)))
