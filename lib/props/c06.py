"""C06 — compression is transparent and compressor state never leaks between uses."""
import common as C
import scn, mp

T = mp.vtext
RULE = ("(scn) for generated values: a compressed call from the peer (gzip, msgpackzip, two unknown types, and type none) "
        "must reach the handler with exactly the argument, and its reply must carry exactly the handler's result, compressed "
        "the same way; our own compressed call must put the same argument on the wire (after inflating) and return exactly "
        "the peer's result. (comp) Compress then Decompress for empty, tiny, incompressible, repetitive and near-limit "
        "payloads; every single-byte corruption with three masks of small gzip payloads (error or the original value, never "
        "another value, never a panic); corruptions and truncations of msgpackzip payloads (no panic). (pool) up to 16 "
        "goroutines sharing the pooled gzip reader/writer state with failing decompressions between good ones. "
        "non-trivial = a compressed type with a non-empty payload, or a corruption, or >= 2 workers")
TRUSTED = ["DEFLATE, CRC-32 and msgpackzip themselves are behind the section hypotheses of the transparency theorems (tested here, not proved)",
           "the harness' peer compresses with compress/gzip / msgpackzip directly, not with the package's pooled compressors"]
ASSUMPTIONS = []


def served(rng, ident):
    ct = rng.choice([0, 1, 1, 2, 2, 3, 77, -1, -2, -129, 128, 65536])
    a = [100, mp.gen_value(rng, 2)]
    if rng.chance(1, 5):
        a = [100, ("b", b"")]
    r = [100, mp.gen_value(rng, 2)]
    tags = mp.gen_tags(rng) if rng.chance(1, 3) else None
    if ct == 0:
        s = [scn.feed_call(50, 100).split("/")[0] + "/" + __import__("frames").frame(__import__("frames").content([0, 50, ("s", scn.M), a] + ([tags] if tags is not None else []), mp.Chooser()), mp.Chooser()).hex()]
    else:
        s = ["feedcallc/50/%d/%s/%s/%s" % (ct, scn.M.hex(), T(a), T(tags) if tags is not None else "-")]
    s += ["waithandlers/1", "finish/0/%s/-" % T(r), "waitwrites/1", "settle"]
    extra = "nt=%d quiescent=1 wef=1 family=served-ctype-%d expectinv=100~%s~%s expectreply=50~100" % (1 if ct in (1, 2) else 0, ct, T(a), T(tags) if tags is not None else "-")
    return scn.line("scn", ident, s, extra=extra)


def called(rng, ident):
    ct = rng.choice([1, 1, 2, 2, 3, 77, -1, -3, 255, 2 ** 31])
    a = [1, mp.gen_value(rng, 2)]
    r = [1, mp.gen_value(rng, 2)]
    s = ["call/c1/%s/%s/%d/-/0" % (scn.M.hex(), T(a), ct), "replyto/1/%s/%d" % (T(r), ct if ct in (1, 2) else 0), "await/c1", "settle"]
    return scn.line("scn", ident, s, extra="nt=%d family=called-ctype-%d expect=1:ok expectres=1~%s" % (1 if ct in (1, 2) else 0, ct, T(r)))


def payload(rng):
    k = rng.below(6)
    if k == 0:
        return b""
    if k == 1:
        return rng.bytes(1 + rng.below(4))
    if k == 2:
        return rng.bytes(200 + rng.below(800))          # incompressible
    if k == 3:
        return bytes([97 + rng.below(2)]) * (100 + rng.below(3000))   # highly repetitive
    if k == 4:
        return (b"abc" * 400)[: 100 + rng.below(1000)]
    return mp.enc(mp.gen_value(rng, 3))


def explore(ctx):
    rng, tier = ctx["rng"], ctx["tier"]
    if ctx.get("replay"):
        lines = C.replay_lines(ctx["replay"])
    else:
        lines = C.load_corpus("C06")
        n = 0
        for _ in range({"quick": 150, "thorough": 3000, "search": 500}[tier]):
            lines.append(served(rng, "s%d" % n)); n += 1
        for _ in range({"quick": 150, "thorough": 3000, "search": 500}[tier]):
            lines.append(called(rng, "c%d" % n)); n += 1
        for _ in range({"quick": 300, "thorough": 5000, "search": 800}[tier]):
            ct = rng.choice([1, 2])
            d = payload(rng) if ct == 1 else mp.enc(mp.gen_value(rng, 3, wide=rng.chance(1, 4)))
            then = ""
            if rng.chance(1, 3):
                then = " then=" + ((payload(rng) if ct == 1 else mp.enc(mp.gen_value(rng, 2))).hex() or "-")
            lines.append("comp p%d ctype=%d data=%s corrupt=-%s" % (n, ct, d.hex() or "-", then)); n += 1
        # payloads that inflate far beyond 64 KiB from very little (zeros, a short period): valid streams all the same
        for size, unit in ((200000, b"\0"), (300000, b"ab"), (1000000 if tier != "quick" else 150000, b"\0\1\2\3")):
            lines.append("comp p%d ctype=1 data=%s corrupt=-" % (n, (unit * (size // len(unit))).hex())); n += 1
        lines.append("e2e e%d ctype=1 arg=%s res=%s err=- method=known" % (n, T(("b", b"\0" * 250000)), T(("s", b"z" * 200000)))); n += 1
        lines.append("e2e e%d ctype=2 arg=%s res=%s err=- method=known" % (n, T(("b", b"\0" * 250000)), T(("s", b"z" * 200000)))); n += 1
        for big in ([50000, 1000000] if tier != "quick" else [50000]):
            lines.append("comp p%d ctype=1 data=%s corrupt=-" % (n, (rng.bytes(64) * (big // 64)).hex())); n += 1
            lines.append("comp p%d ctype=2 data=%s corrupt=-" % (n, mp.enc([("s", rng.bytes(32) * (big // 64))] * 2).hex())); n += 1
        # every single-byte corruption (3 masks) of small gzip payloads
        for _ in range({"quick": 8, "thorough": 150, "search": 25}[tier]):
            d = payload(rng)[:60]
            zlen_bound = len(d) + 40
            for pos in range(zlen_bound):
                for mask in (1, 0x80, 0xff):
                    lines.append("comp p%d ctype=1 data=%s corrupt=%d:%d" % (n, d.hex() or "-", pos, mask)); n += 1
        # LARGE gzip payloads (beyond 64 KiB and beyond any buffer a reader might pre-size): every byte of the 8-byte trailer
        # (CRC-32, length) and some body bytes, one at a time - an error or the original, never another value
        for size, unit in ((70000, b"\0"), (139264, b"abcdefgh"), (66000, None), (200000 if tier != "quick" else 90000, b"\7\0")):
            d = rng.bytes(size) if unit is None else unit * (size // len(unit))
            for pos in range(-8, 0):
                for mask in (1, 0x10, 0x80):
                    lines.append("comp p%d ctype=1 data=%s corrupt=%d:%d" % (n, d.hex(), pos, mask)); n += 1
            for _ in range(6):
                lines.append("comp p%d ctype=1 data=%s corrupt=%d:%d" % (n, d.hex(), 10 + rng.below(200), 1 << rng.below(8))); n += 1
        for _ in range({"quick": 300, "thorough": 5000, "search": 800}[tier]):
            d = mp.enc(mp.gen_value(rng, 3))
            if rng.chance(1, 2):
                lines.append("comp p%d ctype=2 data=%s corrupt=%d:%d,%d:%d" % (n, d.hex(), rng.below(200), 1 + rng.below(255), rng.below(200), 1 + rng.below(255)))
            else:
                lines.append("comp p%d ctype=%d data=%s corrupt=- truncate=%d" % (n, rng.choice([1, 2]), d.hex(), rng.below(40)))
            n += 1
        for _ in range({"quick": 6, "thorough": 60, "search": 12}[tier]):
            lines.append("pool q%d ctype=%d workers=%d rounds=%d seed=%d" % (n, rng.choice([1, 1, 2]), rng.choice([2, 8, 16]), {"quick": 150, "thorough": 1500, "search": 300}[tier], rng.below(10000))); n += 1
        # both ends are the package: the same call uncompressed and compressed, for results, nil results, handler errors,
        # unknown methods and protocols; then the uncompressed call again
        for _ in range({"quick": 250, "thorough": 5000, "search": 600}[tier]):
            ct = rng.choice([1, 1, 2, 2, 3, 77, 0, -1, -2, -128, 4, 256])
            arg = rng.choice(["-", "n", T(("b", b"")), T(mp.gen_value(rng, 2)), T([1, mp.gen_value(rng, 2)])])
            how = rng.below(6)
            if how == 0:
                tail = "res=- err=%s method=known" % rng.bytes(1 + rng.below(12)).hex()
            elif how == 1:
                tail = "res=%s err=%s method=known" % (T(mp.gen_value(rng, 2)), rng.bytes(1 + rng.below(8)).hex())
            elif how == 2:
                tail = "res=- err=- method=%s" % rng.choice(["missing", "noproto"])
            elif how == 3:
                tail = "res=%s err=- method=known" % rng.choice(["-", "n", T(("b", b"")), T(("s", b""))])
            else:
                tail = "res=%s err=- method=known" % T(mp.gen_value(rng, 3))
            lines.append("e2e e%d ctype=%d arg=%s %s" % (n, ct, arg, tail)); n += 1
    triples, tie = C.run_both(ctx, "TestVerifC06", lines, go_timeout=1500)
    return dict(verdicts=triples, tie=tie, stats=dict(cases=len(lines)))
