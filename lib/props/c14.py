"""C14 — one reconnect sequence at a time, announced once, waiters released together."""
import itertools
import common as C
import conngen as G

RULE = ("a Connection driven by a scripted ConnectionTransport and ConnectionHandler: (seq) scripts of commands, forced "
        "reconnects, disconnections, held dials with 1-3 waiters (one possibly cancelled) and Shutdown, one environment "
        "operation at a time - the per-goroutine event sequences must equal those of the extracted transition system run on "
        "the same script; (conc) the same operations racing - the trace must be accepted by the extracted monitors (one dial "
        "in progress; each sequence announced once with the right status, every dial preceded by the announcement or one "
        "error notification, protocols registered before OnConnect, one Finalize after OnConnect, at most one dial after "
        "Shutdown; waiters released only after Finalize / with the fatal connect error); (sweep) Shutdown after every event "
        "of a sequence that fails twice before connecting, with two waiters, with and without a pending connect delay: "
        "everything returns within the harness bound; (ctrans) every sequence of <= N dial-ok / dial-fail / finalize / close "
        "on the built-in plain connection transport over tracked in-memory connections, compared with Model/CTransport.v "
        "(the TLS transport's sequences run under C17's harness). non-trivial = the trace contains a failed attempt, a "
        "disconnection, a Shutdown or a retried command")
TRUSTED = ["events are logged by the scripted transport/handler callbacks, a spying context and the structured connection log; their order across goroutines is the log's"]
ASSUMPTIONS = ["no command is started after Shutdown (the object is invalid then)"]


def explore(ctx):
    rng, tier = ctx["rng"], ctx["tier"]
    if ctx.get("replay"):
        lines = C.replay_lines(ctx["replay"])
    else:
        lines = C.load_corpus("C14")
        n = {"quick": 400, "thorough": 6000, "search": 1200}[tier]
        for k in range(n):
            lines.append(G.seq_script(rng, "s%d" % k))
        for k in range(n):
            lines.append(G.conc_script(rng, "c%d" % k))
        for k in range({"quick": 12, "thorough": 60, "search": 20}[tier]):
            lines.append(G.seq_script(rng, "sd%d" % k, delays=60))
        for pos in range(1, 24):
            lines.append(G.shutdown_sweep("w%d" % pos, pos))
        for pos in range(1, 8 if tier == "quick" else 24):
            lines.append(G.shutdown_sweep("wd%d" % pos, pos, delays=150))
        for what in ("disconnect", "force", "cancel"):
            for pos in range(1, 40, 1 if tier != "quick" else 2):
                lines.append(G.env_sweep("e%s%d" % (what[0], pos), pos, what))
        for k in range({"quick": 20, "thorough": 300, "search": 50}[tier]):
            lines.append(G.shutdown_then_command(rng, "z%d" % k))
        for k in range({"quick": 6, "thorough": 60, "search": 12}[tier]):
            lines.append(G.shutdown_during_backoff(rng, "b%d" % k))
        for k in range({"quick": 12, "thorough": 120, "search": 24}[tier]):
            lines.append(G.shutdown_from_callback(rng, "y%d" % k))
        for k in range({"quick": 8, "thorough": 80, "search": 16}[tier]):
            lines.append(G.timeouts_with_slow_dial(rng, "t%d" % k))
        ops = ["dialok", "dialfail", "finalize", "close"]
        depth = {"quick": 5, "thorough": 7, "search": 6}[tier]
        k = 0
        for d in range(1, depth + 1):
            for seq in itertools.product(ops, repeat=d):
                lines.append("ctrans x%d kind=plain ops=%s" % (k, ",".join(seq))); k += 1
        for k in range({"quick": 60, "thorough": 1500, "search": 200}[tier]):
            lines.append(G.held_onconnect(rng, "h%d" % k))
    triples, tie = C.run_both(ctx, "TestVerifC14", lines, go_timeout=1500)
    return dict(verdicts=triples, tie=tie, stats=dict(cases=len(lines)))
