"""Shared machinery of the /verif checks: PRNG, scratch space, build steps, Go/OCaml runs, verdicts, evidence."""
import atexit, fcntl, hashlib, json, os, re, shutil, subprocess, sys, time

VERIF = os.path.dirname(os.path.dirname(os.path.abspath(__file__)))
REPO = os.environ.get("VERIF_REPO", "/repo")
COQ = os.path.join(VERIF, "coq")
BIN = os.path.join(VERIF, "bin")

GOENV = dict(os.environ, GOFLAGS="-mod=mod", GOPROXY="off", GOSUMDB="off", GOTOOLCHAIN="local")

FORBIDDEN = re.compile(r"\b(Admitted|admit|Axiom|Parameter|Conjecture|Unset Guard|bypass_check|type-in-type|"
                       r"impredicative-set|Admit Obligations|Unset Positivity|Unset Universe)\b")


class SplitMix64:
    def __init__(self, seed):
        self.s = seed & 0xFFFFFFFFFFFFFFFF

    def next(self):
        self.s = (self.s + 0x9E3779B97F4A7C15) & 0xFFFFFFFFFFFFFFFF
        z = self.s
        z = ((z ^ (z >> 30)) * 0xBF58476D1CE4E5B9) & 0xFFFFFFFFFFFFFFFF
        z = ((z ^ (z >> 27)) * 0x94D049BB133111EB) & 0xFFFFFFFFFFFFFFFF
        return z ^ (z >> 31)

    def below(self, n):
        return self.next() % n if n > 0 else 0

    def choice(self, l):
        return l[self.below(len(l))]

    def chance(self, num, den):
        return self.below(den) < num

    def shuffle(self, l):
        l = list(l)
        for i in range(len(l) - 1, 0, -1):
            j = self.below(i + 1)
            l[i], l[j] = l[j], l[i]
        return l

    def bytes(self, n):
        return bytes(self.below(256) for _ in range(n))


_scratch = None


def scratch():
    """private scratch directory outside /repo, /verif and /tmp; removed on exit"""
    global _scratch
    if _scratch is None:
        base = os.environ.get("VERIF_SCRATCH", "/var/tmp")
        _scratch = os.path.join(base, "fmpverif.%d" % os.getpid())
        os.makedirs(_scratch, exist_ok=True)
        if not os.environ.get("VERIF_KEEP"):
            atexit.register(lambda: shutil.rmtree(_scratch, ignore_errors=True))
    return _scratch


class Lock:
    """serialise the build steps between concurrently running checks"""

    def __init__(self, name="build"):
        self.path = os.path.join(VERIF, ".lock-" + name)

    def __enter__(self):
        self.f = open(self.path, "w")
        fcntl.flock(self.f, fcntl.LOCK_EX)
        return self

    def __exit__(self, *a):
        fcntl.flock(self.f, fcntl.LOCK_UN)
        self.f.close()


def run(cmd, cwd=None, env=None, timeout=None, stdin=None):
    t0 = time.time()
    try:
        p = subprocess.run(cmd, cwd=cwd, env=env, timeout=timeout, stdin=stdin,
                           stdout=subprocess.PIPE, stderr=subprocess.STDOUT, text=True, errors="replace")
        return p.returncode, p.stdout, time.time() - t0
    except subprocess.TimeoutExpired as e:
        out = e.stdout if isinstance(e.stdout, str) else (e.stdout or b"").decode("utf8", "replace")
        return 124, out + "\n[timeout after %ss]" % timeout, time.time() - t0


# ------------------------------------------------------------------ build steps

def ensure_gen():
    """(re)build the translator if needed and regenerate Generated.v from /repo's current tree"""
    gen = os.path.join(BIN, "gen")
    src = os.path.join(VERIF, "go", "gen", "main.go")
    if not os.path.exists(gen) or os.path.getmtime(gen) < os.path.getmtime(src):
        os.makedirs(BIN, exist_ok=True)
        rc, out, _ = run(["go", "build", "-o", gen, "./gen"], cwd=os.path.join(VERIF, "go"), env=GOENV, timeout=300)
        if rc != 0:
            return False, "go build of the translator failed:\n" + out
    rc, out, _ = run([gen, "-repo", REPO, "-o", os.path.join(COQ, "Model", "Generated.v")], timeout=120)
    if rc != 0:
        return False, "translator failed on the current tree:\n" + out
    return True, ""


def coq_makefile():
    mk = os.path.join(COQ, "Makefile")
    cp = os.path.join(COQ, "_CoqProject")
    if not os.path.exists(mk) or os.path.getmtime(mk) < os.path.getmtime(cp):
        run(["coq_makefile", "-f", "_CoqProject", "-o", "Makefile"], cwd=COQ, timeout=60)


def prove(prop, timeout=1500):
    """make the cone of Properties/<prop>.vo, then re-check the property file itself with its output captured.
    returns dict(ok, log, assumptions, obligations, discharged, failed_at)"""
    coq_makefile()
    res = dict(ok=False, log="", assumptions=[], obligations=0, discharged=0, failed_at=None, checker_cmd="")
    pv = os.path.join(COQ, "Properties", prop + ".v")
    src = open(pv).read()
    theorems = re.findall(r"^\s*Theorem\s+(\w+)", src, re.M)
    res["obligations"] = len(theorems)
    res["theorems"] = theorems
    cmd = ["make", "-C", COQ, "-j16", "Properties/%s.vo" % prop]
    res["checker_cmd"] = "make -C coq -j16 Properties/%s.vo && coqc -Q coq FMP coq/Properties/%s.v (Print Assumptions parsed)" % (prop, prop)
    rc, out, _ = run(["timeout", str(timeout)] + cmd, timeout=timeout + 30)
    res["log"] = out
    if rc != 0:
        m = re.search(r'File "([^"]+)", line (\d+)', out)
        res["failed_at"] = "%s:%s" % (m.group(1), m.group(2)) if m else "make"
        # which theorems are affected: all of them are not re-established
        return res
    # recompile the property file alone to capture Print Assumptions
    vo = os.path.join(scratch(), prop + ".vo")
    rc, out, _ = run(["timeout", "600", "coqc", "-Q", COQ, "FMP", pv, "-o", vo], timeout=630)
    res["log"] += out
    if rc != 0:
        m = re.search(r'File "([^"]+)", line (\d+)', out)
        res["failed_at"] = "%s:%s" % (m.group(1), m.group(2)) if m else "coqc"
        return res
    # parse assumptions: blocks are either "Closed under the global context" or "Axioms:\n name : type ..."
    blocks = re.split(r"(?=Closed under the global context|Axioms:)", out)
    ass = []
    nblocks = 0
    for b in blocks:
        if b.startswith("Closed under"):
            nblocks += 1
        elif b.startswith("Axioms:"):
            nblocks += 1
            for line in b.splitlines()[1:]:
                m = re.match(r"^(\S+)\s*:", line)
                if m:
                    ass.append(m.group(1))
    res["assumptions"] = sorted(set(ass))
    res["assumption_blocks"] = nblocks
    res["discharged"] = len(theorems)
    res["ok"] = True
    return res


def forbidden_scan():
    hits = []
    for root, _, files in os.walk(COQ):
        for f in files:
            if f.endswith(".v"):
                p = os.path.join(root, f)
                for i, line in enumerate(open(p, errors="replace"), 1):
                    code = re.sub(r"\(\*.*?\*\)", "", line)
                    if FORBIDDEN.search(code):
                        hits.append("%s:%d: %s" % (os.path.relpath(p, VERIF), i, line.strip()))
    return hits


def _hash_files(paths):
    h = hashlib.sha256()
    for p in sorted(paths):
        h.update(p.encode())
        h.update(open(p, "rb").read())
    return h.hexdigest()


def ensure_driver():
    """re-extract and rebuild the OCaml driver when a model, Generated.v or the glue changed"""
    srcs = []
    for d in ("Base", "Model", "Extract"):
        dd = os.path.join(COQ, d)
        srcs += [os.path.join(dd, f) for f in os.listdir(dd) if f.endswith(".v")]
    od = os.path.join(VERIF, "ocaml")
    srcs += [os.path.join(od, f) for f in os.listdir(od) if f.endswith(".ml") or f.endswith(".sh")]
    stamp = os.path.join(BIN, "driver.stamp")
    h = _hash_files(srcs)
    drv = os.path.join(BIN, "driver")
    if os.path.exists(drv) and os.path.exists(stamp) and open(stamp).read() == h:
        return True, ""
    coq_makefile()
    rc, out, _ = run(["timeout", "1500", "make", "-C", COQ, "-j16", "models"], timeout=1530)
    if rc != 0:
        return False, "models do not compile:\n" + out[-4000:]
    rc, out, _ = run(["sh", os.path.join(od, "build.sh")], timeout=900)
    if rc != 0:
        return False, "extraction / OCaml build failed:\n" + out[-4000:]
    open(stamp, "w").write(h)
    return True, ""


# ------------------------------------------------------------------ running the two sides

def harness_overlay(extra=None):
    """overlay.json laying the harness files (and optional replacements) over /repo/rpc"""
    hd = os.path.join(VERIF, "go", "harness")
    rep = {}
    for f in sorted(os.listdir(hd)):
        if f.endswith(".go"):
            rep[os.path.join(REPO, "rpc", "zz_verif_" + f[:-3] + "_test.go")] = os.path.join(hd, f)
    if extra:
        rep.update(extra)
    p = os.path.join(scratch(), "overlay.%d.json" % len(os.listdir(scratch())))
    json.dump({"Replace": rep}, open(p, "w"))
    return p


def go_run(test, cases_path, obs_path, timeout=600, race=False, env_extra=None, overlay_extra=None, count=1):
    env = dict(GOENV, VERIF_CASES=cases_path, VERIF_OBS=obs_path)
    env.setdefault("GOMEMLIMIT", "6GiB")
    if env_extra:
        env.update(env_extra)
    ov = harness_overlay(overlay_extra)
    cmd = ["go", "test", "-tags", "verif", "-overlay", ov, "-vet=off", "-count=%d" % count,
           "-timeout", "%ds" % timeout, "-run", "^%s$" % test]
    if race:
        cmd.append("-race")
    if os.environ.get("VERIF_COVER"):
        # development aid: which library code do the generated cases reach?  (tools/coverage.sh)
        cd = os.environ["VERIF_COVER"]
        os.makedirs(cd, exist_ok=True)
        cmd += ["-coverprofile", os.path.join(cd, "cover.%d.%d.out" % (os.getpid(), len(os.listdir(cd)))), "-coverpkg", "./rpc/"]
    cmd.append("./rpc/")
    rc, out, dt = run(cmd, cwd=REPO, env=env, timeout=timeout + 60)
    return rc, out, dt


def model_run(prop, cases_path, obs_path, timeout=900):
    # (the driver recurses over the bytes of large frames: give it all the stack the system allows)
    rc, out, dt = run(["sh", "-c", 'ulimit -s unlimited 2>/dev/null || ulimit -s 4000000 2>/dev/null; exec "$0" "$@"',
                       os.path.join(BIN, "driver"), prop, cases_path, obs_path], timeout=timeout)
    return rc, out.splitlines(), dt


# ------------------------------------------------------------------ known findings

def load_known():
    p = os.path.join(VERIF, "known_findings.json")
    if not os.path.exists(p):
        return dict(findings=[], fixed=[])
    return json.load(open(p))


def known_match(prop, sig):
    for f in load_known().get("findings", []):
        if f["property"] == prop and f["signature"] == sig:
            return f
    return None


# ------------------------------------------------------------------ evidence

def write_evidence(prop, tier, seed, coverage, assumptions, wall, violations):
    os.makedirs(os.path.join(VERIF, "evidence"), exist_ok=True)
    ev = dict(property_id=prop, tier=tier, seed=seed, level="proof", coverage=coverage,
              assumptions=assumptions, wall_s=round(wall, 2), violations=violations)
    p = os.path.join(VERIF, "evidence", prop + ".json")
    tmp = p + ".tmp"
    json.dump(ev, open(tmp, "w"), indent=1)
    os.replace(tmp, p)


# ------------------------------------------------------------------ one differential round

def run_both(ctx, test, lines, tag="", go_timeout=600, race=False, env_extra=None, overlay_extra=None):
    """run implementation and model on the same case lines; returns (verdict triples, tie-broken reasons)"""
    sc = ctx["scratch"]
    n = len([f for f in os.listdir(sc) if f.startswith("cases")])
    cp = os.path.join(sc, "cases%d%s.txt" % (n, tag))
    op = os.path.join(sc, "obs%d%s.txt" % (n, tag))
    with open(cp, "w") as f:
        f.write("\n".join(lines) + "\n")
    open(op, "w").close()
    tie = []
    rc, out, dt = go_run(test, cp, op, timeout=go_timeout, race=race, env_extra=env_extra, overlay_extra=overlay_extra)
    ctx.setdefault("go_wall_s", []).append(round(dt, 1))
    if rc != 0:
        tail = "\n".join(out.strip().splitlines()[-25:])
        if "[build failed]" in out or "[setup failed]" in out:
            tie.append("harness does not build against the current tree:\n" + tail)
        else:
            tie.append("harness run ended abnormally (rc=%d):\n%s" % (rc, tail))
    obs_by_id = {}
    for l in open(op, errors="replace"):
        t = l.rstrip("\n").split(" ")
        if len(t) >= 2:
            obs_by_id[t[1]] = l.rstrip("\n")
    rc2, vlines, _ = model_run(ctx["prop"], cp, op)
    case_by_id = {}
    for l in lines:
        t = l.split(" ")
        if len(t) >= 2 and not l.startswith("#"):
            case_by_id[t[1]] = l
    triples = []
    for v in vlines:
        t = v.split(" ")
        if t[0] in ("AGREE", "MISMATCH", "PROPFAIL") and len(t) >= 2:
            triples.append((case_by_id.get(t[1], ""), v, obs_by_id.get(t[1], "")))
    if rc2 != 0:
        tie.append("model driver failed: " + "\n".join(vlines[-5:]))
    return triples, tie


def load_corpus(prop):
    d = os.path.join(VERIF, "corpus", prop)
    lines = []
    if os.path.isdir(d):
        for f in sorted(os.listdir(d)):
            for l in open(os.path.join(d, f)):
                l = l.rstrip("\n")
                if l and not l.startswith("#"):
                    lines.append(l)
    return lines


def replay_lines(path):
    body = json.load(open(path))
    lines = []
    if body.get("case"):
        lines.append(body["case"])
    for m in body.get("mismatches", []):
        if m.get("case"):
            lines.append(m["case"])
    return lines
