"""Frame builders for the decode-side generators (C02 decode, C04, C05)."""
import mp

TYPED = [b"ty.raw", b"ty.st", b"ty.sl", b"ty.str", b"ty.i", b"ty.mp", b"ty.bs"]
# protocol "p" with methods m, n ; protocol "" with method z ; protocol "ty" whose handlers take typed arguments (a raw
# value, a struct, a list of ints, a string, an int, a string-keyed map, a byte string)
PROTOCOLS = "70:6d+6e;:7a;7479:" + "+".join(t[3:].hex() for t in TYPED)
PENDING = "7:0:1:1,8:0:1:0,9:0:0:1"   # seq 7 generic unwrapper, seq 8 string errors, seq 9 no result wanted
ENV = "protocols=%s pending=%s" % (PROTOCOLS, PENDING)
KNOWN = [b"p.m", b"p.n", b"z"] * 4 + TYPED
HOSTILE_CT = [-1, -1, -2, -3, -32, -33, -128, -129, -32768, -32769, -2 ** 31, -2 ** 31 - 1, -2 ** 63, 3, 4, 127, 128, 255, 256,
              65535, 65536, 2 ** 31 - 1, 2 ** 31, 2 ** 32 - 1, 2 ** 32, 2 ** 63 - 1]
UNKNOWN = [b"p.x", b"q.m", b"nodot", b"", b"p.", b".m", b"a.b.c"]


def content(elems, ch, n=None):
    """fixarray header claiming n elements (default: the real count) followed by the encoded elements"""
    if n is None:
        n = len(elems)
    return bytes([0x90 + n]) + b"".join(e if isinstance(e, bytes) else mp.enc(e, ch) for e in elems)


def frame(c, ch):
    return mp.enc(len(c), ch) + c


def gen_msg(rng, ch, depth=2, with_expect=False):
    """a valid message: (content bytes, description) or, with_expect, (content, description, expected outcome text)"""
    T = mp.vtext
    known = [m for m in KNOWN if not m.startswith(b"ty.")] if with_expect else KNOWN     # exact expectations: untyped handlers only
    kind = rng.below(6)
    extra = [mp.gen_value(rng, 1) for _ in range(rng.choice([0, 0, 0, 1, 2, 5]))]
    tags = mp.gen_tags(rng) if rng.chance(1, 3) else None
    tt = T(tags) if tags is not None else "-"
    if kind == 0:
        seq = mp.gen_int(rng) if rng.chance(1, 4) else rng.below(1000)
        if seq >= 2 ** 63:
            seq -= 2 ** 63
        me, a = rng.choice(known), mp.gen_value(rng, depth)
        el = [0, seq, ("s", me), a]
        if tags is not None:
            el.append(tags)
            el += extra
        r = (content(el[:15], ch), "call", "call(%s,%s,%s,%s)" % (T(seq), T(("s", me)), T(a), tt))
    elif kind == 1:
        seq, ct, me, a = rng.below(1000), rng.choice([0, 0, 3, 77, 1, 1] + ([] if with_expect else [2])), rng.choice(known), mp.gen_value(rng, depth)
        if rng.chance(1, 5):
            # compression types no sender of this library produces: negative, just outside the known range, wide (both ends
            # must treat every one of them as "none"; the field comes straight off the wire)
            ct = rng.choice(HOSTILE_CT)
        exp = None
        wire = a
        if ct == 1:
            # a real gzip payload: intact, or broken in a way the gzip format itself detects (header, checksum, truncation),
            # or not a byte string at all
            import gzip as _gz
            z = _gz.compress(mp.enc(a, mp.Chooser()), 6, mtime=0)
            how = rng.below(8)
            if how == 0:
                z = z[: max(1, len(z) - 1 - rng.below(8))]; exp = "err:decode"
            elif how == 1:
                z = z[:-8] + bytes([z[-8] ^ 0x5a]) + z[-7:]; exp = "err:decode"
            elif how == 2:
                z = bytes([0x1f, 0x8c]) + z[2:]; exp = "err:decode"
            elif how == 3:
                z = rng.bytes(1 + rng.below(12)); exp = "err:decode"
            if how == 4:
                wire = rng.choice([7, ("s", b"not-bytes"), [1, 2]]); exp = "err:decode"
            else:
                wire = ("b", z)
        elif ct == 2:
            wire = ("b", rng.bytes(1 + rng.below(12)))      # msgpackzip refuses it (whether it does is the harness' oracle)
            exp = "unspec"
        el = [4, seq, ct, ("s", me), wire]
        if tags is not None:
            el.append(tags)
            el += extra
        r = (content(el[:15], ch), "callc", exp or "callc(%s,%s,%s,%s,%s)" % (T(seq), T(ct), T(("s", me)), T(a), tt))
    elif kind == 2:
        seq = rng.choice([7, 7, 8, 9, 12345])
        res = mp.gen_value(rng, depth)
        if seq == 8:
            err = ("s", rng.choice([b"", b"boom", b"x" * 40]))
        else:
            err = mp.gen_value(rng, 1)
        el = [1, seq, err, res] + extra
        if seq == 12345:
            exp = "respnf(i:12345)"
        elif seq == 9:
            exp = "resp(i:9,%s,n)" % T(err)
        else:
            exp = "resp(%s,%s,%s)" % (T(seq), T(err), T(res))
        r = (content(el[:15], ch), "resp", exp)
    elif kind == 3:
        me, a = rng.choice(known), mp.gen_value(rng, depth)
        el = [2, ("s", me), a]
        if tags is not None:
            el.append(tags)
            el += extra
        r = (content(el[:15], ch), "notify", "notify(%s,%s,%s)" % (T(("s", me)), T(a), tt))
    elif kind == 4:
        seq, me = rng.below(1000), rng.choice(known + UNKNOWN)
        el = [3, seq, ("s", me)] + extra
        r = (content(el[:15], ch), "cancel", "cancel(%s,%s)" % (T(seq), T(("s", me))))
    else:
        me = rng.choice(UNKNOWN)
        k = nf_kind(me)
        if rng.chance(1, 2):
            seq = rng.below(100)
            el = [0, seq, ("s", me), mp.gen_value(rng, 1)]
            exp = "callnf(%s,%s,%s,f)" % (T(seq), T(("s", me)), k)
        else:
            el = [2, ("s", me), mp.gen_value(rng, 1)]
            exp = "notifynf(%s,%s)" % (T(("s", me)), k)
        r = (content(el + extra[:3], ch), "notfound", exp)
    return r if with_expect else r[:2]


def nf_kind(me):
    """which not-found error the PROTOCOLS table gives for a method name"""
    i = me.rfind(b".")
    p, m = (b"", me) if i < 0 else (me[:i], me[i + 1:])
    table = {b"p": [b"m", b"n"], b"": [b"z"], b"ty": [t[3:] for t in TYPED]}
    if p not in table:
        return "protocol"
    return "method" if m not in table[p] else "found"


def gen_bad_content(rng, ch):
    """valid length, invalid content"""
    k = rng.below(7)
    if k == 0:   # header claims more elements than present
        return content([3, 5, ("s", b"p.m")], ch, n=rng.choice([4, 9, 15])), "short-cancel-ok"
    if k == 1:   # call with too few elements for its type
        return content([0, 5], ch), "wrong-length"
    if k == 2:   # bad header byte
        return bytes([rng.choice([0x90, 0x80, 0xa1, 0xc0, 0xdc, 0x00, 0xff])]) + rng.bytes(rng.below(6)), "bad-header"
    if k == 3:   # bad type
        return content([rng.choice([5, 6, -1, 100, ("s", b"x")]), 1, ("s", b"p.m"), None], ch), "bad-type"
    if k == 4:   # extra bytes after the elements (longer than the header implies)
        c, _ = gen_msg(rng, ch, 1)
        return c + rng.bytes(1 + rng.below(8)), "long-content"
    if k == 5:   # header claims fewer elements than are present
        return content([3, 5, ("s", b"p.m"), 1, 2, 3], ch, n=3), "more-than-claimed"
    # truncated inside a field: content cut but length still covers it
    c, _ = gen_msg(rng, ch, 1)
    cut = 1 + rng.below(max(1, len(c) - 1))
    return c[:cut], "cut-content"
