"""Scenario scripts for the transport engine (go/harness/engine.go)."""
import mp, frames

T = mp.vtext
PROTO = "70:6d+6e"          # protocol p, methods m n (handlers block until the script finishes them)
M = b"p.m"


def arg(nonce, pad=0, shape="b"):
    """argument / result convention: a[i:<nonce>, <padding>]; the padding is a byte string, a string or an array"""
    if shape == "s":
        return [nonce, ("s", bytes(97 + ((nonce + i) % 26) for i in range(pad)))]
    if shape == "a":
        return [nonce, [(nonce + i) & 0x7f for i in range(pad)]]
    return [nonce, ("b", bytes((nonce * 31 + i) & 0xff for i in range(pad)))]


def call(c, pad=0, ctype=0, tags="-", timeout=0, nowait=False, meth=M, shape="b"):
    s = "call/c%d/%s/%s/%d/%s/%d" % (c, meth.hex(), T(arg(c, pad, shape)), ctype, tags, timeout)
    return s + ("/nowait" if nowait else "")


def notify(c, pad=0, tags="-", timeout=0, nowait=False, meth=M, shape="b"):
    s = "notify/n%d/%s/%s/%s/%d" % (c, meth.hex(), T(arg(c, pad, shape)), tags, timeout)
    return s + ("/nowait" if nowait else "")


def cancel(c, kind="c", nowait=False):
    return "cancel/%s%d" % (kind, c) + ("/nowait" if nowait else "")


def feed_call(seq, nonce, meth=M, pad=0, ch=None, tags=None):
    ch = ch or mp.Chooser()
    c = frames.content([0, seq, ("s", meth), arg(nonce, pad)] + ([tags] if tags is not None else []), ch)
    return "feed/" + frames.frame(c, ch).hex()


def feed_notify(nonce, meth=M, pad=0, tags=None):
    ch = mp.Chooser()
    c = frames.content([2, ("s", meth), arg(nonce, pad)] + ([tags] if tags is not None else []), ch)
    return "feed/" + frames.frame(c, ch).hex()


def feed_resp(seq, nonce, err=None, pad=0):
    ch = mp.Chooser()
    c = frames.content([1, seq, err, arg(nonce, pad)], ch)
    return "feed/" + frames.frame(c, ch).hex()


def feed_cancel(seq, meth=M):
    ch = mp.Chooser()
    c = frames.content([3, seq, ("s", meth)], ch)
    return "feed/" + frames.frame(c, ch).hex()


def finish(h, nonce, pad=0, err="-", nowait=False, shape="b"):
    return "finish/%d/%s/%s" % (h, T(arg(nonce, pad, shape)), err) + ("/nowait" if nowait else "")


def line(kind, ident, script, max_=1048576, extra=""):
    return "%s %s max=%d protocols=%s %s script=%s" % (kind, ident, max_, PROTO, extra, ";".join(script))


def call_content_len(nonce, pad, meth=M, seq=0, shape="b"):
    """content length of the call frame for a given padding (canonical encoding)"""
    return len(frames.content([0, seq, ("s", meth), arg(nonce, pad, shape)], mp.Chooser()))


def pad_for_len(nonce, target, kind="call", seq=0, shape="b"):
    """padding that makes the frame content exactly `target` bytes long (None if impossible)"""
    for pad in range(max(0, target - 40), target + 1):
        if kind == "call":
            n = call_content_len(nonce, pad, seq=seq, shape=shape)
        else:
            n = len(frames.content([2, ("s", M), arg(nonce, pad, shape)], mp.Chooser()))
        if n == target:
            return pad
    return None
