"""Script generators shared by C14, C15 and C16 (the Connection engine of go/harness/conn.go)."""

# "dns", "opdns", "timeout", "refused": the error classes a real dialer returns; to the Connection each is one failed attempt
DIALS = ["ok"] * 14 + ["fail"] * 2 + ["dns", "opdns", "timeout", "refused"] + ["fatal"] * 2
CONNS = ["ok"] * 8 + ["fail", "fatal"]
OUTS = ["ok"] * 4 + ["eof", "eofdisc", "eofdisc", "retriable", "retriable", "other"]


SAFE_OUTS = ["ok", "ok", "other", "retriable"]


def outs(rng, maxlen=3, safe=False):
    n = rng.below(maxlen + 1)
    o = [rng.choice(SAFE_OUTS if safe else OUTS) for _ in range(n)]
    return ",".join(o) if o else "ok"


def header(rng, ident, mode, delays, lazy=None, nd=6):
    lazy = rng.below(2) if lazy is None else lazy
    kv = ["conn", ident, "mode=%s" % mode, "lazy=%d" % lazy]
    if rng.chance(1, 4):
        kv.append("forcebackoff=1")
    if delays:
        r = rng.below(3)
        if r in (0, 2):
            kv.append("firstdelay=%d" % delays)
        if r in (1, 2):
            kv.append("window=%d" % rng.choice([0, delays, delays]))
    if rng.chance(1, 5):
        kv.append("backoff=%d" % rng.choice([5, 20]))
    if rng.chance(1, 5):
        kv.append("cmdbackoff=%d" % rng.choice([5, 20]))
    kv.append("dials=%s" % (",".join(rng.choice(DIALS) for _ in range(rng.below(nd))) or "-"))
    kv.append("conns=%s" % (",".join(rng.choice(CONNS) for _ in range(rng.below(nd))) or "-"))
    return kv


def seq_script(rng, ident, delays=0):
    """one environment operation at a time, each followed by quiescence: deterministic, compared with the model"""
    kv = header(rng, ident, "seq", delays)
    st = "longsettle/%d" % (delays + 90) if delays else "settle"
    if not delays and any(x.startswith("backoff=") or x.startswith("cmdbackoff=") for x in kv):
        st = "longsettle/45"
    s = [st]
    nid = 0
    for _ in range(1 + rng.below(6)):
        r = rng.below(12)
        nid += 1
        if r <= 4:
            fn = 1 if (delays and rng.chance(1, 2)) else 0
            s += ["cmd/%d/%s/%d/nowait" % (nid, outs(rng), fn), st]
        elif r == 5:
            s += ["force/%d/nowait" % nid, st]
        elif r == 6:
            s += ["disconnect", "settle"]
        elif r == 7 and delays:
            # a command starts a delayed sequence; the delay is fast-forwarded
            s += ["cmd/%d/%s/0/nowait" % (nid, outs(rng, 1)), "settle", "fastforward", st]
        elif r == 8:
            # waiters pile up behind a held dial; one may be cancelled; then the dial is released
            w = []
            s += ["holddial"]
            for _ in range(1 + rng.below(3)):
                nid += 1
                w.append(nid)
                # only the first waiter may lose the connection again: otherwise who re-dials is a race
                s += [("force/%d/nowait" % nid) if rng.chance(1, 4) else "cmd/%d/%s/0/nowait" % (nid, outs(rng, 2, safe=len(w) > 1)), "settle"]
            if rng.chance(1, 2):
                s += ["cancelcmd/%d" % rng.choice(w), "settle"]
            s += ["releasedial", st]
        elif r == 9:
            s += ["disconnect", "settle", "cmd/%d/%s/0/nowait" % (nid, outs(rng, 2)), st]
        else:
            s += ["cmd/%d/ok/0/nowait" % nid, st]
    if rng.chance(1, 3):
        s += ["shutdown", st]
    s += ["awaitall", "settle"]
    return " ".join(kv) + " script=" + ";".join(s)


def conc_script(rng, ident, delays=0):
    """commands, forced reconnects, disconnections and Shutdown racing; judged by the monitors only"""
    kv = header(rng, ident, "conc", delays, nd=10)
    s = []
    nid = 0
    for _ in range(2 + rng.below(10)):
        r = rng.below(14)
        nid += 1
        if r <= 5:
            s.append("cmd/%d/%s/%d/nowait" % (nid, outs(rng), 1 if (delays and rng.chance(1, 3)) else 0))
        elif r == 6:
            s.append("force/%d/nowait" % nid)
        elif r == 7:
            s.append("disconnect")
        elif r == 8:
            s.append("settle")
        elif r == 9:
            s.append("sleep/%d" % rng.below(3))
        elif r == 10 and nid > 1:
            s.append("cancelcmd/%d" % (1 + rng.below(nid - 1)))
        elif r == 11:
            s += ["holddial", "cmd/%d/%s/0/nowait" % (nid, outs(rng, 1)), "sleep/1", "releasedial"]
        elif r == 12 and delays:
            s.append("fastforward")
        else:
            s.append("cmd/%d/ok/0/nowait" % nid)
    if rng.chance(1, 3):
        s += ["shutdown"]
        s += ["longsettle/%d" % (delays + 90) if delays else "settle", "awaitall", "settle"]
    else:
        s += ["longsettle/%d" % (delays + 90) if delays else "settle", "awaitall", "settle"]
    return " ".join(kv) + " script=" + ";".join(s)


def held_onconnect(rng, ident):
    """commands arriving while a (forced or ordinary) reconnect is inside OnConnect, or between a failed OnConnect and the retry"""
    kv = ["conn", ident, "mode=conc", "lazy=1", "dials=-", "conns=%s" % rng.choice(["ok,ok", "ok,fail,ok", "ok,fail,fail,ok", "ok,fatal"])]
    s = ["cmd/1/ok/0/nowait", "settle"]
    if rng.chance(1, 2):
        s += ["holdconnect", "force/2/nowait", "waitev/onconnect-held~/1"]
    else:
        s += ["disconnect", "holdconnect", "cmd/2/ok/0/nowait", "waitev/onconnect-held~/1"]
    n = 3
    for _ in range(1 + rng.below(3)):
        s += ["cmd/%d/%s/0/nowait" % (n, outs(rng, 2, safe=True)), "sleep/%d" % rng.below(2)]
        n += 1
    s += ["releaseconnect"]
    for _ in range(rng.below(3)):
        s += ["cmd/%d/%s/0/nowait" % (n, outs(rng, 1, safe=True))]
        n += 1
    s += ["settle", "awaitall", "settle"]
    return " ".join(kv) + " script=" + ";".join(s)


def shutdown_sweep(ident, pos, delays=0):
    """Shutdown after the pos-th event of a sequence that fails twice before it connects, two waiters"""
    kv = ["conn", ident, "mode=conc", "lazy=1", "dials=fail,fail,ok", "conns=fail,ok"]
    if delays:
        kv.append("firstdelay=%d" % delays)
    s = ["cmd/1/ok/0/nowait", "force/2/nowait", "waitev//%d" % pos, "shutdown", "longsettle/%d" % (delays + 120), "awaitall", "settle"]
    return " ".join(kv) + " script=" + ";".join(s)


def env_sweep(ident, pos, what, delays=0):
    """a disconnection / forced reconnect / fast-forward after the pos-th event of a busy history"""
    kv = ["conn", ident, "mode=conc", "lazy=1", "dials=fail,ok,fail,ok,ok", "conns=fail,ok,ok"]
    if delays:
        kv.append("firstdelay=%d" % delays)
        kv.append("window=%d" % delays)
    s = ["cmd/1/eofdisc,ok/%d/nowait" % (1 if delays else 0), "force/2/nowait", "cmd/3/retriable,ok/0/nowait", "waitev//%d" % pos]
    s += {"disconnect": ["disconnect"], "force": ["force/9/nowait"], "fastforward": ["fastforward"], "cancel": ["cancelcmd/3"]}[what]
    s += ["longsettle/%d" % (delays + 120) if delays else "settle", "awaitall", "settle"]
    return " ".join(kv) + " script=" + ";".join(s)


def shutdown_then_command(rng, ident, delays=0):
    """Shutdown while an attempt is in flight (a held dial), then more commands before the attempt returns: still one dial at a
    time, and the newcomers are released with the sequence that was shut down"""
    kv = ["conn", ident, "mode=conc", "lazy=1", "dials=%s" % rng.choice(["ok,ok,ok", "fail,ok,ok", "ok"]), "conns=ok,ok,ok"]
    if delays:
        kv.append("firstdelay=%d" % delays)
    s = ["holddial", "cmd/1/ok/0/nowait", "waitdial/1", "settle", "shutdown"]
    for i in range(2, 2 + 1 + rng.below(3)):
        s.append(("force/%d/nowait" % i) if rng.chance(1, 3) else "cmd/%d/ok/0/nowait" % i)
        s.append("sleep/%d" % rng.below(3))
    s += ["settle", "releasedial", "longsettle/%d" % (delays + 120) if delays else "settle", "awaitall", "settle"]
    return " ".join(kv) + " script=" + ";".join(s)


def shutdown_during_backoff(rng, ident):
    """a sequence whose attempts fail sleeps out a long retry backoff between them; Shutdown arrives during that sleep (after
    the k-th failure): the sequence must end and release every waiter within bounded time, not after the backoff"""
    k = 1 + rng.below(2)
    kv = ["conn", ident, "mode=conc", "lazy=1", "backoff=%d" % rng.choice([20000, 60000, 3600000]),
          "dials=%s" % rng.choice(["fail,fail,fail,ok", "fail,fail,fail,fail"]), "conns=ok,ok"]
    s = ["cmd/1/ok/0/nowait"]
    if rng.chance(2, 3):
        s.append("force/2/nowait")
    s += ["waitev/onconnecterror/%d" % (1 if k == 1 else 1), "sleep/%d" % rng.choice([2, 10, 30]), "shutdown", "awaitall", "settle"]
    return " ".join(kv) + " script=" + ";".join(s)


def shutdown_from_callback(rng, ident):
    """the application calls Shutdown from inside a callback of the running sequence (its announcement, a connect error, the
    connect callback itself): Shutdown must return and the sequence must end and release every waiter"""
    cb = rng.choice(["ondisconnected", "onconnecterror", "onconnect"])
    dials = {"ondisconnected": "ok", "onconnecterror": rng.choice(["fail,ok", "dns,ok"]), "onconnect": "ok"}[cb]
    kv = ["conn", ident, "mode=conc", "lazy=1", "shutdownin=%s" % cb, "dials=%s" % dials, "conns=%s" % rng.choice(["ok", "fail,ok"])]
    s = ["cmd/1/ok/0/nowait"]
    if rng.chance(2, 3):
        s.append("force/2/nowait")
    if rng.chance(1, 2):
        s.append("cmd/3/ok/0/nowait")
    s += ["awaitall", "settle"]
    return " ".join(kv) + " script=" + ";".join(s)


def timeouts_with_slow_dial(rng, ident):
    """the options meant for the built-in dialer (DialerTimeout, HandshakeTimeout) set on a Connection whose
    transport takes longer than that to dial: still one dial at a time, whatever else happens meanwhile"""
    opt = rng.choice(["dialertimeout=25", "handshaketimeout=25", "dialertimeout=25 handshaketimeout=25"])
    kv = ["conn", ident, "mode=conc", "lazy=1", opt, "dials=%s" % rng.choice(["ok,ok,ok", "fail,ok,ok"]), "conns=ok,ok,ok"]
    s = ["holddial", "cmd/1/ok/0/nowait", "waitdial/1", "sleep/%d" % rng.choice([60, 120])]
    if rng.chance(1, 2):
        s.append("cmd/2/ok/0/nowait")
    if rng.chance(1, 3):
        s += ["force/3/nowait", "sleep/40"]
    s += ["releasedial", "settle", "awaitall", "settle"]
    return " ".join(kv) + " script=" + ";".join(s)
