#!/usr/bin/env python3
"""Regenerates MANIFEST.json from the table below (kept in one place so that it stays valid)."""
import json, os
V = os.path.dirname(os.path.dirname(os.path.abspath(__file__)))

CHECKS = {
    "C02": dict(
        text="Coq theorems: every legal msgpack encoding (all integer/string/container widths, by an explicit choice list) of every well-formed value decodes back to it; exact byte layout of the five frame kinds; every legal encoding of a frame with extra trailing elements decodes to the same message. The extracted encoder/decoder are run against frames captured from the public API on a simulated connection and against the frame reader fed by an independent writer.",
        note="Trusted: Coq kernel, extraction + OCaml glue, Go harness, Python writer. Modelled not verified: go-codec generic decoding; its reflection into typed structs, float32 and ext are outside the model. Compressed payloads enter the model through an inflate oracle computed by the harness with compress/gzip / msgpackzip.",
        technique="Coq proof (structural induction, round trip) + extracted-model differential correspondence",
        design="6/C02"),
    "C04": dict(
        text="Coq theorems: a buffered reader whose consumers loop until satisfied delivers the same bytes under every chunking, so the chunked frame reader refines the flat one (outcomes and residual stream); each frame consumes exactly its declared length whatever its content, and the next frame is decoded from its first byte. The extracted flat model is run against the real frame reader under all 2^(n-1) partitions of short streams and cuts / 1-byte reads of long ones.",
        note="Trusted: as C02. The frame reader's clamp-and-drain is modelled as exact declared-length consumption; bufio and go-codec's ReadFull-style loops are modelled by Model/Reader.v (not verified against their source).",
        technique="Coq proof (refinement of a chunked reader to a flat stream) + extracted-model differential correspondence",
        design="6/C04"),
    "C18": dict(
        text="Coq theorems over an executable model of the rotation object (for every permutation oracle, every op sequence) and of the URI grammar zone; the model's acceptor and parser are extracted and run against the real package on generated groups, op sequences, concurrent callers and URI strings.",
        note="Trusted: Coq kernel; extraction (ExtrOcamlBasic) + OCaml glue; Go harness. Modelled not verified: ASCII TrimSpace/ToLower, net/url + SplitHostPort inside the stated zone; rand.Perm assumed to return permutations (section hypothesis).",
        technique="Coq proof (induction, simulation to an acceptor) + extracted-model differential correspondence",
        design="6/C18"),
}
PENDING = {}
for i in range(1, 21):
    pid = "C%02d" % i
    if pid not in CHECKS:
        PENDING[pid] = "check not built yet in this round (planned in DESIGN.md section 6); nothing is claimed for it"

m = dict(
    version=1,
    setup_cmd="./setup.sh",
    hooks=dict(guard="verif",
               enable="no source hooks: harness files (//go:build verif, package rpc) and check-time instrumented copies are laid over /repo/rpc with `go test -tags verif -overlay <scratch>/overlay.json`",
               baseline_off_cmd="cd /repo && GOFLAGS=-mod=mod GOPROXY=off go test -vet=off -count=1 ./...",
               source_commits=[], add_only=True),
    engines=[dict(name="coq", path="coq/", serves_properties=sorted(CHECKS), kind_free_text="Coq 8.16.1 development: models, proofs, property theorems"),
             dict(name="gen", path="go/gen/", serves_properties=sorted(CHECKS), kind_free_text="translator /repo source -> coq/Model/Generated.v"),
             dict(name="driver", path="ocaml/", serves_properties=sorted(CHECKS), kind_free_text="extracted models + comparison driver"),
             dict(name="harness", path="go/harness/", serves_properties=sorted(CHECKS), kind_free_text="Go harness overlaid into package rpc")],
    checks=[dict(property_id=p, quick_cmd="./check %s --tier quick" % p, thorough_cmd="./check %s --tier thorough" % p,
                 evidence_file="evidence/%s.json" % p, replay_cmd_template="./check %s --replay {path}" % p,
                 engine="coq", level_claimed=dict(category="proof", text=c["text"], design_ref=c["design"]),
                 level_note=c["note"], technique=c["technique"]) for p, c in sorted(CHECKS.items())],
    notes="See DESIGN.md. Every check regenerates coq/Model/Generated.v from /repo's working tree, re-checks the theorems, re-extracts the models and runs the correspondence against the package built from the working tree.",
    not_applicable=[dict(property_id=p, reason=r) for p, r in sorted(PENDING.items())],
)
json.dump(m, open(os.path.join(V, "MANIFEST.json"), "w"), indent=1)
print("MANIFEST.json written:", len(m["checks"]), "checks,", len(m["not_applicable"]), "not claimed")
