#!/usr/bin/env python3
"""Regenerates MANIFEST.json from the table below (kept in one place so that it stays valid)."""
import json, os
V = os.path.dirname(os.path.dirname(os.path.abspath(__file__)))

CHECKS = {
    "C17": dict(
        text="Coq theorems over a model of ConnectionTransportTLS.Dial and the TLS constructors in which crypto/tls + crypto/x509 are their three checks (chain to a configured root, validity period, host name): a dial completes iff the peer handshakes and its certificate satisfies the effective configuration; built from root certificates that means chains to those roots, not expired, valid for the host of THIS dial; a wrong issuer / wrong name / expired certificate fails the dial and creates no transport; a peer that never completes the handshake makes the dial fail by the timer arm; the supplied tls.Config is copied (keeping the caller's object is refuted with a witness). Which configuration is built, that InsecureSkipVerify occurs nowhere, the select with the timer, the default for a zero timeout and the Clone are regenerated from the source. The extracted model is compared with REAL handshakes over loopback connections from a custom dialer against certificates minted per run (2 CAs, 7 server certificates) for every combination of constructor x dialed host x certificate x server behaviour (handshakes, silent, closes mid-handshake, garbage) x caller mutating its config afterwards, silent peers also over an unbuffered pipe whose writes block, and sequences of 2-3 dials on one transport through a remote that walks over two host names.",
        note="PARTIAL: crypto/tls and crypto/x509 are trusted and abstracted (the model's primitives are calibrated against them: validity, then name, then chain). The handshake bound is observed (T..T+400 ms) for T in {150,250,400} ms, the one-minute default is a regenerated source fact. Trusted: Coq kernel, extraction + OCaml glue, Go harness (mints certificates with crypto/x509).",
        technique="Coq proof (decision model of the dial; refutation of aliasing) + regenerated source facts + extracted-model differential correspondence on real handshakes",
        design="6/C17"),
    "C06": dict(
        text="Coq theorems: exactly gzip and msgpackzip have a compressor and the frame decoder uses the same test (none and every unknown type are treated as uncompressed on both ends); for ANY codec pair with the round-trip law a compressed call frame decodes to the original argument and tags and the reply to a pending compressed call decodes to the original result, for all values and sizes; the pooled gzip readers as a transition system: under every interleaving of any number of Decompress calls with failing ones in between, each call on a well-formed input returns its own decompression and each on a malformed one fails, and no broken reader enters the pool (returning a reader after a failed Reset is refuted with a witness). The harness compares compressed and uncompressed calls both ways for generated values and the four type cases, round-trips empty/tiny/incompressible/repetitive/large payloads through the package's compressors, flips every byte of small gzip payloads (error or the original, never another value, never a panic), and shares the pools between up to 16 goroutines with failing decompressions in between.",
        note="PARTIAL: DEFLATE/CRC-32/msgpackzip themselves are behind the round-trip hypothesis of the transparency theorems (their round trip, corruption detection and absence of panics are tested, not proved). Trusted: Coq kernel, extraction + OCaml glue, Go harness.",
        technique="Coq proof (frame-level transparency for every codec with the round-trip law; reader-pool LTS invariant over all interleavings) + differential correspondence and corruption sweep on the implementation",
        design="6/C06"),
    "C19": dict(
        text="Coq theorems over an explicit heap of mutable maps and immutable contexts, for EVERY sequence of build-map / add-tags / read-tags / mutate-any-client-held-map operations: no map stored in a context is ever one the client holds, the tags seen through every previously derived context never change, a new context sees parent-extended-by-added, a read is a copy; both ways of omitting a copy are refuted with witnesses; the rule for which tags travel (context tags joined by selected context values for calls, context tags only for notifications, none when empty). The extracted heap model is run against AddRPCTagsToContext / TagsFromContext on all derivation sequences up to a bound plus random longer ones, and the frames written by the real client for calls, compressed calls and notifications are compared with the model's traveling tags.",
        note="Trusted: Coq kernel, extraction + OCaml glue, Go harness. The two copy facts are regenerated from context.go's order census (tcfg_generated_ok). Delivery into the handler's context is covered by C01/C02 (decode side).",
        technique="Coq proof (heap invariant over all operation sequences; refutation of the aliasing variants) + extracted-model differential correspondence",
        design="6/C19"),
    "C20": dict(
        text="Coq theorems about the record state machine of instrument.go: exactly one Put however often and in whatever order a record is finished, a second finish refused, stored size = sum of what was added before the first finish. The extracted machine is run against NetworkInstrumenter on random operation lists; and mixes of answered / cancelled / timed-out / refused / interrupted calls, compressed calls (with compressed replies), notifications and served calls run on the real transport with a recording storage: every operation whose frame was written must have exactly one record under '<Type> <method>' whose Size equals the bytes of its frame plus, when received before the finish, the payload length of the peer's matching frame (sizes recomputed from the raw frames of the event log).",
        note="PARTIAL: that every way an RPC can end reaches exactly one RecordAndFinish is checked on the implementation (histories), not proved about a model of dispatch.go/request.go. Trusted: Coq kernel, extraction + OCaml glue, Go harness.",
        technique="Coq proof (state machine, induction over operation lists) + extracted-model differential correspondence + accounting oracle on implementation traces",
        design="6/C20"),
    "C01": dict(
        text="Coq theorems, every schedule: every result handed to a caller was sent by the peer for that call's own seqno (no cross-talk), call seqnos are pairwise distinct, a call is in the pending table exactly while outstanding, the caller's frame decodes to exactly its argument and tags under every legal encoding, reply frames are whole. The harness runs N of our calls answered in every one of the N! orders mixed with M incoming calls/notifications whose handlers finish in every order, generated values and tag maps, delayed replies, cancellations and not-found calls, and checks at quiescence: one invocation per delivered request with exactly the supplied argument/tags, exactly one reply per returned handler carrying its own result, never two, no cross-talk.",
        note="KNOWN FINDING (not repaired): a handler result whose reply exceeds the frame limit gets no reply at all. 'Exactly one reply is eventually sent' is checked at quiescence on the implementation; the model proves at-most-once and routing. Trusted: Coq kernel, extraction + OCaml glue, Go harness.",
        technique="Coq proof (LTS invariants over all schedules; monitor acceptance) + exhaustive completion orders on the implementation",
        design="6/C01"),
    "C08": dict(
        text="Coq theorems (safety form of promptness): once its context has ended a caller blocked at the hand-off or either wait always has a step of its own, whatever writer and reader do; a call that returned the context's error after its frame was handed to the writer has queued a cancel frame with its seqno, which can always move and never precedes the call frame; a cancellation reaches exactly its handler. The harness cancels / lets time out one call while library goroutines are parked at each public hook, with the peer responsive, silent or not reading, and feeds cancel frames right behind their call frames (also on a single P).",
        note="PARTIAL: 'promptly' is the harness' 5 s bound; cancellation instants are the public hooks, not every statement. Trusted: as C03.",
        technique="Coq proof (enabledness and queueing invariants over all schedules) + cancellation sweep over public hooks on the implementation",
        design="6/C08"),
    "C12": dict(
        text="The full property is REFUTED as a theorem about the faithful model (the receive goroutine decodes into the caller's buffer after the look-up with no ordering against the caller's return), with two witnesses that replay on the implementation (cancel/timeout/close while the reply is between look-up and decode; a duplicated reply while the caller is between taking its reply and returning - the second was found by the proof attempt). Proved: the buffer is only ever written by a reply carrying that call's seqno, and never after return on schedules where no call returns while its reply is under decode. The harness parks the reply at every public point between look-up and delivery while the call returns by cancel, deadline or close, plus late and duplicated replies and a blocked send notifier.",
        note="KNOWN FINDINGS (not repaired): two signatures, see known_findings.json. Any other late write (e.g. a reply arriving after the call was removed from the table) is still reported.",
        technique="Coq proof (refutation with replayable witness + partial theorems) + park sweep on the implementation",
        design="6/C12"),
    "C07": dict(
        text="Coq theorems: under every schedule of local closers, the receive loop's exit and observers, Done closes once, IsConnected is its negation and never returns, err() is nil before and one fixed non-nil value after (also for a local Close or a loop that was never started); the receive loop goes on exactly for messages and the three not-found classes (the source's classification lists are regenerated). The harness runs traffic histories with not-found calls/notifications and stray responses/cancellations interleaved with valid calls both ways, every fatal class, and Close raced with the loop's exit in every order while three goroutines poll the accessors.",
        note="Trusted: Coq kernel, extraction + OCaml glue, Go harness. The not-found reply path is checked on the implementation (reply frame with the same seqno naming what is missing; no handler runs; later calls succeed), not modelled as an LTS.",
        technique="Coq proof (LTS invariant over all schedules; refutation of the pre-repair mechanism) + monitors and expectations on implementation traces + regenerated classification lists",
        design="6/C07"),
    "C10": dict(
        text="Coq theorems (enabledness): after the transport has stopped every blocked caller/notifier has a step of its own, a sender whose context has ended always has one, the goroutines Close waits for (task loop, writer) can always move, stopping is irreversible; a reply has no stop arm and relies on its context (stated as a theorem). The harness cuts the incoming stream of a two-way session at every byte offset, fails every write, closes from the harness, from a handler and from 1-4 goroutines while library goroutines are parked at each public hook or blocked in Write, and requires every outstanding operation and every Close to return within the bound with an allowed error, and later operations to fail with io.EOF.",
        note="PARTIAL: bounded time is observed (5 s harness bound), the theorems give enabledness. Fault points are the public hooks and every byte offset / write, not every statement (the statement-level instrumenter of DESIGN 4.3 was not built).",
        technique="Coq proof (enabledness invariants over all schedules) + fault enumeration on the implementation",
        design="6/C10"),
    "C09": dict(
        text="Coq theorems over a transition system of the serving side (receive goroutine, task loop, one goroutine per request, Close), for every schedule: a running handler's context is cancelled only because the peer cancelled that very call or the transport is closing, and once the task loop has exited every handler still running has been cancelled. The monitor is evaluated on event logs of the real transport for every set of <= 3 (thorough: 4, sampled 5) concurrent handlers, every finish/cancel order and a Close or EOF at every position, plus long histories and Close during request decoding.",
        note="Trusted: Coq kernel, extraction + OCaml glue, Go harness (a watcher goroutine per handler context). Environment hypotheses: the peer's call seqnos are non-negative and not reused while being served. The task-key mechanism is regenerated from the source (generated_ok).",
        technique="Coq proof (LTS invariants over all schedules; monitor acceptance; refutation of the pre-repair mechanism) + monitors on implementation traces",
        design="6/C09"),
    "C11": dict(
        text="Coq theorems: once the transport has stopped no goroutine of the serving side (receive goroutine, end-of-handler reports, task loop) or sending side (callers, notifiers) can be parked for ever - every blocked program point has an enabled step, for the select arms regenerated from the current source. The harness stops transports by Close, EOF, read errors and stream cuts at every byte offset with handlers and calls in flight, Close during request decoding, duplicated replies, then releases everything and requires an empty goroutine dump (filtered to the package) and an exact pending-call table at quiescence.",
        note="PARTIAL: actual goroutine exit and table size are observed (runtime.Stack, white-box accessor); the theorems give enabledness. Trusted: as C09.",
        technique="Coq proof (enabledness invariants over all schedules; refutation of the pre-repair mechanism) + goroutine/table census on the implementation",
        design="6/C11"),
    "C03": dict(
        text="Coq theorems over a transition system of the send side (any number of senders, one writer goroutine, unbuffered hand-off, contexts ending at any step, every schedule): every Write is one whole frame within the limit, a refused or abandoned send contributes no byte, the size check refuses exactly the encodings above the maximum. The same monitors are evaluated on event logs of the real transport under stalled writes, cancellations, timeouts and payload sizes max-3..max+3 for every kind.",
        note="Trusted: Coq kernel, extraction + OCaml glue (abstraction of the event log), Go harness. Modelled not verified: Go channel/select semantics as encoded in Model/Writer.v; the select arms are regenerated from the source (generated_ok). Promptness is proved as enabledness, bounded time is tested.",
        technique="Coq proof (LTS invariants over all schedules; monitor acceptance) + monitors on implementation traces + regenerated census",
        design="6/C03"),
    "C05": dict(
        text="Coq theorems on the flat and chunked frame reader: EOF exactly at a frame boundary; a truncated body is fatal and never EOF; zero/negative/non-integer/out-of-int32/above-max prefixes stop before any payload byte for every integer width; bad header bytes are fatal after the frame. The extracted model is run against the white-box frame reader and a whole transport on mutated, truncated (every offset), spliced, length-bombed and random streams with three kinds of stream end.",
        note="PARTIAL: absence of panics, termination and the allocation bound inside go-codec are tested (recover, wall-clock bound, largest read requested), not proved. go-codec leniencies are part of the model as calibrated on the unchanged tree.",
        technique="Coq proof (case analysis on the prefix/frame decoder) + extracted-model differential correspondence + property predicates on hostile input",
        design="6/C05"),
    "C13": dict(
        text="Coq theorems over the send-side transition system, for every skeleton, population and schedule: the notifier runs exactly once per call/notification frame immediately before its write with its seqno, call seqnos on the wire are pairwise distinct, a cancellation never precedes its call, a send that began after another returned is not written before it. The same four monitors run on event logs of the real transport (bursts against a stalled connection, cancellations, timeouts, oversize, transient write failures, handler replies).",
        note="Trusted as C03. The monitors are extracted from Model/Props.v; the abstraction of Write events uses the extracted decoders.",
        technique="Coq proof (LTS invariants over all schedules; monitor acceptance) + monitors on implementation traces + regenerated census",
        design="6/C13"),
    "C02": dict(
        text="Coq theorems: every legal msgpack encoding (all integer/string/container widths, by an explicit choice list) of every well-formed value decodes back to it; exact byte layout of the five frame kinds; every legal encoding of a frame with extra trailing elements decodes to the same message. The extracted encoder/decoder are run against frames captured from the public API on a simulated connection and against the frame reader fed by an independent writer.",
        note="Trusted: Coq kernel, extraction + OCaml glue, Go harness, Python writer. Modelled not verified: go-codec generic decoding; its reflection into typed structs, float32 and ext are outside the model. Compressed payloads enter the model through an inflate oracle computed by the harness with compress/gzip / msgpackzip.",
        technique="Coq proof (structural induction, round trip) + extracted-model differential correspondence",
        design="6/C02"),
    "C04": dict(
        text="Coq theorems: a buffered reader whose consumers loop until satisfied delivers the same bytes under every chunking, so the chunked frame reader refines the flat one (outcomes and residual stream); each frame consumes exactly its declared length whatever its content, and the next frame is decoded from its first byte. The extracted flat model is run against the real frame reader under all 2^(n-1) partitions of short streams and cuts / 1-byte reads of long ones.",
        note="Trusted: as C02. The frame reader's clamp-and-drain is modelled as exact declared-length consumption; bufio and go-codec's ReadFull-style loops are modelled by Model/Reader.v (not verified against their source).",
        technique="Coq proof (refinement of a chunked reader to a flat stream) + extracted-model differential correspondence",
        design="6/C04"),
    "C18": dict(
        text="Coq theorems over an executable model of the rotation object (for every permutation oracle, every op sequence) and of the URI grammar zone; the model's acceptor and parser are extracted and run against the real package on generated groups, op sequences, concurrent callers and URI strings.",
        note="Trusted: Coq kernel; extraction (ExtrOcamlBasic) + OCaml glue; Go harness. Modelled not verified: ASCII TrimSpace/ToLower, net/url + SplitHostPort inside the stated zone; rand.Perm assumed to return permutations (section hypothesis).",
        technique="Coq proof (induction, simulation to an acceptor) + extracted-model differential correspondence",
        design="6/C18"),
}
PENDING = {}
for i in range(1, 21):
    pid = "C%02d" % i
    if pid not in CHECKS:
        PENDING[pid] = "check not built yet in this round (planned in DESIGN.md section 6); nothing is claimed for it"

m = dict(
    version=1,
    setup_cmd="./setup.sh",
    hooks=dict(guard="verif",
               enable="no source hooks: harness files (//go:build verif, package rpc) and check-time instrumented copies are laid over /repo/rpc with `go test -tags verif -overlay <scratch>/overlay.json`",
               baseline_off_cmd="cd /repo && GOFLAGS=-mod=mod GOPROXY=off go test -vet=off -count=1 ./...",
               source_commits=[], add_only=True),
    engines=[dict(name="coq", path="coq/", serves_properties=sorted(CHECKS), kind_free_text="Coq 8.16.1 development: models, proofs, property theorems"),
             dict(name="gen", path="go/gen/", serves_properties=sorted(CHECKS), kind_free_text="translator /repo source -> coq/Model/Generated.v"),
             dict(name="driver", path="ocaml/", serves_properties=sorted(CHECKS), kind_free_text="extracted models + comparison driver"),
             dict(name="harness", path="go/harness/", serves_properties=sorted(CHECKS), kind_free_text="Go harness overlaid into package rpc")],
    checks=[dict(property_id=p, quick_cmd="./check %s --tier quick" % p, thorough_cmd="./check %s --tier thorough" % p,
                 evidence_file="evidence/%s.json" % p, replay_cmd_template="./check %s --replay {path}" % p,
                 engine="coq", level_claimed=dict(category="proof", text=c["text"], design_ref=c["design"]),
                 level_note=c["note"], technique=c["technique"]) for p, c in sorted(CHECKS.items())],
    notes="See DESIGN.md. Every check regenerates coq/Model/Generated.v from /repo's working tree, re-checks the theorems, re-extracts the models and runs the correspondence against the package built from the working tree.",
    not_applicable=[dict(property_id=p, reason=r) for p, r in sorted(PENDING.items())],
)
json.dump(m, open(os.path.join(V, "MANIFEST.json"), "w"), indent=1)
print("MANIFEST.json written:", len(m["checks"]), "checks,", len(m["not_applicable"]), "not claimed")
