"""An independent msgpack writer with explicit width choices, a value generator, and the canonical value text form.
Values: None, bool, int, ('s', bytes), ('b', bytes), ('d', int bits), list, ('m', [(k, v), ...])."""
import struct


def vtext(v):
    if v is None:
        return "n"
    if v is True:
        return "t"
    if v is False:
        return "f"
    if isinstance(v, int):
        return "i:%d" % v
    if isinstance(v, list):
        return "a[" + ",".join(vtext(x) for x in v) + "]"
    t = v[0]
    if t == "s":
        return "s:" + v[1].hex()
    if t == "b":
        return "b:" + v[1].hex()
    if t == "d":
        return "d:%016x" % v[1]
    if t == "m":
        return "m{" + ",".join(sorted(vtext(k) + "=" + vtext(x) for k, x in v[1])) + "}"
    raise ValueError(v)


def int_opts(z):
    o = []
    if 0 <= z <= 127:
        o.append(bytes([z]))
    if -32 <= z < 0:
        o.append(bytes([z + 256]))
    if 0 <= z <= 0xff:
        o.append(b"\xcc" + bytes([z]))
    if 0 <= z <= 0xffff:
        o.append(b"\xcd" + struct.pack(">H", z))
    if 0 <= z <= 0xffffffff:
        o.append(b"\xce" + struct.pack(">I", z))
    if 0 <= z < 2 ** 64:
        o.append(b"\xcf" + struct.pack(">Q", z))
    if -128 <= z <= 127:
        o.append(b"\xd0" + struct.pack(">b", z))
    if -2 ** 15 <= z < 2 ** 15:
        o.append(b"\xd1" + struct.pack(">h", z))
    if -2 ** 31 <= z < 2 ** 31:
        o.append(b"\xd2" + struct.pack(">i", z))
    if -2 ** 63 <= z < 2 ** 63:
        o.append(b"\xd3" + struct.pack(">q", z))
    return o


def hdr_opts(kind, n):
    o = []
    if kind == "s":
        if n < 32:
            o.append(bytes([0xa0 + n]))
        if n < 256:
            o.append(b"\xd9" + bytes([n]))
        if n < 65536:
            o.append(b"\xda" + struct.pack(">H", n))
        o.append(b"\xdb" + struct.pack(">I", n))
    elif kind == "b":
        if n < 256:
            o.append(b"\xc4" + bytes([n]))
        if n < 65536:
            o.append(b"\xc5" + struct.pack(">H", n))
        o.append(b"\xc6" + struct.pack(">I", n))
    elif kind == "a":
        if n < 16:
            o.append(bytes([0x90 + n]))
        if n < 65536:
            o.append(b"\xdc" + struct.pack(">H", n))
        o.append(b"\xdd" + struct.pack(">I", n))
    elif kind == "m":
        if n < 16:
            o.append(bytes([0x80 + n]))
        if n < 65536:
            o.append(b"\xde" + struct.pack(">H", n))
        o.append(b"\xdf" + struct.pack(">I", n))
    return o


class Chooser:
    """canonical (always the first = narrowest go-codec choice) or seeded alternative widths"""

    def __init__(self, rng=None, alt_num=0, alt_den=1):
        self.rng, self.num, self.den = rng, alt_num, alt_den
        self.alternatives = 0

    def pick(self, opts, canon):
        if self.rng is not None and self.rng.chance(self.num, self.den):
            c = self.rng.choice(opts)
            if c != canon:
                self.alternatives += 1
            return c
        return canon


def canon_int(z):
    if z >= 0:
        for b in (lambda: bytes([z]) if z <= 127 else None, lambda: b"\xcc" + bytes([z]) if z <= 0xff else None,
                  lambda: b"\xcd" + struct.pack(">H", z) if z <= 0xffff else None,
                  lambda: b"\xce" + struct.pack(">I", z) if z <= 0xffffffff else None,
                  lambda: b"\xcf" + struct.pack(">Q", z)):
            r = b()
            if r is not None:
                return r
    if z >= -32:
        return bytes([z + 256])
    if z >= -128:
        return b"\xd0" + struct.pack(">b", z)
    if z >= -2 ** 15:
        return b"\xd1" + struct.pack(">h", z)
    if z >= -2 ** 31:
        return b"\xd2" + struct.pack(">i", z)
    return b"\xd3" + struct.pack(">q", z)


def canon_hdr(kind, n):
    o = hdr_opts(kind, n)
    if kind == "s" or kind == "b":
        return o[0]
    return o[0]


def enc(v, ch=None):
    ch = ch or Chooser()
    if v is None:
        return b"\xc0"
    if v is True:
        return b"\xc3"
    if v is False:
        return b"\xc2"
    if isinstance(v, int):
        return ch.pick(int_opts(v), canon_int(v))
    if isinstance(v, list):
        return ch.pick(hdr_opts("a", len(v)), canon_hdr("a", len(v))) + b"".join(enc(x, ch) for x in v)
    t = v[0]
    if t == "s" or t == "b":
        return ch.pick(hdr_opts(t, len(v[1])), canon_hdr(t, len(v[1]))) + v[1]
    if t == "d":
        return b"\xcb" + struct.pack(">Q", v[1])
    if t == "m":
        return ch.pick(hdr_opts("m", len(v[1])), canon_hdr("m", len(v[1]))) + b"".join(enc(k, ch) + enc(x, ch) for k, x in v[1])
    raise ValueError(v)


INTERESTING_INTS = [0, 1, -1, 127, 128, 255, 256, -32, -33, -128, -129, 32767, 32768, 65535, 65536, -32768, -32769,
                    2 ** 31 - 1, 2 ** 31, 2 ** 32 - 1, 2 ** 32, -2 ** 31, -2 ** 31 - 1, 2 ** 63 - 1, 2 ** 63, 2 ** 64 - 1, -2 ** 63]


def gen_int(rng):
    k = rng.below(4)
    if k == 0:
        return rng.choice(INTERESTING_INTS)
    if k == 1:
        return rng.below(256) - 64
    if k == 2:
        return rng.below(2 ** 64)
    return rng.below(2 ** 63) - 2 ** 62


def gen_bytes(rng, maxlen=40):
    k = rng.below(10)
    n = [0, 1, 5, 31, 32, 33, rng.below(maxlen), 255, 256, 300][k]
    if n > maxlen * 8:
        n = maxlen
    return rng.bytes(n)


def gen_key(rng, used, anykind=False):
    for _ in range(20):
        k = ("s", bytes(97 + rng.below(26) for _ in range(1 + rng.below(6))))
        if anykind and rng.chance(1, 3):
            # keys of untyped maps need not be strings
            k = rng.choice([rng.below(200) - 100, gen_int(rng)])
        if vtext(k) not in used:
            used.add(vtext(k))
            return k
    k = ("s", ("k%d" % len(used)).encode())
    used.add(vtext(k))
    return k


def gen_value(rng, depth=3, wide=False):
    k = rng.below(12 if depth > 0 else 8)
    if k == 0:
        return None
    if k == 1:
        return rng.chance(1, 2)
    if k in (2, 3):
        return gen_int(rng)
    if k in (4, 5):
        return ("s", gen_bytes(rng))
    if k == 6:
        return ("b", gen_bytes(rng))
    if k == 7:
        # doubles: finite, non-NaN bit patterns
        bits = rng.below(2 ** 64)
        if (bits >> 52) & 0x7ff == 0x7ff:
            bits &= ~(1 << 62)
        return ("d", bits)
    if k in (8, 9):
        n = rng.choice([0, 1, 2, 3, 15, 16, 17] if wide else [0, 1, 2, 3])
        return [gen_value(rng, depth - 1) for _ in range(n)]
    n = rng.choice([0, 1, 2, 3, 15, 16] if wide else [0, 1, 2])
    used = set()
    return ("m", [(gen_key(rng, used, anykind=True), gen_value(rng, depth - 1)) for _ in range(n)])


def zip_safe(v):
    """the same value with the integer map keys msgpackzip cannot round-trip (negative, above int64 max) made harmless"""
    if isinstance(v, list):
        return [zip_safe(x) for x in v]
    if isinstance(v, tuple) and v and v[0] == "m":
        out, used = [], set()
        for k, x in v[1]:
            if isinstance(k, int) and not isinstance(k, bool) and (k < 0 or k >= 2 ** 63 - 1):
                k = abs(k) % (2 ** 62)
            if vtext(k) in used:
                continue
            used.add(vtext(k))
            out.append((k, zip_safe(x)))
        return ("m", out)
    return v


def gen_tags(rng):
    """tag maps: string keys, scalar-ish values"""
    n = rng.choice([1, 1, 2, 3])
    used = set()
    return ("m", [(gen_key(rng, used), gen_value(rng, 1)) for _ in range(n)])


def has_alt(v):
    return True
