#!/bin/sh
# verify_seed.sh <seed-dir> : confirm in a scratch worktree that the patch compiles, the suite passes with it,
# and the demonstration fails with it and passes without it.
set -u
S=$(cd "$1" && pwd)
export GOFLAGS=-mod=mod GOPROXY=off GOSUMDB=off GOTOOLCHAIN=local
W=/tmp/wtv.$$
git -C /repo worktree add -q --detach $W HEAD || exit 2
trap 'git -C /repo worktree remove --force $W >/dev/null 2>&1' EXIT
cd $W
git apply "$S/patch.diff" || { echo "PATCH-DOES-NOT-APPLY"; exit 1; }
go build ./... || { echo "DOES-NOT-COMPILE"; exit 1; }
unshare -rn sh -c "ip link set lo up; go test -vet=off -count=1 -timeout 120s ./..." >/tmp/wtv.$$.suite 2>&1 && echo "suite-with-patch: PASS" || { echo "suite-with-patch: FAIL"; tail -20 /tmp/wtv.$$.suite; }
cp "$S/demo_test.go" rpc/zz_demo_test.go
DEMO=$(grep -o 'func Test[A-Za-z0-9_]*' rpc/zz_demo_test.go | sed 's/func //' | paste -sd'|')
go test -vet=off -count=1 -run "^($DEMO)\$" ./rpc/ >/tmp/wtv.$$.d1 2>&1 && echo "demo-with-patch: PASS (unexpected)" || echo "demo-with-patch: FAIL (expected)"
git checkout -q -- . 
go test -vet=off -count=1 -run "^($DEMO)\$" ./rpc/ >/tmp/wtv.$$.d2 2>&1 && echo "demo-without-patch: PASS (expected)" || { echo "demo-without-patch: FAIL (unexpected)"; tail -20 /tmp/wtv.$$.d2; }
rm -f /tmp/wtv.$$.*
