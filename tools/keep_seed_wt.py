#!/usr/bin/env python3
"""keep_seed_wt.py <src-seed-dir> <Cxx> <name> <worktree> : like keep_seed.py but never touches /repo: the changed tree is the
scratch worktree <worktree> (patch already applied there).  Confirms the seed's claims with verify_seed.sh (own scratch
worktree), runs the dynamic part of the check against the worktree (VERIF_REPO, VERIF_NOGEN) and, separately, the
translator + the property's theorems on a private copy of coq/ with Generated.v regenerated from the worktree."""
import json, os, shutil, subprocess, sys, tempfile
src, prop, name, wt = sys.argv[1:5]
V = os.path.dirname(os.path.dirname(os.path.abspath(__file__)))
v = subprocess.run([os.path.join(V, "tools/verify_seed.sh"), src], stdout=subprocess.PIPE, stderr=subprocess.STDOUT, text=True).stdout
ok = ("suite-with-patch: PASS" in v and "demo-with-patch: FAIL" in v and "demo-without-patch: PASS" in v)
print(v)
if not ok:
    print("NOT KEPT: claims not confirmed"); sys.exit(1)
# the worktree is made to hold exactly patch.diff (sub-agents sharing one stash have swapped changes before)
subprocess.run(["git", "-C", wt, "checkout", "--", "."], check=True)
subprocess.run(["git", "-C", wt, "clean", "-fdq"], check=True)
subprocess.run(["git", "-C", wt, "apply", os.path.join(os.path.abspath(src), "patch.diff")], check=True)
env = dict(os.environ, VERIF_REPO=wt, VERIF_NOGEN="1")
t = subprocess.run(["timeout", "1500", "python3", os.path.join(V, "tools/try_explore.py"), prop, "-", "1"], env=env,
                   stdout=subprocess.PIPE, stderr=subprocess.STDOUT, text=True).stdout
# a failure that only reproduces a recorded known finding of the unchanged tree is no detection
known = [f["signature"] for f in json.load(open(os.path.join(V, "known_findings.json")))["findings"]]
fails = [l for l in t.splitlines() if l.startswith("PROPFAIL") or l.startswith("DISAGREE") or l.startswith("MISMATCH")]
dyn = any(not any(("sig=" + k) in l.split(" [")[0] for k in known) for l in fails)
# static part: regenerate the facts from the worktree into a private copy of the Coq development
tmp = tempfile.mkdtemp(prefix="kswt.", dir="/var/tmp")
stat, statmsg = False, ""
try:
    subprocess.run(["rsync", "-a", "--exclude", "*.vo*", "--exclude", "*.glob", "--exclude", ".*.aux", os.path.join(V, "coq") + "/", tmp + "/coq/"], check=True)
    g = subprocess.run([os.path.join(V, "bin/gen"), "-repo", wt, "-o", tmp + "/coq/Model/Generated.v"], stdout=subprocess.PIPE, stderr=subprocess.STDOUT, text=True)
    if g.returncode != 0:
        stat, statmsg = True, "translator fails on the changed tree: " + g.stdout[-300:]
    else:
        same = subprocess.run(["cmp", "-s", tmp + "/coq/Model/Generated.v", os.path.join(V, "coq/Model/Generated.v")]).returncode == 0
        if same:
            statmsg = "Generated.v unchanged"
        else:
            subprocess.run(["coq_makefile", "-f", "_CoqProject", "-o", "Makefile"], cwd=tmp + "/coq", stdout=subprocess.DEVNULL, stderr=subprocess.DEVNULL)
            m = subprocess.run(["timeout", "1500", "make", "-j8", "Properties/%s.vo" % prop], cwd=tmp + "/coq", stdout=subprocess.PIPE, stderr=subprocess.STDOUT, text=True)
            stat = m.returncode != 0
            errs = [l for l in m.stdout.splitlines() if l.startswith("File ") or l.startswith("Error")]
            statmsg = "Generated.v changed; theorems of %s %s" % (prop, "no longer check: " + " | ".join(errs[:4]) if stat else "still check")
finally:
    shutil.rmtree(tmp, ignore_errors=True)
lines = [l for l in t.splitlines() if l.startswith("PROPFAIL") or l.startswith("DISAGREE") or l.startswith("Counter")][:6]
print("\n".join(lines)); print("static:", statmsg)
dst = os.path.join(V, "seeded", prop, name)
os.makedirs(dst, exist_ok=True)
shutil.copy(os.path.join(src, "patch.diff"), dst)
shutil.copy(os.path.join(src, "demo_test.go"), dst)
meta = json.load(open(os.path.join(src, "meta.json")))
meta["confirmed_by_verify_seed"] = v.strip().splitlines()
meta["check_result_with_patch"] = dict(tier="quick", how="tools/keep_seed_wt.py: dynamic part against the changed worktree (VERIF_REPO), regenerated facts + theorems on a private copy of coq/",
                                       dynamic_output=[l[:300] for l in lines], static=statmsg[:600],
                                       detected=bool(dyn or stat), detected_dynamic=bool(dyn), detected_static=bool(stat))
json.dump(meta, open(os.path.join(dst, "meta.json"), "w"), indent=1)
print("kept in", dst, "detected =", dyn or stat, "(dynamic %s, static %s)" % (dyn, stat))
