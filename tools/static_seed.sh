#!/bin/sh
# static_seed.sh <patch.diff> <Cxx> : does the change break a theorem of Properties/Cxx.v once Generated.v is regenerated
# from the changed tree?  Works on a scratch worktree and a private copy of coq/; /repo and /verif/coq are not touched.
P=$(readlink -f "$1"); C=$2; W=/tmp/wts.$$; M=/var/tmp/muts.$$
git -C /repo worktree add -q --detach $W HEAD || exit 2
trap 'git -C /repo worktree remove --force $W >/dev/null 2>&1; rm -rf $M' EXIT
git -C $W apply "$P" || exit 2
mkdir -p $M && rsync -a --exclude '*.vo*' --exclude '*.glob' --exclude '.*.aux' /verif/coq/ $M/coq/
/verif/bin/gen -repo $W -o $M/coq/Model/Generated.v || { echo "STATIC: translator fails"; exit 0; }
if cmp -s $M/coq/Model/Generated.v /verif/coq/Model/Generated.v; then echo "STATIC $C: Generated.v unchanged"; exit 0; fi
cd $M/coq && coq_makefile -f _CoqProject -o Makefile >/dev/null 2>&1
if timeout 1500 make -j8 Properties/$C.vo > $M/log 2>&1; then echo "STATIC $C: Generated.v changed, theorems still check"
else echo "STATIC $C: theorems no longer check: $(grep -m2 '^File\|^Error' $M/log | tr '\n' ' ')"; fi
