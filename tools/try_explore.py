#!/usr/bin/env python3
"""try_explore.py <Cxx> [patch.diff] [seed] : run only the correspondence/predicate part of a check (no Coq), optionally with a patch applied to /repo."""
import sys, os, subprocess, collections, importlib, signal
signal.signal(signal.SIGTERM, lambda *a: sys.exit(143))   # run the finally clause (revert the patch) when killed
sys.path.insert(0, os.path.join(os.path.dirname(os.path.dirname(os.path.abspath(__file__))),'lib'))
import common as C
prop = sys.argv[1]
patch = sys.argv[2] if len(sys.argv) > 2 and sys.argv[2] != '-' else None
seed = int(sys.argv[3]) if len(sys.argv) > 3 else 1
if patch:
    subprocess.check_call(["git", "-C", "/repo", "apply", patch])
try:
    if not os.environ.get('VERIF_NOGEN'):
        C.ensure_gen(); C.ensure_driver()
    p = importlib.import_module('props.' + prop.lower())
    ctx = dict(prop=prop, tier=os.environ.get("VERIF_TIER", "quick"), seed=seed, rng=C.SplitMix64(seed), replay=None, scratch=C.scratch())
    r = p.explore(ctx)
finally:
    if patch:
        subprocess.check_call(["git", "-C", "/repo", "checkout", "--", "."])
        if not os.environ.get('VERIF_NOGEN'):
            C.ensure_gen()      # Generated.v must describe the unpatched tree again
print(collections.Counter(v[1].split(' ')[0] for v in r['verdicts']), [t[:400] for t in r['tie']], ctx.get('go_wall_s'))
seen = collections.Counter()
for c, v, o in r['verdicts']:
    if not v.startswith('AGREE'):
        key = ' '.join(v.split(' ')[2:])[:60]
        seen[key] += 1
        if seen[key] <= 1:
            print(v[:300]); print('   ', c[:500]); print('   ', o[:int(os.environ.get('OBSLEN','700'))])
print(seen.most_common(10))
