#!/usr/bin/env python3
"""try_lines.py <Cxx> <file with case lines> [test name] : run given case lines through harness + model driver, print verdict and observation."""
import sys, os
sys.path.insert(0, os.path.join(os.path.dirname(os.path.dirname(os.path.abspath(__file__))), 'lib'))
import common as C
prop = sys.argv[1]
lines = [l.rstrip("\n") for l in open(sys.argv[2]) if l.strip()]
test = sys.argv[3] if len(sys.argv) > 3 else "TestVerifScn"
ctx = dict(prop=prop, tier="quick", seed=1, rng=C.SplitMix64(1), replay=None, scratch=C.scratch())
triples, tie = C.run_both(ctx, test, lines, go_timeout=600)
for c, v, o in triples:
    print(v[:600]); print("   ", o[:int(os.environ.get('OBSLEN', '3000'))])
print(tie)
