#!/usr/bin/env python3
"""keep_seed.py <src-seed-dir> <Cxx> <name> <detected-by...> : verify in a scratch worktree, run the check on /repo with the
patch applied, and store patch.diff, demo_test.go and meta.json under /verif/seeded/Cxx/<name>/ with what was run."""
import json, os, shutil, subprocess, sys
src, prop, name = sys.argv[1], sys.argv[2], sys.argv[3]
tier = sys.argv[4] if len(sys.argv) > 4 else "quick"
v = subprocess.run(["/verif/tools/verify_seed.sh", src], stdout=subprocess.PIPE, stderr=subprocess.STDOUT, text=True).stdout
t = subprocess.run(["/verif/tools/try_seed.sh", src, prop, tier], stdout=subprocess.PIPE, stderr=subprocess.STDOUT, text=True).stdout
ok = ("suite-with-patch: PASS" in v and "demo-with-patch: FAIL" in v and "demo-without-patch: PASS" in v)
print(v); print(t)
if not ok:
    print("NOT KEPT: claims not confirmed"); sys.exit(1)
dst = os.path.join("/verif/seeded", prop, name)
os.makedirs(dst, exist_ok=True)
shutil.copy(os.path.join(src, "patch.diff"), dst)
shutil.copy(os.path.join(src, "demo_test.go"), dst)
meta = json.load(open(os.path.join(src, "meta.json")))
meta["confirmed_by_verify_seed"] = v.strip().splitlines()
meta["check_result_with_patch"] = dict(tier=tier, output=t.strip().splitlines(), detected=("rc=1" in t))
json.dump(meta, open(os.path.join(dst, "meta.json"), "w"), indent=1)
print("kept in", dst, "detected =", meta["check_result_with_patch"]["detected"])
