#!/bin/sh
# try_seed.sh <seed-dir> <property> [tier] : apply the patch to /repo, run the check, undo.
S=$(cd "$1" && pwd); P=$2; T=${3:-quick}
git -C /repo apply "$S/patch.diff" || exit 2
cd /verif && ./check $P --tier $T > /tmp/try_seed.$$.out 2>&1; rc=$?
git -C /repo checkout -- .
python3 -c "import sys; sys.path.insert(0,'/verif/lib'); import common as C; C.ensure_gen()"
grep -c VIOLATION /tmp/try_seed.$$.out | sed "s/^/VIOLATION lines: /"; grep -m3 "VIOLATION\|KNOWN\|BROKEN" /tmp/try_seed.$$.out; echo "rc=$rc"
rm -f /tmp/try_seed.$$.out
